//! C10 – stale, replayed, mis-typed or unbound handshakes are rejected.
//!
//! The reference client presents handshakes to the real server with every
//! timestamp offset around the +-30 s (Shadowsocks 2022) and +-120 s (VMess
//! auth-id) edges, every type byte, and – the history part – the same valid
//! bytes again after the simulated clock has advanced by d seconds. The
//! reference server answers the real client with mis-typed, stale or unbound
//! responses. accept <=> (server dials / client releases bytes to the
//! application) must equal the reference predicate.

use std::collections::BTreeMap;
use std::net::IpAddr;
use std::net::Ipv4Addr;
use std::net::SocketAddr;
use std::sync::Arc;
use std::sync::Mutex;
use std::time::Duration;

use octo_squirrel::verif::clock::unix_now;
use octo_squirrel::verif::net::TcpListener;
use octo_squirrel::verif::net::TcpStream;
use octo_squirrel::verif::net::UdpSocket;
use octo_squirrel::verif::world;
use refimpl::Addr;
use tokio::io::AsyncReadExt;
use tokio::io::AsyncWriteExt;

use crate::nodes::*;
use crate::plan::*;
use crate::refpeer::*;
use crate::report::Outcome;
use crate::report::Violation;
use crate::rnd::Gen;
use crate::rt;

const TARGET_IP: [u8; 4] = [127, 0, 10, 1];
const TARGET_PORT: u16 = 10101;

pub fn gen_c10(seed: u64, thorough: bool) -> Plan {
    let mut g = Gen::new(seed, 10);
    let ss22: Vec<&str> = SS_CIPHERS.iter().copied().filter(|c| is_2022(c)).collect();
    let kinds = ["ts", "type", "replay", "replay", "udp-ts", "udp-type", "vmess-ts", "resp-type", "resp-stale", "resp-salt", "vmess-resp-auth", "vmess-resp-keys", "resp-early"];
    let kind = kinds[seed as usize % kinds.len()];
    let round = seed as usize / kinds.len();
    let (proto, cipher) = if kind.starts_with("vmess") { (Proto::Vmess, VMESS_CIPHERS[round % 2]) } else { (Proto::Shadowsocks, ss22[round % ss22.len()]) };
    let n_users = if proto == Proto::Shadowsocks && supports_eih(cipher) && g.chance(30) { 2 } else { 0 };
    let mut config = gen_config(&mut g, proto, cipher, Transport::Tcp, n_users);
    if kind.starts_with("udp") {
        config.client_mode = "udp".into();
        config.server_mode = "udp".into();
    }
    // the swept parameter: every integer around the edges is hit within one sweep of `round`
    let delta: i64 = match kind {
        "ts" | "udp-ts" | "resp-stale" => (round as i64 % 71) - 35,
        "vmess-ts" => *g.pick(&[-125i64, -121, -120, -119, -60, -1, 0, 1, 60, 119, 120, 121, 125, 1200]),
        _ => 0,
    };
    let type_byte: u8 = match kind {
        "type" | "udp-type" | "resp-type" => *g.pick(&[0u8, 1, 2, 3, 0x7f, 0x80, 0xff]),
        _ => 0,
    };
    // replay history: first presentation with offset d0 in [-30, 30], the copy after d in [0, 70] seconds
    // half of the histories sit on the edge where the copy's timestamp is about to run out (d = d0 + 30 - k): that is where a cache
    // that forgets too early shows
    let d0: i64 = (round as i64 * 7 % 61) - 30;
    let d: u64 = if round % 2 == 0 { (round as u64 * 13) % 71 } else { (d0 + 30 - (round as i64 / 2 % 3)).max(0) as u64 };
    let _ = thorough;
    let pre = [0u64, 0, 3, 17, 20, 29, 31, 33, 45, 58, 61, 62, 64, 90, 125][(round / 3) % 15];
    let mid = [0u64, 0, 1, 2, 3][(round / 5) % 5];
    Plan {
        property: "C10".into(),
        scenario: "freshness".into(),
        seed,
        net_seed: g.next(),
        config,
        knobs: KnobsPlan::simple(),
        flows: vec![],
        // replay histories: how the first presentation and the copies are cut into segments (0 = one segment; the cut
        // never falls inside salt + fixed-length header, the one boundary Shadowsocks 2022 requires in the first read)
        // replay histories also vary what the server has been through: how long it has been up (idle) before the first
        // presentation, and how many other (fresh, accepted) handshakes arrive between the first presentation and the copy -
        // a replay memory that is organised in generations, or that is refreshed or rotated by other traffic, shows only then
        extra: serde_json::json!({ "kind": kind, "delta": delta, "type": type_byte, "d0": d0, "d": d, "sub_seed": g.next(),
            "seg_first": g.below(4), "seg_copy": g.below(4), "seg_draw": g.next(),
            "pre": pre, "mid": mid, "udp_history": (round / 71) % 3 }),
    }
}

#[derive(Default)]
struct TargetLog {
    /// first bytes of every accepted connection
    conns: Vec<Vec<u8>>,
    dgrams: Vec<Vec<u8>>,
}

async fn run_probe_target(log: Arc<Mutex<TargetLog>>) {
    let addr = SocketAddr::new(IpAddr::V4(Ipv4Addr::from(TARGET_IP)), TARGET_PORT);
    let Ok(l) = TcpListener::bind(addr).await else { return };
    let Ok(u) = UdpSocket::bind(addr).await else { return };
    let ulog = log.clone();
    let _udp = spawn_scoped(async move {
        let mut buf = vec![0u8; 65536];
        loop {
            let Ok((n, from)) = u.recv_from(&mut buf).await else { return };
            ulog.lock().unwrap().dgrams.push(buf[..n].to_vec());
            let _ = u.send_to(b"pong-from-target", from).await;
        }
    });
    let mut held = Vec::new();
    loop {
        let Ok((mut s, _)) = l.accept().await else { return };
        let ix = {
            let mut g = log.lock().unwrap();
            g.conns.push(Vec::new());
            g.conns.len() - 1
        };
        let log = log.clone();
        held.push(spawn_scoped(async move {
            let mut buf = vec![0u8; 4096];
            loop {
                match s.read(&mut buf).await {
                    Ok(0) | Err(_) => break,
                    Ok(n) => {
                        log.lock().unwrap().conns[ix].extend_from_slice(&buf[..n]);
                        let _ = s.write_all(b"answer-from-target").await;
                    }
                }
            }
        }));
    }
}

/// Present `wire` on a fresh connection to the real server; true if the server relayed `tag` to the target.
async fn present(wire: &[u8], tag: &[u8], log: &Arc<Mutex<TargetLog>>) -> bool {
    let Ok(mut s) = TcpStream::connect(server_addr()).await else { return false };
    s.set_own_styles(0, 0);
    let _ = s.write_all(wire).await;
    tokio::time::sleep(Duration::from_millis(300)).await;
    let hit = log.lock().unwrap().conns.iter().any(|c| c.windows(tag.len()).any(|w| w == tag));
    drop(s);
    hit
}

/// Same, with the bytes delivered in pieces (the receiver goes quiet for 40 simulated ms between them).
async fn present_cut(wire: &[u8], cuts: &[usize], tag: &[u8], log: &Arc<Mutex<TargetLog>>) -> bool {
    let Ok(mut s) = TcpStream::connect(server_addr()).await else { return false };
    s.set_own_styles(0, 0);
    s.set_peer_read_style(0);
    let mut from = 0;
    for &c in cuts.iter().chain(std::iter::once(&wire.len())) {
        if c > from && c <= wire.len() {
            let _ = s.write_all(&wire[from..c]).await;
            tokio::time::sleep(Duration::from_millis(40)).await;
            from = c;
        }
    }
    tokio::time::sleep(Duration::from_millis(300)).await;
    let hit = log.lock().unwrap().conns.iter().any(|c| c.windows(tag.len()).any(|w| w == tag));
    drop(s);
    hit
}

/// cut points for a Shadowsocks 2022 request of `len` bytes whose salt + identity headers + fixed-length header end at `fixed_end`
fn seg_cuts(style: u64, draw: u64, fixed_end: usize, len: usize) -> Vec<usize> {
    if len <= fixed_end + 1 {
        return vec![];
    }
    let span = (len - fixed_end - 1) as u64;
    match style {
        0 => vec![],
        1 => vec![fixed_end],
        2 => vec![fixed_end + 1 + (draw % span) as usize],
        _ => {
            let mut v = vec![fixed_end, fixed_end + 1 + (draw % span) as usize, fixed_end + 1 + ((draw >> 20) % span) as usize];
            v.sort();
            v.dedup();
            v
        }
    }
}

pub fn execute_c10(plan: &Plan) -> Outcome {
    let kind = plan.extra["kind"].as_str().unwrap_or("ts").to_owned();
    let delta = plan.extra["delta"].as_i64().unwrap_or(0);
    let type_byte = plan.extra["type"].as_u64().unwrap_or(0) as u8;
    let d0 = plan.extra["d0"].as_i64().unwrap_or(0);
    let d = plan.extra["d"].as_u64().unwrap_or(0);
    let c = creds(&plan.config);
    let cell = plan.config.family();
    let mut g = Gen::new(plan.extra["sub_seed"].as_u64().unwrap_or(3), 101);
    let addr = Addr::V4(TARGET_IP, TARGET_PORT);
    // (description, expected accept, observed accept)
    let out = rt::run_sim(plan.seed, plan.net_seed, plan.knobs.to_knobs(), || async {
        let mut obs: Vec<(String, bool, bool)> = Vec::new();
        let log = Arc::new(Mutex::new(TargetLog::default()));
        let _t = spawn_scoped(run_probe_target(log.clone()));
        tokio::task::yield_now().await;
        if is_2022(&plan.config.cipher) {
            world::with(|w| w.first_atomic_ports.push(SERVER_PORT));
        }
        let server_side = !kind.contains("resp");
        if server_side {
            let server = start_server_json(plan.config.server_json());
            tokio::task::yield_now().await;
            let up = settle(|| if kind.starts_with("udp") { udp_bound(SERVER_PORT) } else { tcp_listening(SERVER_PORT) }).await;
            if !up {
                return (Some(format!("server did not come up (finished={})", server.is_finished())), obs);
            }
        }
        match kind.as_str() {
            "ts" | "type" | "vmess-ts" => {
                let opts = ClientOpts { ts_offset: delta, stream_type: type_byte, ..Default::default() };
                let tag = b"probe-one-tag";
                let (_, wire) = RefClient::start(&c, &mut g, unix_now(), &addr, tag, &opts);
                let limit = if kind == "vmess-ts" { 120 } else { 30 };
                // every third sweep the connection is opened when the request is sealed and then held idle (or its first bytes
                // trickle in) for `idle` seconds before the request is presented on it: freshness is judged when the request
                // is read, against the clock of that moment - not against the moment the connection was accepted
                let idle: i64 = if (plan.extra["udp_history"].as_u64().unwrap_or(0)) == 1 && kind != "type" { [3i64, 20, 29, 31, 33, 45, 64, 90, 125, 200][(plan.seed / 12 % 10) as usize] } else { 0 };
                let age = delta - idle;
                let expect = age.abs() <= limit && type_byte == 0;
                // every third sweep of the other kind: the request is *begun* when it is sealed (its authenticated beginning - the
                // VMess auth id, the Shadowsocks 2022 salt and fixed-length header - arrives at once) and is completed `stall` seconds
                // later. A token that has run out by the time the request is complete (when the server would dial) must not be
                // honoured; a request that is valid at both moments must be served. (Not valid yet at the beginning, valid at the
                // end: either answer is in order, nothing is demanded.)
                let stall: i64 = if (plan.extra["udp_history"].as_u64().unwrap_or(0)) == 2 && kind != "type" { [3i64, 20, 29, 31, 33, 45, 64, 90, 125, 200][(plan.seed / 12 % 10) as usize] } else { 0 };
                if stall > 0 {
                    let begin_ok = delta.abs() <= limit;
                    let end_ok = (delta - stall).abs() <= limit;
                    let begin = if kind == "vmess-ts" {
                        // (inside the sealed request header: the token is judged when the header it authenticates is complete; a
                        // first body chunk that trails behind an accepted header is not a freshness matter)
                        *g.pick(&[16usize, 16, 17, 34, 42, 43])
                    } else {
                        let fixed_end = key_len(&c.cipher) + 16 * c.client_keys.len().saturating_sub(1) + 11 + 16;
                        *g.pick(&[fixed_end, fixed_end, fixed_end + 1, wire.len() - 1]).min(&(wire.len() - 1))
                    };
                    let got = match TcpStream::connect(server_addr()).await {
                        Ok(mut s) => {
                            s.set_own_styles(0, 0);
                            s.set_peer_read_style(0);
                            let _ = s.write_all(&wire[..begin]).await;
                            tokio::time::sleep(Duration::from_secs(stall as u64)).await;
                            let _ = s.write_all(&wire[begin..]).await;
                            tokio::time::sleep(Duration::from_millis(300)).await;
                            let hit = log.lock().unwrap().conns.iter().any(|c| c.windows(tag.len()).any(|w| w == tag));
                            drop(s);
                            hit
                        }
                        Err(_) => false,
                    };
                    if begin_ok == end_ok || begin_ok {
                        obs.push((format!("timestamp offset {delta:+} s when sealed and begun ({begin} of {} bytes), completed {stall} s later (offset {:+} s when complete)", wire.len(), delta - stall), begin_ok && end_ok, got));
                    }
                } else {
                let got = if idle == 0 {
                    present(&wire, tag, &log).await
                } else {
                    match TcpStream::connect(server_addr()).await {
                        Ok(mut s) => {
                            s.set_own_styles(0, 0);
                            tokio::time::sleep(Duration::from_secs(idle as u64)).await;
                            let _ = s.write_all(&wire).await;
                            tokio::time::sleep(Duration::from_millis(300)).await;
                            let hit = log.lock().unwrap().conns.iter().any(|c| c.windows(tag.len()).any(|w| w == tag));
                            drop(s);
                            hit
                        }
                        Err(_) => false,
                    }
                };
                obs.push((format!("timestamp offset {delta:+} s when sealed, type byte {type_byte}, presented after {idle} s on a connection opened when it was sealed (offset {age:+} s when read)"), expect, got));
                }
                // whatever the probe was, a fresh correct handshake is served afterwards
                let tag2 = b"probe-control-tag";
                let (_, wire) = RefClient::start(&c, &mut g, unix_now(), &addr, tag2, &ClientOpts::default());
                let got = present(&wire, tag2, &log).await;
                obs.push(("fresh, correctly typed control handshake".to_owned(), true, got));
            }
            "replay" => {
                let opts = ClientOpts { ts_offset: d0, ..Default::default() };
                let tag = format!("replay-tag-{d0}-{d}").into_bytes();
                let pre = plan.extra["pre"].as_u64().unwrap_or(0);
                let mid = plan.extra["mid"].as_u64().unwrap_or(0);
                if pre > 0 {
                    // the server has been up (and idle) for a while before the request is made
                    tokio::time::sleep(Duration::from_secs(pre)).await;
                }
                let (_, wire) = RefClient::start(&c, &mut g, unix_now(), &addr, &tag, &opts);
                let fixed_end = key_len(&c.cipher) + 16 * c.client_keys.len().saturating_sub(1) + 11 + 16;
                let draw = plan.extra["seg_draw"].as_u64().unwrap_or(0);
                let cuts_first = seg_cuts(plan.extra["seg_first"].as_u64().unwrap_or(0), draw, fixed_end, wire.len());
                let cuts_copy = seg_cuts(plan.extra["seg_copy"].as_u64().unwrap_or(0), draw >> 7, fixed_end, wire.len());
                let first = present_cut(&wire, &cuts_first, &tag, &log).await;
                obs.push((format!("first presentation, client clock {d0:+} s, cut at {cuts_first:?} of {}", wire.len()), true, first));
                // the same bytes again, right away and after the clock has advanced
                log.lock().unwrap().conns.clear();
                let again = present_cut(&wire, &cuts_copy, &tag, &log).await;
                obs.push((format!("identical copy {:.1} s later (client clock {d0:+} s), first cut at {cuts_first:?}, copy cut at {cuts_copy:?}", 0.3), false, again));
                // the delay, with `mid` other clients' fresh handshakes spread over it
                let mut left = d;
                for k in 0..mid {
                    let step = left / (mid - k + 1);
                    tokio::time::sleep(Duration::from_secs(step)).await;
                    left -= step;
                    let tagm = format!("replay-mid-{k}").into_bytes();
                    let (_, wm) = RefClient::start(&c, &mut g, unix_now(), &addr, &tagm, &ClientOpts::default());
                    log.lock().unwrap().conns.clear();
                    let got = present(&wm, &tagm, &log).await;
                    obs.push((format!("fresh handshake of another client between the first presentation and the copy ({k})"), true, got));
                }
                tokio::time::sleep(Duration::from_secs(left)).await;
                log.lock().unwrap().conns.clear();
                let later = present_cut(&wire, &cuts_copy, &tag, &log).await;
                obs.push((format!("identical copy {d} s later (client clock {d0:+} s, timestamp now {:+} s off; server up {pre} s before the first presentation, {mid} other handshakes in between)", d0 - d as i64), false, later));
                let tag2 = b"replay-control-tag";
                let (_, wire2) = RefClient::start(&c, &mut g, unix_now(), &addr, tag2, &ClientOpts::default());
                let got = present(&wire2, tag2, &log).await;
                obs.push(("fresh control handshake".to_owned(), true, got));
            }
            "udp-ts" | "udp-type" => {
                let sock = UdpSocket::bind(SocketAddr::new(IpAddr::V4(Ipv4Addr::LOCALHOST), 0)).await.unwrap();
                let now = unix_now();
                let mk = |g: &mut Gen, sid: u64, pid: u64, ts: u64, ty: u8, payload: &[u8]| {
                    let body = refimpl::ss2022::UdpBody { session_id: sid, packet_id: pid, stream_type: ty, timestamp: ts, client_session_id: None, padding: 3, addr: addr.clone(), payload: payload.to_vec() };
                    if refimpl::ss2022::is_aes(&c.cipher) {
                        refimpl::ss2022::udp_packet_aes(&c.cipher, &c.client_keys, &body)
                    } else {
                        let mut n = [0u8; 24];
                        g.fill(&mut n);
                        refimpl::ss2022::udp_packet_chacha(&c.cipher, &c.psk, &n, &body)
                    }
                };
                let sid = g.next();
                // histories: the probed datagram alone on a fresh session, behind a correct datagram of the same session
                // (a receiver that trusts an established session), or presented twice (a receiver that remembers the session
                // of a refused datagram)
                let history = plan.extra["udp_history"].as_u64().unwrap_or(0);
                let mut pid = 1;
                if history == 1 {
                    let first = mk(&mut g, sid, pid, now, 0, b"udp-session-opener");
                    pid += 1;
                    let _ = sock.send_to(&first, server_addr()).await;
                    tokio::time::sleep(Duration::from_millis(300)).await;
                    let got = log.lock().unwrap().dgrams.iter().any(|d| d == b"udp-session-opener");
                    obs.push(("correct datagram that opens the session".to_owned(), true, got));
                }
                let pkt = mk(&mut g, sid, pid, (now as i64 + delta) as u64, type_byte, b"udp-probe-tag");
                let _ = sock.send_to(&pkt, server_addr()).await;
                tokio::time::sleep(Duration::from_millis(300)).await;
                let got = log.lock().unwrap().dgrams.iter().any(|d| d == b"udp-probe-tag");
                let what = ["alone on a fresh session", "behind a correct datagram of the same session", "first of two presentations"][history.min(2) as usize];
                obs.push((format!("datagram with timestamp offset {delta:+} s, type byte {type_byte}, {what}"), delta.abs() <= 30 && type_byte == 0, got));
                if history == 2 && !(delta.abs() <= 30 && type_byte == 0) {
                    // the refused datagram again, and a sibling of it (next packet id) - neither has become acceptable
                    let _ = sock.send_to(&pkt, server_addr()).await;
                    tokio::time::sleep(Duration::from_millis(300)).await;
                    let again = log.lock().unwrap().dgrams.iter().filter(|d| *d == b"udp-probe-tag").count() > 0;
                    obs.push((format!("the refused datagram (offset {delta:+} s, type {type_byte}) presented a second time"), false, again));
                    let sib = mk(&mut g, sid, pid + 1, (now as i64 + delta) as u64, type_byte, b"udp-probe-sibling");
                    let _ = sock.send_to(&sib, server_addr()).await;
                    tokio::time::sleep(Duration::from_millis(300)).await;
                    let got = log.lock().unwrap().dgrams.iter().any(|d| d == b"udp-probe-sibling");
                    obs.push((format!("another datagram of the refused datagram's session with the same timestamp offset {delta:+} s / type {type_byte}"), false, got));
                }
                let sid2 = g.next();
                let pkt = mk(&mut g, sid2, 1, now, 0, b"udp-control-tag");
                let _ = sock.send_to(&pkt, server_addr()).await;
                tokio::time::sleep(Duration::from_millis(300)).await;
                let got = log.lock().unwrap().dgrams.iter().any(|d| d == b"udp-control-tag");
                obs.push(("fresh control datagram".to_owned(), true, got));
            }
            _ => {
                // the real client against a reference server that answers in a way a client must refuse (or accept, for the control)
                let listener = TcpListener::bind(server_addr()).await.expect("ref server bind");
                let client = start_client_json(rt::NODE_CLIENT, plan.config.client_json("127.0.0.1", SERVER_PORT));
                tokio::task::yield_now().await;
                if !settle(|| tcp_listening(CLIENT_PORT)).await {
                    return (Some(format!("client did not come up (finished={})", client.is_finished())), obs);
                }
                if kind == "resp-early" {
                    // the server speaks first: the application has opened its tunnel and is silent; a response that is well sealed
                    // and fresh but belongs to no request of this client (it echoes some other salt) arrives on the connection the
                    // client has made. Nothing of it may reach the application; the flow then carries on or ends, but never with
                    // those bytes.
                    let mut app = spawn_scoped(async move {
                        let Ok(mut s) = TcpStream::connect(client_addr()).await else { return Vec::new() };
                        s.set_own_styles(0, 0);
                        let mut r = [0u8; 10];
                        if s.write_all(&[5, 1, 0]).await.is_err() || s.read_exact(&mut r[..2]).await.is_err() {
                            return Vec::new();
                        }
                        let mut req = vec![5, 1, 0, 1];
                        req.extend_from_slice(&TARGET_IP);
                        req.extend_from_slice(&TARGET_PORT.to_be_bytes());
                        if s.write_all(&req).await.is_err() || s.read_exact(&mut r).await.is_err() {
                            return Vec::new();
                        }
                        let mut got = Vec::new();
                        let mut buf = [0u8; 1024];
                        while let Ok(Ok(n)) = tokio::time::timeout(Duration::from_secs(4), s.read(&mut buf)).await {
                            if n == 0 {
                                break;
                            }
                            got.extend_from_slice(&buf[..n]);
                        }
                        got
                    });
                    let mut connected = false;
                    if let Ok(Ok((mut s, _))) = tokio::time::timeout(Duration::from_secs(3), listener.accept()).await {
                        connected = true;
                        let key = c.client_keys.last().cloned().unwrap_or_default();
                        let n = key_len(&c.cipher);
                        let (salt, echoed) = (g.bytes(n), g.bytes(n));
                        let (w, _) = refimpl::ss2022::response(&c.cipher, &key, &salt, &echoed, b"early-answer-to-nobody", 1, unix_now());
                        let _ = s.write_all(&w).await;
                        tokio::time::sleep(Duration::from_secs(5)).await;
                    }
                    let released = (&mut app.0).await.unwrap_or_default();
                    // (a client that dials only when the application sends its first byte has no connection to write into: nothing to judge)
                    if connected {
                        obs.push(("resp-early: a sealed, fresh response that echoes a foreign request salt, presented before the application has sent anything".to_owned(), false, !released.is_empty()));
                    }
                }
                for control in if kind == "resp-early" { vec![true] } else { vec![false, true] } {
                    let sopts = if control {
                        ServerOpts::default()
                    } else {
                        match kind.as_str() {
                            "resp-type" => ServerOpts { stream_type: Some(type_byte), ..Default::default() },
                            "resp-stale" => ServerOpts { ts_offset: delta, ..Default::default() },
                            "resp-salt" => ServerOpts { wrong_request_salt: true, ..Default::default() },
                            "vmess-resp-auth" => ServerOpts { vmess_wrong_auth: true, ..Default::default() },
                            _ => ServerOpts { vmess_wrong_keys: true, ..Default::default() },
                        }
                    };
                    let expect = control
                        || match kind.as_str() {
                            "resp-type" => type_byte == 1,
                            "resp-stale" => delta.abs() <= 30,
                            _ => false,
                        };
                    // application: SOCKS5 handshake, one write, then read whatever comes
                    let mut app = spawn_scoped(async move {
                        let Ok(mut s) = TcpStream::connect(client_addr()).await else { return Vec::new() };
                        s.set_own_styles(0, 0);
                        s.set_peer_read_style(0);
                        let mut r = [0u8; 10];
                        if s.write_all(&[5, 1, 0]).await.is_err() || s.read_exact(&mut r[..2]).await.is_err() {
                            return Vec::new();
                        }
                        let mut req = vec![5, 1, 0, 1];
                        req.extend_from_slice(&TARGET_IP);
                        req.extend_from_slice(&TARGET_PORT.to_be_bytes());
                        if s.write_all(&req).await.is_err() || s.read_exact(&mut r).await.is_err() {
                            return Vec::new();
                        }
                        let _ = s.write_all(b"hello-from-application").await;
                        let mut got = Vec::new();
                        let mut buf = [0u8; 1024];
                        while let Ok(Ok(n)) = tokio::time::timeout(Duration::from_secs(3), s.read(&mut buf)).await {
                            if n == 0 {
                                break;
                            }
                            got.extend_from_slice(&buf[..n]);
                        }
                        got
                    });
                    let mut released = Vec::new();
                    if let Ok(Ok((mut s, _))) = tokio::time::timeout(Duration::from_secs(10), listener.accept()).await {
                        let mut srv = RefServer::new(&c, unix_now());
                        let mut buf = vec![0u8; 65536];
                        let mut sent = false;
                        for _ in 0..20 {
                            match tokio::time::timeout(Duration::from_millis(300), s.read(&mut buf)).await {
                                Ok(Ok(0)) | Ok(Err(_)) => break,
                                Ok(Ok(n)) => {
                                    let _ = srv.feed(&buf[..n]);
                                }
                                Err(_) => {}
                            }
                            if !sent && srv.payload.len() >= 22 {
                                sent = true;
                                if let Some(w) = srv.write(&mut g, b"answer-from-reference-server", &sopts) {
                                    // in one segment, or cut behind the part a Shadowsocks 2022 client must get in one read and
                                    // at drawn places after it (a response is judged the same however it is cut)
                                    let fixed_end = if is_2022(&c.cipher) { 2 * key_len(&c.cipher) + 11 + 16 } else { 1 };
                                    let cuts = seg_cuts(plan.extra["seg_first"].as_u64().unwrap_or(0), plan.extra["seg_draw"].as_u64().unwrap_or(0) >> (control as u32 * 9), fixed_end, w.len());
                                    let mut from = 0;
                                    for &k in cuts.iter().chain(std::iter::once(&w.len())) {
                                        if k > from {
                                            let _ = s.write_all(&w[from..k]).await;
                                            tokio::time::sleep(Duration::from_millis(40)).await;
                                            from = k;
                                        }
                                    }
                                }
                                if let Some(w) = srv.write(&mut g, b"-second-part", &sopts) {
                                    let _ = s.write_all(&w).await;
                                }
                            }
                        }
                        released = (&mut app.0).await.unwrap_or_default();
                    }
                    let got = !released.is_empty();
                    let what = if control { "correct response (control)".to_owned() } else { format!("{kind}: type {type_byte}, timestamp offset {delta:+} s") };
                    obs.push((what, expect, got));
                    if got && !b"answer-from-reference-server-second-part".starts_with(&released[..]) {
                        obs.push((format!("{kind}: released bytes are not what the server sent"), false, true));
                    }
                }
            }
        }
        (None, obs)
    });
    let (startup_err, obs) = out.result.clone();
    let mut v = Vec::new();
    if let Some(e) = startup_err {
        v.push(Violation::new("C10", format!("C10/startup/{cell}"), e));
    }
    for (what, expect, got) in &obs {
        if expect != got {
            let oracle = if *got { "accepted-but-must-refuse" } else { "refused-but-must-accept" };
            // the replay finding is identified by its history: which copy, after which delay class
            let class = if kind == "replay" {
                if what.starts_with("identical copy") {
                    if what.contains("0.3 s later") { "replay/immediate-copy".to_owned() } else if d < 30 { "replay/copy-within-30s".to_owned() } else { "replay/copy-after-cache-ttl".to_owned() }
                } else {
                    "replay/control".to_owned()
                }
            } else {
                kind.clone()
            };
            v.push(Violation::new("C10", format!("C10/{oracle}/{cell}/{class}"), what.clone()));
        }
    }
    for p in &out.panics {
        v.push(Violation::new("C10", format!("C10/panic/{cell}/{kind}/{}", p.frame), format!("panic in node {}: {} at {}", p.node, p.message, p.location)));
    }
    let mut probes = BTreeMap::new();
    probes.insert(format!("kind_{kind}"), 1);
    probes.insert("decisions_compared".to_owned(), obs.len() as u64);
    if kind == "replay" {
        probes.insert(format!("replay_after_{}", if d <= 30 { "0-30s" } else { "31-70s" }), 1);
    }
    Outcome {
        violations: v,
        ev_hash: out.world.ev_hash,
        ev_count: out.world.ev_count,
        poll_hash: out.poll_hash,
        polls: out.polls,
        sim_ns: out.sim_ns,
        stats: crate::report::world_stats(&out.world),
        nontrivial: !obs.is_empty(),
        case_hash: plan.seed.wrapping_mul(0x9E3779B97F4A7C15) ^ (delta as u64) ^ ((d0 as u64) << 8) ^ (d << 16) ^ ((type_byte as u64) << 24),
        probes,
        panics: out.panics,
        extra_evaluations: 0,
        extra_cases: Vec::new(),
    }
}
