//! C03 – wire-format interoperability with the independent reference.
//!
//!   client-to-ref : real client  -> strict reference server (which also answers)
//!   ref-to-server : reference client -> real server -> scripted target
//!   udp-*         : the same for Shadowsocks datagrams
//!   encoder       : the library's stream encoders driven directly with large
//!                   items (sender limits), decoded by the strict reference
//!
//! The oracle is a second party on the simulated wire: the strict reference
//! must accept everything the code emits and recover the same address and
//! payload, and the code must accept everything the reference emits.

use std::collections::BTreeMap;
use std::net::IpAddr;
use std::net::Ipv4Addr;
use std::net::SocketAddr;
use std::sync::Arc;
use std::sync::Mutex;
use std::time::Duration;

use octo_squirrel::verif::clock::unix_now;
use octo_squirrel::verif::net::TcpListener;
use octo_squirrel::verif::net::TcpStream;
use octo_squirrel::verif::net::UdpSocket;
use octo_squirrel::verif::world;
use refimpl::Addr;
use tokio::io::AsyncReadExt;
use tokio::io::AsyncWriteExt;

use crate::nodes::*;
use crate::plan::*;
use crate::refpeer::*;
use crate::report::Outcome;
use crate::report::Violation;
use crate::rnd::Gen;
use crate::rt;
use crate::scen_tcp::gen_flow;
use crate::scen_tcp::ALL_HS;

pub fn ref_cells() -> Vec<(Proto, &'static str, usize)> {
    let mut v = Vec::new();
    for (p, c) in all_proto_ciphers() {
        v.push((p, c, 0));
        if p == Proto::Shadowsocks && supports_eih(c) {
            v.push((p, c, 1));
            v.push((p, c, 3));
        }
        if p == Proto::Vmess {
            v.push((p, c, 2));
        }
    }
    v
}

const MODES: [&str; 5] = ["client-to-ref", "ref-to-server", "udp-client-to-ref", "udp-ref-to-server", "encoder"];

pub fn gen_c03(seed: u64, thorough: bool) -> Plan {
    let mut g = Gen::new(seed, 3);
    let cells = ref_cells();
    let mode = MODES[seed as usize % MODES.len()];
    let (mut proto, mut cipher, n_users) = cells[(seed as usize / MODES.len()) % cells.len()];
    if mode.starts_with("udp") && proto != Proto::Shadowsocks {
        // datagram formats exist for Shadowsocks only; VMess / Trojan datagrams travel in their streams (covered by the tcp modes with the udp command)
        proto = Proto::Shadowsocks;
        cipher = SS_CIPHERS[(seed as usize / 7) % 7];
    }
    let n_users = if supports_eih(cipher) { n_users } else { 0 };
    // a third of the stream plans travel in WebSocket messages whose boundaries the reference peer chooses
    let carrier = if !mode.starts_with("udp") && mode != "encoder" && (seed / (MODES.len() * cells.len()) as u64) % 3 == 1 { Transport::Ws } else { Transport::Tcp };
    let mut config = gen_config(&mut g, proto, cipher, carrier, if proto == Proto::Vmess { n_users } else { n_users });
    if mode.starts_with("udp") {
        config.client_mode = "udp".into();
        config.server_mode = "udp".into();
    }
    // which registered user the reference client is (multi-user 2022)
    if proto == Proto::Shadowsocks && n_users > 0 {
        let u = g.below(config.users.len() as u64) as usize;
        config.client_password = format!("{}:{}", config.server_password, config.users[u].1);
    }
    let hs = *g.pick(&ALL_HS);
    let mut f = gen_flow(&mut g, 0, hs, Ending::None, if thorough { 200_000 } else { 40_000 });
    f.start_ms = 0;
    f.target_waits_for = 1;
    let big = g.chance(30);
    let sizes = |g: &mut Gen| -> Vec<usize> {
        let n = g.range(1, 5);
        (0..n).map(|_| if big && g.chance(40) { *g.pick(&[16383usize, 16384, 16385, 40_000, 65535, 65536, 70_000]) } else { g.range(1, 3000) as usize }).collect()
    };
    let up = sizes(&mut g);
    let down = sizes(&mut g);
    f.up = up.iter().flat_map(|s| [Op::Write(*s), Op::Pause(5)]).collect();
    f.down = down.iter().flat_map(|s| [Op::Write(*s), Op::Pause(5)]).collect();
    // a quarter of the stream plans are slow starters: the application writes its first byte 31-50 s after its handshake, the
    // target thinks for 31-50 s before its first answer byte - what a sender puts into a header (timestamps) has to be true
    // when the header leaves, and the reference judges it when it arrives
    let slow_ms = if g.chance(25) { g.range(31_000, 50_000) } else { 0 };
    if slow_ms > 0 {
        f.up.insert(0, Op::Pause(slow_ms));
        f.down.insert(0, Op::Pause(slow_ms));
    }
    let vmess_options: u8 = 1 | (g.below(2) as u8 * 4) | (g.below(2) as u8 * 8) | (g.below(2) as u8 * 16);
    // the encoder mode has nothing to do for VMess: one in three of those seeds compares a stream longer than the 16-bit chunk counter
    let mode = if mode == "encoder" && proto == Proto::Vmess && (seed / MODES.len() as u64 / cells.len() as u64) % 3 == 0 { "vmess-long" } else { mode };
    Plan {
        property: "C03".into(),
        scenario: "interop".into(),
        seed,
        net_seed: g.next(),
        config,
        knobs: KnobsPlan { read_style: *g.pick(&[0, 0, 3, 4]), latency_us: *g.pick(&[0, 100]), ..KnobsPlan::simple() },
        flows: vec![f],
        extra: serde_json::json!({ "mode": mode, "sub_seed": g.next(), "vmess_options": vmess_options, "udp_sizes": (0..g.range(1, 6)).map(|_| g.range(0, 1400)).collect::<Vec<_>>() }),
    }
}

#[derive(Default, Clone)]
struct Seen {
    startup_err: Option<String>,
    /// strict reference decode error
    ref_error: Option<String>,
    ref_addr: Option<Addr>,
    ref_payload: Vec<u8>,
    chunk_lens: Vec<usize>,
    app_recv: Vec<u8>,
    app_hs_err: Option<String>,
    target_recv: Vec<u8>,
    dials: Vec<SocketAddr>,
    dns: Vec<String>,
    /// datagrams: (what the reference recovered) / (what targets and applications got)
    ref_dgrams: Vec<(Addr, Vec<u8>)>,
    got_dgrams: Vec<Vec<u8>>,
    reply_dgrams: Vec<Vec<u8>>,
    notes: Vec<String>,
    ws_messages: u64,
}

fn flow_addr(f: &TcpFlow) -> Addr {
    match (&f.hs, &f.target_name) {
        (LocalHs::Socks5V4, _) | (_, None) => {
            if matches!(f.hs, LocalHs::HttpConnect | LocalHs::HttpPlain) {
                // the HTTP handshakes always hand the host over as a name, even when it is an IPv4 literal
                Addr::Name(Ipv4Addr::from(f.target_ip).to_string().into_bytes(), f.target_port)
            } else {
                Addr::V4(f.target_ip, f.target_port)
            }
        }
        (_, Some(n)) => Addr::Name(n.as_bytes().to_vec(), f.target_port),
    }
}

/// The reference peer's end of the carrier: the plain byte stream, or a WebSocket connection (third-party tokio-websockets on
/// the harness side) whose *message* boundaries are chosen here, independently of the carried protocol's frames - as another
/// implementation is free to do (v2ray writes one message per 8 KiB buffer).
enum Pipe {
    Tcp(TcpStream),
    Ws(tokio_websockets::WebSocketStream<TcpStream>, u64, u64),
}

impl Pipe {
    /// `first_min`: bytes that have to travel in the first message (the Shadowsocks 2022 first flight, which the properties exempt)
    async fn send(&mut self, data: &[u8], g: &mut Gen, first_min: usize) -> bool {
        use futures::SinkExt;
        match self {
            Pipe::Tcp(s) => s.write_all(data).await.is_ok(),
            Pipe::Ws(w, style, sent) => {
                let mut at = 0;
                while at < data.len() {
                    let mut n = match *style {
                        0 => data.len(),
                        1 => 8192,
                        2 => g.range(1, 40) as usize,
                        3 => g.range(1, 3000) as usize,
                        _ => *g.pick(&[1usize, 2, 15, 16, 17, 18, 33, 34, 50, 100, 1000]),
                    };
                    if at == 0 {
                        n = n.max(first_min);
                    }
                    let end = (at + n).min(data.len());
                    if w.send(tokio_websockets::Message::binary(bytes::Bytes::copy_from_slice(&data[at..end]))).await.is_err() {
                        return false;
                    }
                    *sent += 1;
                    at = end;
                }
                true
            }
        }
    }

    fn messages_sent(&self) -> u64 {
        match self {
            Pipe::Ws(_, _, n) => *n,
            _ => 0,
        }
    }

    /// next piece of the byte stream; `None` = end of stream or error
    async fn recv(&mut self, buf: &mut [u8]) -> Option<Vec<u8>> {
        use futures::StreamExt;
        match self {
            Pipe::Tcp(s) => match s.read(buf).await {
                Ok(0) | Err(_) => None,
                Ok(n) => Some(buf[..n].to_vec()),
            },
            Pipe::Ws(w, _, _) => loop {
                match w.next().await {
                    Some(Ok(m)) if m.is_binary() || m.is_text() => return Some(m.as_payload().to_vec()),
                    Some(Ok(m)) if m.is_close() => return None,
                    Some(Ok(_)) => continue,
                    _ => return None,
                }
            },
        }
    }
}

async fn client_to_ref(plan: &Plan, g: &mut Gen) -> Seen {
    let mut seen = Seen::default();
    let f = plan.flows[0].clone();
    let c = creds(&plan.config);
    if is_2022(&plan.config.cipher) {
        // SIP022 first-flight boundary (exempt): the response's salt + fixed header reach the client in one read
        world::with(|w| w.first_atomic_ports.push(SERVER_PORT));
    }
    let listener = TcpListener::bind(server_addr()).await.expect("ref server bind");
    let client = start_client_json(rt::NODE_CLIENT, plan.config.client_json("127.0.0.1", SERVER_PORT));
    tokio::task::yield_now().await;
    if !settle(|| tcp_listening(CLIENT_PORT)).await {
        seen.startup_err = Some(format!("client did not come up (finished={})", client.is_finished()));
        return seen;
    }
    let obs = Arc::new(Mutex::new(FlowObs::default()));
    let _app = spawn_scoped(run_app(0, f.clone(), obs.clone(), true));
    // the reference server: strict receiver, then answers with the flow's down script
    let mut srv = RefServer::new(&c, unix_now());
    let accept = tokio::time::timeout(Duration::from_secs(60), listener.accept()).await;
    let Ok(Ok((mut s, _))) = accept else {
        seen.ref_error = Some("the client never connected to the server".into());
        seen.app_hs_err = obs.lock().unwrap().hs_err.clone();
        return seen;
    };
    s.set_own_styles(0, 0);
    let mut s = if plan.config.transport == Transport::Ws {
        match tokio_websockets::ServerBuilder::new().accept(s).await {
            Ok((_, w)) => Pipe::Ws(w, g.below(5), 0),
            Err(e) => {
                seen.ref_error = Some(format!("the client's websocket upgrade was refused by the reference side: {e}"));
                return seen;
            }
        }
    } else {
        Pipe::Tcp(s)
    };
    let first_min = crate::scen_link::exempt_prefix(&plan.config, "s2c") as usize;
    let mut sent_any = false;
    let want_up = expected_up(&f, 0);
    let want_down = expected_down(&f, 0);
    let slow_polls = f.up.iter().chain(&f.down).map(|o| if let Op::Pause(ms) = o { *ms / 500 } else { 0 }).sum::<u64>() + 2;
    let mut buf = vec![0u8; 65536];
    let mut answered = false;
    let opts = ServerOpts::default();
    let mut idle = 0;
    loop {
        match tokio::time::timeout(Duration::from_millis(500), s.recv(&mut buf)).await {
            Ok(None) => break,
            Ok(Some(d)) => {
                idle = 0;
                srv.now = unix_now();
                if let Err(e) = srv.feed(&d) {
                    seen.ref_error = Some(e);
                    break;
                }
            }
            Err(_) => idle += 1,
        }
        if !answered && srv.addr.is_some() && srv.payload.len() >= want_up.len() {
            answered = true;
            let mut off = 0;
            for op in &f.down {
                if let Op::Write(n) = op {
                    let data = &want_down[off..off + n];
                    off += n;
                    if let Some(w) = srv.write(g, data, &opts) {
                        if !s.send(&w, g, if sent_any { 0 } else { first_min }).await {
                            break;
                        }
                        sent_any = true;
                    }
                }
            }
        }
        let done = answered && obs.lock().unwrap().app.recv.len() >= want_down.len();
        if done || idle > 40 + slow_polls {
            break;
        }
    }
    seen.ref_addr = srv.addr.clone();
    seen.ws_messages = s.messages_sent();
    seen.ref_payload = srv.payload.clone();
    seen.chunk_lens = srv.sender_chunk_lens();
    let o = obs.lock().unwrap();
    seen.app_recv = o.app.recv.clone();
    seen.app_hs_err = o.hs_err.clone();
    seen
}

async fn ref_to_server(plan: &Plan, g: &mut Gen) -> Seen {
    let mut seen = Seen::default();
    let f = plan.flows[0].clone();
    let c = creds(&plan.config);
    crate::scen_tcp::install_zone(plan);
    if is_2022(&plan.config.cipher) {
        world::with(|w| w.first_atomic_ports.push(SERVER_PORT));
    }
    let server = start_server_json(plan.config.server_json());
    tokio::task::yield_now().await;
    if !settle(|| tcp_listening(SERVER_PORT)).await {
        seen.startup_err = Some(format!("server did not come up (finished={})", server.is_finished()));
        return seen;
    }
    let obs = Arc::new(Mutex::new(FlowObs::default()));
    let _t = spawn_scoped(run_target(0, f.clone(), obs.clone()));
    tokio::task::yield_now().await;
    let want_up = payload(0, 0, 0, f.up_total());
    let want_down = expected_down(&f, 0);
    let slow_polls = f.down.iter().map(|o| if let Op::Pause(ms) = o { *ms / 500 } else { 0 }).sum::<u64>() + 2;
    let Ok(mut s) = TcpStream::connect(server_addr()).await else {
        seen.ref_error = Some("cannot connect to the server".into());
        return seen;
    };
    s.set_own_styles(0, 0);
    s.set_caps(1 << 22, 1 << 22);
    let addr = match &f.target_name {
        Some(n) => Addr::Name(n.as_bytes().to_vec(), f.target_port),
        None => Addr::V4(f.target_ip, f.target_port),
    };
    let opts = ClientOpts { vmess_options: plan.extra["vmess_options"].as_u64().map(|x| x as u8), ..Default::default() };
    let writes: Vec<usize> = f.up.iter().filter_map(|o| if let Op::Write(n) = o { Some(*n) } else { None }).collect();
    let mut off = 0;
    let first = &want_up[..writes[0]];
    off += writes[0];
    let mut s = if plan.config.transport == Transport::Ws {
        let b = tokio_websockets::ClientBuilder::new().uri("ws://sim.test/ws").expect("uri");
        match b.connect_on(s).await {
            Ok((w, _)) => Pipe::Ws(w, g.below(5), 0),
            Err(e) => {
                seen.ref_error = Some(format!("the server refused a websocket upgrade: {e}"));
                return seen;
            }
        }
    } else {
        Pipe::Tcp(s)
    };
    let (mut cl, wire) = RefClient::start(&c, g, unix_now(), &addr, first, &opts);
    let _ = s.send(&wire, g, crate::scen_link::exempt_prefix(&plan.config, "c2s") as usize).await;
    for n in writes.iter().skip(1) {
        tokio::time::sleep(Duration::from_millis(5)).await;
        let w = cl.write(&want_up[off..off + n]);
        off += n;
        if !s.send(&w, g, 0).await {
            break;
        }
    }
    let mut buf = vec![0u8; 65536];
    let mut idle = 0;
    loop {
        match tokio::time::timeout(Duration::from_millis(500), s.recv(&mut buf)).await {
            Ok(None) => break,
            Ok(Some(d)) => {
                idle = 0;
                if let Err(e) = cl.feed(&d) {
                    seen.ref_error = Some(e);
                    break;
                }
            }
            Err(_) => idle += 1,
        }
        if (cl.payload.len() >= want_down.len() && obs.lock().unwrap().target.recv.len() >= want_up.len()) || idle > 40 + slow_polls {
            break;
        }
    }
    seen.ref_payload = cl.payload.clone();
    seen.ws_messages = s.messages_sent();
    seen.chunk_lens = cl.sender_chunk_lens();
    seen.target_recv = obs.lock().unwrap().target.recv.clone();
    seen.dials = world::with(|w| w.connects.iter().filter(|c| c.node == rt::NODE_SERVER).map(|c| c.dst).collect());
    seen.dns = world::with(|w| w.dns_queries.iter().filter(|q| q.node == rt::NODE_SERVER).map(|q| q.name.clone()).collect());
    seen
}

/// Shadowsocks datagrams: the real client's packets opened by the reference, and the reference's answers decoded by the client.
async fn udp_client_to_ref(plan: &Plan, g: &mut Gen) -> Seen {
    let mut seen = Seen::default();
    let c = creds(&plan.config);
    let cipher = plan.config.cipher.clone();
    let sock = UdpSocket::bind(server_addr()).await.expect("ref udp bind");
    let client = start_client_json(rt::NODE_CLIENT, plan.config.client_json("127.0.0.1", SERVER_PORT));
    tokio::task::yield_now().await;
    if !settle(|| udp_bound(CLIENT_PORT)).await {
        seen.startup_err = Some(format!("client did not come up (finished={})", client.is_finished()));
        return seen;
    }
    let sizes: Vec<usize> = serde_json::from_value(plan.extra["udp_sizes"].clone()).unwrap_or_default();
    let app = UdpSocket::bind(SocketAddr::new(IpAddr::V4(Ipv4Addr::LOCALHOST), 0)).await.unwrap();
    let target = crate::scen_udp::UdpTarget { ip: [127, 0, 9, 7], port: 7777, name: if plan.seed % 3 == 0 { Some("dgram.c03.test".into()) } else { None }, replies: 1, reply_size: 50 };
    let want_addr = match &target.name {
        Some(n) => Addr::Name(n.as_bytes().to_vec(), target.port),
        None => Addr::V4(target.ip, target.port),
    };
    let mut server_session: u64 = g.next();
    let mut server_pid = 0u64;
    let mut buf = vec![0u8; 65536];
    for (i, size) in sizes.iter().enumerate() {
        let p = crate::scen_udp::dgram_payload(0, 0, i as u32 + 1, 0, *size);
        let _ = app.send_to(&crate::scen_udp::socks5_udp_wrap(&target, &p), client_addr()).await;
        let Ok(Ok((n, from))) = tokio::time::timeout(Duration::from_secs(5), sock.recv_from(&mut buf)).await else {
            seen.notes.push(format!("datagram {i} ({size} bytes) never reached the server socket"));
            continue;
        };
        let pkt = buf[..n].to_vec();
        let now = unix_now();
        // strict open
        let opened: Result<(Addr, Vec<u8>, Option<(u64, u64, Option<usize>)>), String> = if !is_2022(&cipher) {
            refimpl::ss::udp_open(&cipher, &c.password, &pkt).map(|(_, a, d, _)| (a, d, None))
        } else if refimpl::ss2022::is_aes(&cipher) {
            let eih = if c.user_keys.is_empty() { 0 } else { 1 };
            let body_keys = if c.user_keys.is_empty() { vec![c.psk.clone()] } else { c.user_keys.clone() };
            refimpl::ss2022::udp_open_aes(&cipher, &c.psk, &body_keys, eih, &pkt, false).and_then(|(b, idx, _, eihs)| {
                if b.stream_type != 0 {
                    return Err(format!("type byte {}", b.stream_type));
                }
                if b.timestamp.abs_diff(now) > 30 {
                    return Err(format!("timestamp {} vs {}", b.timestamp, now));
                }
                if eih == 1 && eihs[0] != refimpl::ss2022::psk_hash(&body_keys[idx]) {
                    return Err("identity header does not name the user whose key sealed the body".into());
                }
                Ok((b.addr, b.payload, Some((b.session_id, b.packet_id, if eih == 1 { Some(idx) } else { None }))))
            })
        } else {
            refimpl::ss2022::udp_open_chacha(&cipher, &c.psk, &pkt, false).and_then(|(b, _)| {
                if b.stream_type != 0 || b.timestamp.abs_diff(now) > 30 {
                    return Err("type or timestamp".into());
                }
                Ok((b.addr, b.payload, Some((b.session_id, b.packet_id, None))))
            })
        };
        match opened {
            Err(e) => {
                seen.ref_error = Some(format!("datagram {i} ({size} bytes): {e}"));
                break;
            }
            Ok((a, d, ids)) => {
                if let Some((_, pid, _)) = ids {
                    if pid != i as u64 + 1 {
                        seen.notes.push(format!("packet id {pid} for the {}th datagram of the session", i + 1));
                    }
                }
                seen.ref_dgrams.push((a, d));
                // answer in the reference's own encoding
                let reply = crate::scen_udp::dgram_payload(0, 0, i as u32 + 1, 1, 60 + i);
                server_pid += 1;
                let from_addr = Addr::V4(target.ip, target.port);
                let wire = if !is_2022(&cipher) {
                    refimpl::ss::udp_packet(&cipher, &c.password, &g.bytes(key_len(&cipher)), &from_addr, &reply)
                } else {
                    let (csid, user) = ids.map(|(s, _, u)| (s, u)).unwrap();
                    let body = refimpl::ss2022::UdpBody { session_id: server_session, packet_id: server_pid, stream_type: 1, timestamp: now, client_session_id: Some(csid), padding: (i * 3) % 20, addr: from_addr, payload: reply.clone() };
                    if refimpl::ss2022::is_aes(&cipher) {
                        let key = match user {
                            Some(u) => c.user_keys[u].clone(),
                            None => c.psk.clone(),
                        };
                        refimpl::ss2022::udp_packet_aes(&cipher, &[key], &body)
                    } else {
                        let mut n24 = [0u8; 24];
                        g.fill(&mut n24);
                        refimpl::ss2022::udp_packet_chacha(&cipher, &c.psk, &n24, &body)
                    }
                };
                let _ = sock.send_to(&wire, from).await;
                if let Ok(Ok((n, _))) = tokio::time::timeout(Duration::from_secs(5), app.recv_from(&mut buf)).await {
                    seen.reply_dgrams.push(buf[..n].to_vec());
                } else {
                    seen.notes.push(format!("the reference's reply {i} never reached the application"));
                }
                seen.got_dgrams.push(reply);
            }
        }
        let _ = &mut server_session;
    }
    seen.ref_addr = Some(want_addr);
    seen
}

async fn udp_ref_to_server(plan: &Plan, g: &mut Gen) -> Seen {
    let mut seen = Seen::default();
    let c = creds(&plan.config);
    let cipher = plan.config.cipher.clone();
    let server = start_server_json(plan.config.server_json());
    tokio::task::yield_now().await;
    if !settle(|| udp_bound(SERVER_PORT)).await {
        seen.startup_err = Some(format!("server udp did not come up (finished={})", server.is_finished()));
        return seen;
    }
    let target = crate::scen_udp::UdpTarget { ip: [127, 0, 9, 8], port: 8888, name: if plan.seed % 3 == 1 { Some("dgram2.c03.test".into()) } else { None }, replies: 1, reply_size: 77 };
    if let Some(n) = &target.name {
        world::with(|w| w.zone.insert(n.clone(), Some(IpAddr::V4(Ipv4Addr::from(target.ip)))));
    }
    let tobs = Arc::new(Mutex::new(crate::scen_udp::UdpObs { sent: vec![vec![]], app_recv: vec![vec![]], target_recv: vec![vec![]], app_send_err: vec![None] }));
    let _t = spawn_scoped(crate::scen_udp::udp_target_pub(0, target.clone(), tobs.clone()));
    tokio::task::yield_now().await;
    let sock = UdpSocket::bind(SocketAddr::new(IpAddr::V4(Ipv4Addr::LOCALHOST), 0)).await.unwrap();
    let sizes: Vec<usize> = serde_json::from_value(plan.extra["udp_sizes"].clone()).unwrap_or_default();
    let addr = match &target.name {
        Some(n) => Addr::Name(n.as_bytes().to_vec(), target.port),
        None => Addr::V4(target.ip, target.port),
    };
    let session: u64 = g.next();
    let mut buf = vec![0u8; 65536];
    for (i, size) in sizes.iter().enumerate() {
        let p = crate::scen_udp::dgram_payload(0, 0, i as u32 + 1, 0, (*size).max(9));
        let now = unix_now();
        let wire = if !is_2022(&cipher) {
            refimpl::ss::udp_packet(&cipher, &c.password, &g.bytes(key_len(&cipher)), &addr, &p)
        } else {
            let body = refimpl::ss2022::UdpBody { session_id: session, packet_id: i as u64 + 1, stream_type: 0, timestamp: now, client_session_id: None, padding: (i * 7) % 30, addr: addr.clone(), payload: p.clone() };
            if refimpl::ss2022::is_aes(&cipher) {
                refimpl::ss2022::udp_packet_aes(&cipher, &c.client_keys, &body)
            } else {
                let mut n24 = [0u8; 24];
                g.fill(&mut n24);
                refimpl::ss2022::udp_packet_chacha(&cipher, &c.psk, &n24, &body)
            }
        };
        seen.got_dgrams.push(p);
        let _ = sock.send_to(&wire, server_addr()).await;
        let Ok(Ok((n, _))) = tokio::time::timeout(Duration::from_secs(5), sock.recv_from(&mut buf)).await else {
            seen.notes.push(format!("no reply to the reference's datagram {i}"));
            continue;
        };
        let pkt = buf[..n].to_vec();
        let key = c.client_keys.last().cloned().unwrap_or_default();
        let opened = if !is_2022(&cipher) {
            refimpl::ss::udp_open(&cipher, &c.password, &pkt).map(|(_, a, d, _)| (a, d))
        } else if refimpl::ss2022::is_aes(&cipher) {
            refimpl::ss2022::udp_open_aes(&cipher, &key, &[key.clone()], 0, &pkt, true).and_then(|(b, _, _, _)| {
                if b.stream_type != 1 || b.timestamp.abs_diff(now) > 30 || b.client_session_id != Some(session) {
                    return Err(format!("type {} / timestamp {} / client session {:?}", b.stream_type, b.timestamp, b.client_session_id));
                }
                Ok((b.addr, b.payload))
            })
        } else {
            refimpl::ss2022::udp_open_chacha(&cipher, &c.psk, &pkt, true).and_then(|(b, _)| {
                if b.stream_type != 1 || b.client_session_id != Some(session) {
                    return Err("type or client session".into());
                }
                Ok((b.addr, b.payload))
            })
        };
        match opened {
            Err(e) => {
                seen.ref_error = Some(format!("reply {i}: {e}"));
                break;
            }
            Ok((a, d)) => seen.ref_dgrams.push((a, d)),
        }
    }
    seen.reply_dgrams = tobs.lock().unwrap().target_recv[0].iter().map(|(_, d)| d.clone()).collect();
    seen.ref_addr = Some(Addr::V4(target.ip, target.port));
    seen
}

/// The library's stream encoders driven directly with one large item; the strict reference decodes and checks the sender limits.
fn encoder_limits(plan: &Plan) -> Vec<Violation> {
    use bytes::BytesMut;
    use octo_squirrel::codec::aead::CipherKind;
    use octo_squirrel::codec::shadowsocks::tcp as sst;
    use octo_squirrel::protocol::shadowsocks::Mode;
    let mut v = Vec::new();
    let cfg = &plan.config;
    if cfg.proto != Proto::Shadowsocks {
        return v;
    }
    let c = creds(cfg);
    let kind: CipherKind = serde_json::from_value(serde_json::Value::String(cfg.cipher.clone())).unwrap();
    let addr = octo_squirrel::protocol::address::Address::Domain("limit.c03.test".into(), 443);
    let item_len = 70_000usize;
    let item = payload(5, 0, 0, item_len);
    macro_rules! run {
        ($n:literal) => {{
            let (key, ikeys): ([u8; $n], Vec<[u8; $n]>) = if is_2022(&cfg.cipher) {
                let mut ks: Vec<[u8; $n]> = c.client_keys.iter().map(|k| { let mut a = [0u8; $n]; a.copy_from_slice(k); a }).collect();
                let k = ks.pop().unwrap();
                (k, ks)
            } else {
                let m = refimpl::ss::evp_bytes_to_key(&c.password, $n);
                let mut a = [0u8; $n];
                a.copy_from_slice(&m);
                (a, vec![])
            };
            let ctx = sst::Context::<$n>::new(key, ikeys, kind, None);
            // (the session is handed over as `&mut`: that coerces to `&` where the encoder takes a shared reference, so the harness
            // builds against either signature)
            #[allow(unused_mut)]
            let mut session = sst::Session::<$n>::new(Mode::Client, sst::Identity::default(), Some(addr.clone()));
            let mut codec = sst::AEADCipherCodec::<$n>::default();
            let mut dst = BytesMut::new();
            codec.encode(&ctx, &mut session, BytesMut::from(&item[..]), &mut dst).map(|_| dst.to_vec()).map_err(|e| e.to_string())
        }};
    }
    let wire = if key_len(&cfg.cipher) == 16 { run!(16) } else { run!(32) };
    let cell = cfg.label();
    match wire {
        Err(e) => v.push(Violation::new("C03", format!("C03/encoder-error/{cell}"), e)),
        Ok(w) => {
            let mut srv = RefServer::new(&c, unix_now());
            match srv.feed(&w) {
                Err(e) => v.push(Violation::new("C03", format!("C03/sender-limit/{cell}/c2s"), format!("one {item_len}-byte write through the client encoder: the strict reference refuses the stream: {e}"))),
                Ok(()) => {
                    if srv.payload != item {
                        v.push(Violation::new("C03", format!("C03/encoder-payload/{cell}"), format!("reference recovered {} of {item_len} bytes", srv.payload.len())));
                    }
                }
            }
        }
    }
    v
}

/// VMess body streams longer than the 16-bit chunk counter: the library's body codec against the reference for
/// 65536 + 40 chunks in one direction (the counter wraps to 0 - the protocol defines it so - and both ends must agree
/// on that), library -> reference and reference -> library, request and response direction.
fn vmess_long(plan: &Plan) -> (Vec<Violation>, u64) {
    use bytes::BytesMut;
    use octo_squirrel::codec::vmess::aead::AEADBodyCodec;
    use octo_squirrel::protocol::vmess::VERSION;
    use octo_squirrel::protocol::vmess::header::RequestCommand;
    use octo_squirrel::protocol::vmess::header::RequestHeader;
    use octo_squirrel::protocol::vmess::header::RequestOption;
    use octo_squirrel::protocol::vmess::header::SecurityType;
    use octo_squirrel::protocol::vmess::session::ClientSession;
    use octo_squirrel::protocol::vmess::session::ServerSession;
    let mut v = Vec::new();
    let mut g = Gen::new(plan.seed, 303);
    let chacha = plan.config.cipher.contains("chacha");
    let options = plan.extra["vmess_options"].as_u64().unwrap_or(1) as u8;
    let cell = format!("vmess/{}", plan.config.cipher);
    let mut iv = [0u8; 16];
    let mut key = [0u8; 16];
    g.fill(&mut iv);
    g.fill(&mut key);
    let chunks = (1usize << 16) + 40;
    let header = RequestHeader::new(
        VERSION,
        RequestCommand::TCP,
        RequestOption::from_mask(options),
        if chacha { SecurityType::Chacha20Poly1305 } else { SecurityType::Aes128Gcm },
        octo_squirrel::protocol::address::Address::Domain("long.c03.test".to_owned(), 443),
        [7; 16],
    );
    let req = refimpl::vmess::Request { body_iv: iv, body_key: key, resp_auth: 0x5a, options, security: if chacha { refimpl::vmess::SEC_CHACHA20 } else { refimpl::vmess::SEC_AES128GCM }, command: 1, addr: Addr::Name(b"long.c03.test".to_vec(), 443), padding: 0 };
    let sessions = || {
        let mut raw = [0u8; 33];
        raw[..16].copy_from_slice(&iv);
        raw[16..32].copy_from_slice(&key);
        raw[32] = 0x5a;
        (ClientSession::from(&raw[..]), ServerSession::new(iv, key, 0x5a))
    };
    let pay = |i: usize| -> Vec<u8> { (0..1 + i % 3).map(|k| (i * 7 + k) as u8).collect() };
    let mut evals = 0u64;
    for response in [false, true] {
        let dir = if response { "s2c" } else { "c2s" };
        // library seals, reference opens
        let (mut client, mut server) = sessions();
        let enc = if response { AEADBodyCodec::new_encoder(&header, &mut server) } else { AEADBodyCodec::new_encoder(&header, &mut client) };
        let mut reference = if response { refimpl::vmess::response_body(&req) } else { refimpl::vmess::request_body(&req) };
        match enc {
            Err(e) => v.push(Violation::new("C03", format!("C03/vmess-long/encoder-setup/{cell}/{dir}"), e.to_string())),
            Ok(mut enc) => {
                for i in 0..chunks {
                    let expect = pay(i);
                    let mut wire = BytesMut::new();
                    let r = if response { enc.encode_payload(BytesMut::from(&expect[..]), &mut wire, &mut server) } else { enc.encode_payload(BytesMut::from(&expect[..]), &mut wire, &mut client) };
                    evals += 1;
                    let bad = match r {
                        Err(e) => Some(format!("the library failed to encode: {e}")),
                        Ok(_) => match reference.feed(&wire) {
                            Err(e) => Some(format!("the strict reference refuses it: {e}")),
                            Ok(got) if got.len() != 1 || got[0] != expect => Some(format!("the reference recovered {} chunks instead of the one written", got.len())),
                            Ok(_) => None,
                        },
                    };
                    reference.used.clear();
                    if let Some(e) = bad {
                        v.push(Violation::new("C03", format!("C03/vmess-long/reference-rejects-library/{cell}/{dir}"), format!("chunk #{i} of a long stream (option mask {options:#04x}): {e}")));
                        break;
                    }
                }
            }
        }
        // reference seals, library opens
        let (mut client, mut server) = sessions();
        let dec = if response { AEADBodyCodec::new_decoder(&header, &mut client) } else { AEADBodyCodec::new_decoder(&header, &mut server) };
        let mut reference = if response { refimpl::vmess::response_body(&req) } else { refimpl::vmess::request_body(&req) };
        match dec {
            Err(e) => v.push(Violation::new("C03", format!("C03/vmess-long/decoder-setup/{cell}/{dir}"), e.to_string())),
            Ok(mut dec) => {
                for i in 0..chunks {
                    let expect = pay(i);
                    let mut wire = BytesMut::from(&reference.encode_chunk(&expect)[..]);
                    let r = if response { dec.decode_payload(&mut wire, &mut client) } else { dec.decode_payload(&mut wire, &mut server) };
                    evals += 1;
                    let bad = match r {
                        Err(e) => Some(format!("the library refuses it: {e}")),
                        Ok(None) => Some("the library decoded nothing from a complete chunk".to_owned()),
                        Ok(Some(got)) if got[..] != expect[..] || !wire.is_empty() => Some(format!("the library recovered {} bytes ({} left over) instead of {}", got.len(), wire.len(), expect.len())),
                        Ok(Some(_)) => None,
                    };
                    if let Some(e) = bad {
                        v.push(Violation::new("C03", format!("C03/vmess-long/library-rejects-reference/{cell}/{dir}"), format!("chunk #{i} of a long stream (option mask {options:#04x}): {e}")));
                        break;
                    }
                }
            }
        }
    }
    (v, evals)
}

fn addr_eq_host(a: &Option<Addr>, f: &TcpFlow) -> bool {
    a.as_ref() == Some(&flow_addr(f))
}

pub fn execute_c03(plan: &Plan) -> Outcome {
    let mode = plan.extra["mode"].as_str().unwrap_or("client-to-ref").to_owned();
    let cell = format!("{}{}", plan.config.label(), if plan.config.users.len() > 1 || (plan.config.proto == Proto::Shadowsocks && !plan.config.users.is_empty()) { "+users" } else { "" });
    let mut g = Gen::new(plan.extra["sub_seed"].as_u64().unwrap_or(7), 33);
    let f = plan.flows[0].clone();
    let out = rt::run_sim(plan.seed, plan.net_seed, plan.knobs.to_knobs(), || async {
        match mode.as_str() {
            "client-to-ref" => (client_to_ref(plan, &mut g).await, Vec::new()),
            "ref-to-server" => (ref_to_server(plan, &mut g).await, Vec::new()),
            "udp-client-to-ref" => (udp_client_to_ref(plan, &mut g).await, Vec::new()),
            "udp-ref-to-server" => (udp_ref_to_server(plan, &mut g).await, Vec::new()),
            "vmess-long" => (Seen::default(), Vec::new()),
            _ => (Seen::default(), encoder_limits(plan)),
        }
    });
    let (seen, mut v) = out.result.clone();
    let mut long_evals = 0u64;
    if mode == "vmess-long" {
        let (lv, n) = vmess_long(plan);
        v.extend(lv);
        long_evals = n;
    }
    let sig = |oracle: &str| format!("C03/{oracle}/{cell}/{mode}");
    let limit = if plan.config.proto == Proto::Shadowsocks && !is_2022(&plan.config.cipher) { 0x3FFF } else { 0xFFFF };
    if let Some(e) = &seen.startup_err {
        v.push(Violation::new("C03", sig("startup"), e.clone()));
    } else {
        match mode.as_str() {
            "client-to-ref" => {
                let want_up = expected_up(&f, 0);
                let want_down = expected_down(&f, 0);
                if let Some(e) = &seen.app_hs_err {
                    v.push(Violation::new("C03", sig("local-handshake"), e.clone()));
                } else if let Some(e) = &seen.ref_error {
                    v.push(Violation::new("C03", sig("reference-rejects-client"), format!("the strict reference server refuses what the client sent: {e} (after {} payload bytes)", seen.ref_payload.len())));
                } else {
                    if !addr_eq_host(&seen.ref_addr, &f) {
                        v.push(Violation::new("C03", sig("address-differs"), format!("reference decoded {:?}, the application asked for {:?}", seen.ref_addr, flow_addr(&f))));
                    }
                    if seen.ref_payload != want_up {
                        v.push(Violation::new("C03", sig("payload-differs-up"), format!("reference recovered {} bytes, the application wrote {} (first difference {:?})", seen.ref_payload.len(), want_up.len(), crate::scen_tcp::first_mismatch(&seen.ref_payload, &want_up))));
                    }
                    if seen.app_recv != want_down {
                        v.push(Violation::new("C03", sig("client-rejects-reference"), format!("the application received {} of the {} bytes the reference server sent (first difference {:?})", seen.app_recv.len(), want_down.len(), crate::scen_tcp::first_mismatch(&seen.app_recv, &want_down))));
                    }
                }
            }
            "ref-to-server" => {
                let want_up = payload(0, 0, 0, f.up_total());
                let want_down = expected_down(&f, 0);
                let taddr = crate::nodes::target_addr(&f);
                if seen.dials != vec![taddr] {
                    v.push(Violation::new("C03", sig("server-rejects-reference"), format!("the server dialled {:?} for a reference request to {taddr} ({:?}); reference error {:?}", seen.dials, f.target_name, seen.ref_error)));
                } else {
                    if let Some(n) = &f.target_name {
                        if seen.dns != vec![n.clone()] {
                            v.push(Violation::new("C03", sig("address-differs"), format!("server resolved {:?}, the reference asked for {n:?}", seen.dns)));
                        }
                    }
                    if seen.target_recv != want_up {
                        v.push(Violation::new("C03", sig("payload-differs-up"), format!("target received {} bytes, the reference sent {} (first difference {:?})", seen.target_recv.len(), want_up.len(), crate::scen_tcp::first_mismatch(&seen.target_recv, &want_up))));
                    }
                    if let Some(e) = &seen.ref_error {
                        v.push(Violation::new("C03", sig("reference-rejects-server"), format!("the strict reference client refuses what the server sent: {e} (after {} payload bytes)", seen.ref_payload.len())));
                    } else if seen.ref_payload != want_down {
                        v.push(Violation::new("C03", sig("payload-differs-down"), format!("reference recovered {} bytes, the target wrote {}", seen.ref_payload.len(), want_down.len())));
                    }
                }
            }
            "udp-client-to-ref" | "udp-ref-to-server" => {
                if let Some(e) = &seen.ref_error {
                    v.push(Violation::new("C03", sig("reference-rejects-datagram"), e.clone()));
                }
                for n in &seen.notes {
                    v.push(Violation::new("C03", sig("datagram-lost"), n.clone()));
                }
                let sizes: Vec<usize> = serde_json::from_value(plan.extra["udp_sizes"].clone()).unwrap_or_default();
                if mode == "udp-client-to-ref" {
                    for (i, (a, d)) in seen.ref_dgrams.iter().enumerate() {
                        if Some(a) != seen.ref_addr.as_ref() || *d != crate::scen_udp::dgram_payload(0, 0, i as u32 + 1, 0, sizes[i]) {
                            v.push(Violation::new("C03", sig("datagram-differs"), format!("datagram {i}: reference recovered address {a:?} and {} bytes", d.len())));
                        }
                    }
                    for (i, r) in seen.reply_dgrams.iter().enumerate() {
                        let ok = crate::scen_udp::socks5_udp_unwrap(r).is_some_and(|(_, _, d)| seen.got_dgrams.contains(&d));
                        if !ok {
                            v.push(Violation::new("C03", sig("client-rejects-reference"), format!("reply {i}: the application received something else than the reference sent ({} bytes)", r.len())));
                        }
                    }
                } else {
                    if seen.reply_dgrams.len() != seen.got_dgrams.len() || seen.reply_dgrams.iter().zip(&seen.got_dgrams).any(|(a, b)| a != b) {
                        v.push(Violation::new("C03", sig("server-rejects-reference"), format!("the target received {} datagrams, the reference sent {}", seen.reply_dgrams.len(), seen.got_dgrams.len())));
                    }
                    for (i, (a, d)) in seen.ref_dgrams.iter().enumerate() {
                        if Some(a) != seen.ref_addr.as_ref() || *d != crate::scen_udp::dgram_payload(0, 0, i as u32 + 1, 1, 77) {
                            v.push(Violation::new("C03", sig("datagram-differs"), format!("reply {i}: reference recovered address {a:?} and {} bytes", d.len())));
                        }
                    }
                }
            }
            _ => {}
        }
        if let Some(big) = seen.chunk_lens.iter().find(|l| **l > limit) {
            v.push(Violation::new("C03", sig("sender-limit"), format!("a chunk of {big} bytes exceeds the specification's limit {limit:#x}")));
        }
    }
    for p in &out.panics {
        v.push(Violation::new("C03", format!("C03/panic/{cell}/{mode}/{}", p.frame), format!("panic in node {}: {} at {}", p.node, p.message, p.location)));
    }
    let mut probes = BTreeMap::new();
    probes.insert(format!("mode_{mode}"), 1);
    probes.insert("chunks_parsed_by_reference".to_owned(), seen.chunk_lens.len() as u64);
    probes.insert("chunks_over_16383".to_owned(), seen.chunk_lens.iter().filter(|l| **l > 0x3FFF).count() as u64);
    probes.insert("datagrams_opened_by_reference".to_owned(), seen.ref_dgrams.len() as u64);
    probes.insert("websocket_messages_cut_by_reference".to_owned(), seen.ws_messages);
    Outcome {
        violations: v,
        ev_hash: out.world.ev_hash,
        ev_count: out.world.ev_count,
        poll_hash: out.poll_hash,
        polls: out.polls,
        sim_ns: out.sim_ns,
        stats: crate::report::world_stats(&out.world),
        nontrivial: !seen.ref_payload.is_empty() || !seen.ref_dgrams.is_empty() || mode == "encoder" || mode == "vmess-long",
        case_hash: out.poll_hash ^ crate::scen_tcp::plan_shape_hash(plan) ^ plan.seed,
        probes,
        panics: out.panics,
        extra_evaluations: long_evals / 1000,
        extra_cases: Vec::new(),
    }
}

// ---------------------------------------------------------------- key chains (identity headers through a chain of relays)

/// C03, key-chain part: the client's password lists k keys `iPSK_1:...:iPSK_{k-1}:uPSK` (drawn from the seed, k = 1..5).
/// What the real client then puts on the wire - stream request and datagrams - is taken through the chain the
/// specification describes: relay i checks that identity header i names key i+1 and strips it; the last relay is a
/// server that knows the user key. The reference does every step; address and payload must come out unchanged.
pub fn gen_c03_keys(seed: u64, _thorough: bool) -> Plan {
    let mut g = Gen::new(seed, 33);
    let cipher = ["2022-blake3-aes-128-gcm", "2022-blake3-aes-256-gcm"][(seed % 2) as usize];
    let k = 1 + (seed / 2 % 5) as usize;
    let mut config = gen_config(&mut g, Proto::Shadowsocks, cipher, Transport::Tcp, 0);
    let keys: Vec<Vec<u8>> = (0..k).map(|_| g.bytes(key_len(cipher))).collect();
    config.client_password = keys.iter().map(|x| b64(x)).collect::<Vec<_>>().join(":");
    config.client_mode = "tcp_and_udp".into();
    let hs = *g.pick(&ALL_HS);
    let mut f = gen_flow(&mut g, 0, hs, Ending::None, 8000);
    f.start_ms = 0;
    f.up = (0..g.range(1, 3)).flat_map(|_| [Op::Write(g.range(1, 2500) as usize), Op::Pause(5)]).collect();
    f.down = vec![];
    Plan {
        property: "C03".into(),
        scenario: "interop-key-chain".into(),
        seed,
        net_seed: g.next(),
        config,
        knobs: KnobsPlan::simple(),
        flows: vec![f],
        extra: serde_json::json!({ "keys": keys.iter().map(|x| b64(x)).collect::<Vec<_>>(), "udp_sizes": (0..g.range(1, 3)).map(|_| g.range(0, 1200)).collect::<Vec<_>>(), "udp_by_name": g.chance(40) }),
    }
}

pub fn execute_c03_keys(plan: &Plan) -> Outcome {
    use base64ct::Encoding;
    let cipher = plan.config.cipher.clone();
    let keys: Vec<Vec<u8>> = plan.extra["keys"].as_array().map(|a| a.iter().filter_map(|x| x.as_str()).filter_map(|x| base64ct::Base64::decode_vec(x).ok()).collect()).unwrap_or_default();
    let k = keys.len().max(1);
    let n = key_len(&cipher);
    let f = plan.flows[0].clone();
    let udp_sizes: Vec<usize> = serde_json::from_value(plan.extra["udp_sizes"].clone()).unwrap_or_default();
    let by_name = plan.extra["udp_by_name"].as_bool().unwrap_or(false);
    let out = rt::run_sim(plan.seed, plan.net_seed, plan.knobs.to_knobs(), || async {
        let mut findings: Vec<(String, String)> = Vec::new();
        let Ok(listener) = TcpListener::bind(server_addr()).await else { return (Some("capture bind".to_owned()), findings, 0usize) };
        let Ok(usock) = UdpSocket::bind(server_addr()).await else { return (Some("capture udp bind".to_owned()), findings, 0) };
        let client = start_client_json(rt::NODE_CLIENT, plan.config.client_json("127.0.0.1", SERVER_PORT));
        tokio::task::yield_now().await;
        if !settle(|| tcp_listening(CLIENT_PORT) && crate::nodes::udp_bound(CLIENT_PORT)).await {
            return (Some(format!("client did not come up with a list of {k} keys (finished={})", client.is_finished())), findings, 0);
        }
        let mut recovered = 0usize;
        // ---- stream
        let obs = Arc::new(Mutex::new(FlowObs::default()));
        let _app = spawn_scoped(run_app(0, f.clone(), obs.clone(), true));
        let mut wire = Vec::new();
        if let Ok(Ok((mut s, _))) = tokio::time::timeout(Duration::from_secs(10), listener.accept()).await {
            let mut buf = vec![0u8; 65536];
            let mut idle = 0;
            while idle < 3 {
                match tokio::time::timeout(Duration::from_millis(300), s.read(&mut buf)).await {
                    Ok(Ok(m)) if m > 0 => {
                        wire.extend_from_slice(&buf[..m]);
                        idle = 0;
                    }
                    Ok(_) => break,
                    Err(_) => idle += 1,
                }
            }
        }
        let eih_len = 16 * (k - 1);
        if wire.len() < n + eih_len + 27 {
            findings.push(("key-chain/no-request".into(), format!("the client sent {} bytes; a request with {} identity headers needs at least {}", wire.len(), k - 1, n + eih_len + 27)));
        } else {
            let salt = wire[..n].to_vec();
            let want = refimpl::ss2022::tcp_eih(&keys, &salt);
            let bad = (0..k - 1).find(|i| wire[n + 16 * i..n + 16 * i + 16] != want[16 * i..16 * i + 16]);
            if let Some(i) = bad {
                findings.push(("key-chain/relay-refuses-stream".into(), format!("relay {} of {}: identity header {} does not name the next key of the chain (it is not AES(identity-subkey(key {}, salt), hash(key {})))", i + 1, k - 1, i + 1, i + 1, i + 2)));
            } else {
                // every relay has stripped its header; the last hop knows key k-1 as its own and key k as a user's
                let mut last_hop = salt.clone();
                if k >= 2 {
                    last_hop.extend_from_slice(&wire[n + 16 * (k - 2)..n + 16 * (k - 1)]);
                }
                last_hop.extend_from_slice(&wire[n + eih_len..]);
                let (psk, users): (Vec<u8>, Vec<Vec<u8>>) = if k >= 2 { (keys[k - 2].clone(), vec![keys[k - 1].clone()]) } else { (keys[0].clone(), vec![]) };
                let mut p = refimpl::ss2022::RequestParser::new(&cipher, &psk, &users, unix_now());
                match p.feed(&last_hop) {
                    Err(e) => findings.push(("key-chain/server-refuses-stream".into(), format!("behind {} relays the server refuses the request: {e}", k.saturating_sub(2)))),
                    Ok(_) => match &p.req {
                        None => findings.push(("key-chain/server-refuses-stream".into(), "the request header is incomplete".into())),
                        Some(r) => {
                            let want_up = expected_up(&f, 0);
                            if r.addr.as_ref() != Some(&flow_addr(&f)) {
                                findings.push(("key-chain/address".into(), format!("the server recovered {:?}, the application asked for {:?}", r.addr, flow_addr(&f))));
                            } else if r.payload != want_up {
                                findings.push(("key-chain/payload".into(), format!("the server recovered {} payload bytes, the application wrote {} (first difference at {:?})", r.payload.len(), want_up.len(), r.payload.iter().zip(&want_up).position(|(a, b)| a != b))));
                            } else {
                                recovered += 1;
                            }
                        }
                    },
                }
            }
        }
        // ---- datagrams
        let app = UdpSocket::bind(SocketAddr::new(IpAddr::V4(Ipv4Addr::LOCALHOST), 0)).await.unwrap();
        let t = crate::scen_udp::UdpTarget { ip: [127, 0, 9, 9], port: 5353, name: by_name.then(|| "key-chain.c03.test".to_owned()), replies: 0, reply_size: 0 };
        let want_addr = match &t.name {
            Some(nm) => Addr::Name(nm.as_bytes().to_vec(), t.port),
            None => Addr::V4(t.ip, t.port),
        };
        let mut buf = vec![0u8; 65536];
        for (i, size) in udp_sizes.iter().enumerate() {
            let payload = crate::scen_udp::dgram_payload(0, 0, i as u32 + 1, 0, *size);
            let _ = app.send_to(&crate::scen_udp::socks5_udp_wrap(&t, &payload), SocketAddr::new(IpAddr::V4(Ipv4Addr::LOCALHOST), CLIENT_PORT)).await;
            match tokio::time::timeout(Duration::from_secs(3), usock.recv_from(&mut buf)).await {
                Ok(Ok((len, _))) => {
                    let pkt = &buf[..len];
                    match refimpl::ss2022::udp_open_aes(&cipher, &keys[0], &[keys[k - 1].clone()], k - 1, pkt, false) {
                        Err(e) => findings.push(("key-chain/datagram-does-not-open".into(), format!("datagram {i}: header key = first key, body key = last key, {} identity headers: {e}", k - 1))),
                        Ok((body, _, _, _)) => {
                            let want = refimpl::ss2022::udp_packet_aes(&cipher, &keys, &body);
                            if pkt[16..16 + eih_len] != want[16..16 + eih_len] {
                                let which = (0..k - 1).find(|j| pkt[16 + 16 * j..32 + 16 * j] != want[16 + 16 * j..32 + 16 * j]).unwrap_or(0);
                                findings.push(("key-chain/relay-refuses-datagram".into(), format!("datagram {i}: identity header {} of {} is not the one the key list spells", which + 1, k - 1)));
                            } else if body.addr != want_addr || body.payload != payload {
                                findings.push(("key-chain/datagram-content".into(), format!("datagram {i}: recovered {:?} + {} bytes, sent {:?} + {} bytes", body.addr, body.payload.len(), want_addr, payload.len())));
                            } else {
                                recovered += 1;
                            }
                        }
                    }
                }
                _ => findings.push(("key-chain/no-datagram".into(), format!("datagram {i} ({size} bytes) was not forwarded"))),
            }
        }
        (None, findings, recovered)
    });
    let (startup, findings, recovered) = out.result.clone();
    let cell = format!("{}/{}-keys", plan.config.cipher, k);
    let mut v = Vec::new();
    if let Some(e) = startup {
        v.push(Violation::new("C03", format!("C03/key-chain/startup/{cell}"), e));
    }
    for (oracle, detail) in &findings {
        v.push(Violation::new("C03", format!("C03/{oracle}/{cell}"), detail.clone()));
    }
    for p in &out.panics {
        v.push(Violation::new("C03", format!("C03/panic/{cell}/key-chain/{}", p.frame), format!("panic in node {}: {} at {}", p.node, p.message, p.location)));
    }
    let mut probes = BTreeMap::new();
    probes.insert("mode_key-chain".to_owned(), 1);
    probes.insert(format!("key_chain_of_{k}"), 1);
    probes.insert("key_chain_units_recovered".to_owned(), recovered as u64);
    Outcome {
        violations: v,
        ev_hash: out.world.ev_hash,
        ev_count: out.world.ev_count,
        poll_hash: out.poll_hash,
        polls: out.polls,
        sim_ns: out.sim_ns,
        stats: crate::report::world_stats(&out.world),
        nontrivial: recovered > 0,
        case_hash: out.poll_hash ^ plan.seed.wrapping_mul(0x9E3779B97F4A7C15),
        probes,
        panics: out.panics,
        extra_evaluations: 0,
        extra_cases: Vec::new(),
    }
}

// ---------------------------------------------------------------- datagrams inside streams, real client -> reference server

/// C03, datagram formats that travel inside a stream (VMess command UDP, Trojan UDP ASSOCIATE): one application socket
/// sends datagrams to two or three targets, alternating; every carrier connection the real client opens is read by the
/// strict reference server. What the reference recovers - (target, payload) per datagram - must be exactly what the
/// application sent, datagram by datagram.
pub fn gen_c03_ustream(seed: u64, _thorough: bool) -> Plan {
    let mut g = Gen::new(seed, 34);
    let cells: [(Proto, &str); 3] = [(Proto::Trojan, "aes-128-gcm"), (Proto::Vmess, "aes-128-gcm"), (Proto::Vmess, "chacha20-poly1305")];
    let (proto, cipher) = cells[seed as usize % 3];
    // (the Trojan client carries datagrams over tls / wss / quic only: the reference server terminates TLS itself)
    let mut config = gen_config(&mut g, proto, cipher, if proto == Proto::Trojan { Transport::Tls } else { Transport::Tcp }, 0);
    config.client_mode = "tcp_and_udp".into();
    let n_targets = g.range(2, 3) as usize;
    let same_port = g.chance(40);
    let p0 = g.range(1024, 60000) as u16;
    let targets: Vec<(Option<String>, [u8; 4], u16)> = (0..n_targets)
        .map(|i| (if g.chance(50) { Some(format!("t{i}-{}.ustream.c03.test", g.range(0, 99))) } else { None }, [127, 0, 34, 1 + i as u8], if same_port { p0 } else { g.range(1024, 60000) as u16 }))
        .collect();
    let mut sends: Vec<(usize, usize)> = (0..g.range(3, 9)).map(|_| (g.below(n_targets as u64) as usize, g.range(1, 1200) as usize)).collect();
    if proto == Proto::Vmess && g.chance(50) {
        // a datagram that does not fit into one VMess chunk (it may be dropped whole) in the middle of the sequence: what the
        // client sends behind it on the same connection is still a stream the reference can read
        let at = g.range(1, sends.len() as u64 - 1) as usize;
        let t = sends[at - 1].0;
        sends.insert(at, (t, 2000 + g.below(900) as usize));
        let again = g.range(1, 1200) as usize;
        sends.insert(at + 1, (t, again));
    }
    Plan {
        property: "C03".into(),
        scenario: "interop-dgram-in-stream".into(),
        seed,
        net_seed: g.next(),
        config,
        knobs: KnobsPlan { read_style: *g.pick(&[0, 0, 3, 4]), ..KnobsPlan::simple() },
        flows: vec![],
        extra: serde_json::json!({ "targets": targets, "sends": sends }),
    }
}

pub fn execute_c03_ustream(plan: &Plan) -> Outcome {
    let c = creds(&plan.config);
    let cell = plan.config.family();
    let targets: Vec<(Option<String>, [u8; 4], u16)> = serde_json::from_value(plan.extra["targets"].clone()).unwrap_or_default();
    let sends: Vec<(usize, usize)> = serde_json::from_value(plan.extra["sends"].clone()).unwrap_or_default();
    let out = rt::run_sim(plan.seed, plan.net_seed, plan.knobs.to_knobs(), || async {
        let mut findings: Vec<(String, String)> = Vec::new();
        let Ok(listener) = TcpListener::bind(server_addr()).await else { return (Some("reference server bind".to_owned()), findings, 0usize) };
        let client = start_client_json(rt::NODE_CLIENT, plan.config.client_json("127.0.0.1", SERVER_PORT));
        tokio::task::yield_now().await;
        if !settle(|| crate::nodes::udp_bound(CLIENT_PORT)).await {
            return (Some(format!("client did not come up (finished={})", client.is_finished())), findings, 0);
        }
        // every carrier connection is recorded; a strict reference server of its own reads each of them afterwards
        let streams: Arc<Mutex<Vec<Vec<u8>>>> = Arc::new(Mutex::new(Vec::new()));
        let s2 = streams.clone();
        let acceptor: Option<tokio_rustls::TlsAcceptor> = if plan.config.transport == Transport::Tls {
            use tokio_rustls::rustls::pki_types::pem::PemObject;
            let _ = tokio_rustls::rustls::crypto::aws_lc_rs::default_provider().install_default();
            let cert = tokio_rustls::rustls::pki_types::CertificateDer::from_pem_file(CERT).ok();
            let key = tokio_rustls::rustls::pki_types::PrivateKeyDer::from_pem_file(KEY).ok();
            match (cert, key) {
                (Some(cert), Some(key)) => tokio_rustls::rustls::ServerConfig::builder().with_no_client_auth().with_single_cert(vec![cert], key).ok().map(|cfg| tokio_rustls::TlsAcceptor::from(Arc::new(cfg))),
                _ => None,
            }
        } else {
            None
        };
        if plan.config.transport == Transport::Tls && acceptor.is_none() {
            return (Some("the reference server cannot load its certificate".to_owned()), findings, 0);
        }
        let _acceptor = spawn_scoped(async move {
            let mut conns = Vec::new();
            loop {
                let Ok((mut s, _)) = listener.accept().await else { return };
                let ix = {
                    let mut g = s2.lock().unwrap();
                    g.push(Vec::new());
                    g.len() - 1
                };
                let s3 = s2.clone();
                let acceptor = acceptor.clone();
                conns.push(spawn_scoped(async move {
                    let mut buf = vec![0u8; 65536];
                    match acceptor {
                        Some(a) => {
                            let Ok(mut s) = a.accept(s).await else { return };
                            loop {
                                match s.read(&mut buf).await {
                                    Ok(0) | Err(_) => return,
                                    Ok(n) => s3.lock().unwrap()[ix].extend_from_slice(&buf[..n]),
                                }
                            }
                        }
                        None => loop {
                            match s.read(&mut buf).await {
                                Ok(0) | Err(_) => return,
                                Ok(n) => s3.lock().unwrap()[ix].extend_from_slice(&buf[..n]),
                            }
                        },
                    }
                }));
            }
        });
        tokio::task::yield_now().await;
        let app = UdpSocket::bind(SocketAddr::new(IpAddr::V4(Ipv4Addr::LOCALHOST), 0)).await.unwrap();
        let mut want: Vec<(Addr, Vec<u8>)> = Vec::new();
        for (i, (t, size)) in sends.iter().enumerate() {
            let (name, ip, port) = &targets[*t % targets.len()];
            let ut = crate::scen_udp::UdpTarget { ip: *ip, port: *port, name: name.clone(), replies: 0, reply_size: 0 };
            let data = crate::scen_udp::dgram_payload(0, *t, i as u32 + 1, 0, *size);
            let _ = app.send_to(&crate::scen_udp::socks5_udp_wrap(&ut, &data), SocketAddr::new(IpAddr::V4(Ipv4Addr::LOCALHOST), CLIENT_PORT)).await;
            want.push((match name { Some(n) => Addr::Name(n.as_bytes().to_vec(), *port), None => Addr::V4(*ip, *port) }, data));
            tokio::time::sleep(Duration::from_millis(200)).await;
        }
        tokio::time::sleep(Duration::from_secs(2)).await;
        let mut got: Vec<(Addr, Vec<u8>)> = Vec::new();
        let mut errors: Vec<String> = Vec::new();
        for wire in streams.lock().unwrap().iter() {
            let mut srv = RefServer::new(&c, unix_now());
            if let Err(e) = srv.feed(wire) {
                errors.push(e);
                continue;
            }
            if srv.addr.is_some() && srv.command != 2 && srv.command != 3 {
                errors.push(format!("a datagram carrier was opened with command {}", srv.command));
                continue;
            }
            match c.proto {
                // one datagram per chunk, all for the header's target
                Proto::Vmess => got.extend(srv.packets.iter().map(|p| (srv.addr.clone().unwrap(), p.clone()))),
                // Trojan: (ATYP addr port len CRLF data)* behind the request header
                _ => {
                    let mut used = 0;
                    loop {
                        match refimpl::trojan::parse_udp_packet(&srv.payload[used..]) {
                            Ok(Some((a, d, n))) => {
                                got.push((a, d));
                                used += n;
                            }
                            Ok(None) => break,
                            Err(e) => {
                                errors.push(format!("datagram frame: {e}"));
                                break;
                            }
                        }
                    }
                }
            }
        }
        for e in errors.iter().take(2) {
            findings.push(("dgram-in-stream/reference-refuses".into(), e.clone()));
        }
        // datagram by datagram: every datagram the reference recovered is one the application sent, with its own target
        let mut left = want.clone();
        for (a, d) in &got {
            match left.iter().position(|(wa, wd)| wa == a && wd == d) {
                Some(p) => {
                    left.remove(p);
                }
                None => {
                    let other = want.iter().find(|(_, wd)| wd == d).map(|(wa, _)| format!("{wa:?}"));
                    findings.push(("dgram-in-stream/wrong-target-or-payload".into(), format!("the reference recovered a {}-byte datagram for {a:?}; the application sent that payload to {:?}", d.len(), other)));
                    break;
                }
            }
        }
        if findings.is_empty() && !left.is_empty() && left.len() == want.len() {
            findings.push(("dgram-in-stream/nothing-recovered".into(), format!("{} datagrams were sent, the reference recovered none", want.len())));
        }
        (None, findings, got.len())
    });
    let (startup, findings, recovered) = out.result.clone();
    let mut v = Vec::new();
    if let Some(e) = startup {
        v.push(Violation::new("C03", format!("C03/dgram-in-stream/startup/{cell}"), e));
    }
    for (oracle, detail) in &findings {
        v.push(Violation::new("C03", format!("C03/{oracle}/{cell}"), detail.clone()));
    }
    for p in &out.panics {
        v.push(Violation::new("C03", format!("C03/panic/{cell}/dgram-in-stream/{}", p.frame), format!("panic in node {}: {} at {}", p.node, p.message, p.location)));
    }
    let mut probes = BTreeMap::new();
    probes.insert("mode_dgram-in-stream-client-to-ref".to_owned(), 1);
    probes.insert("dgram_in_stream_recovered".to_owned(), recovered as u64);
    Outcome {
        violations: v,
        ev_hash: out.world.ev_hash,
        ev_count: out.world.ev_count,
        poll_hash: out.poll_hash,
        polls: out.polls,
        sim_ns: out.sim_ns,
        stats: crate::report::world_stats(&out.world),
        nontrivial: recovered > 0,
        case_hash: out.poll_hash ^ plan.seed.wrapping_mul(0x9E3779B97F4A7C15),
        probes,
        panics: out.panics,
        extra_evaluations: 0,
        extra_cases: Vec::new(),
    }
}
