//! System-level UDP scenarios (C02, UDP half of C08, system half of C11).
//!
//! Local applications speak SOCKS5-UDP to the real client's UDP port; the real
//! client relays to the real server (Shadowsocks over UDP, VMess / Trojan over
//! their stream transports); scripted UDP targets record what they get and
//! answer. Every datagram carries (application, target, sequence number), so
//! duplication, loss, truncation, merging and mis-delivery are attributable.

use std::collections::BTreeMap;
use std::net::IpAddr;
use std::net::Ipv4Addr;
use std::net::SocketAddr;
use std::sync::Arc;
use std::sync::Mutex;
use std::time::Duration;

use octo_squirrel::verif::net::UdpSocket;
use octo_squirrel::verif::world;
use serde::Deserialize;
use serde::Serialize;

use crate::nodes::*;
use crate::plan::*;
use crate::report::Outcome;
use crate::report::Violation;
use crate::rnd::Gen;
use crate::rt;

#[derive(Clone, Debug, Serialize, Deserialize, PartialEq)]
pub enum UdpOp {
    /// send one datagram with this payload size to target `t`
    Send { t: usize, size: usize },
    Pause(u64),
    /// the server's next `send_to` toward target `t` fails once (ENOBUFS): that datagram is lost, nothing else may change
    ServerSendFault { t: usize },
    /// a datagram that is *not* sent (its sequence number is used up): what is left of a script when one session is run alone
    Skip,
    /// a SOCKS5-UDP datagram with FRAG != 0 (a fragment; fragmentation is not supported, the relay drops it): it reaches no
    /// target, and the datagrams right behind it are served as usual
    Fragment { t: usize },
}

#[derive(Clone, Debug, Serialize, Deserialize, PartialEq)]
pub struct UdpTarget {
    pub ip: [u8; 4],
    pub port: u16,
    /// applications address it by this name (SOCKS5 ATYP 3) instead of the IPv4 literal
    pub name: Option<String>,
    /// replies per received datagram and their payload size
    pub replies: usize,
    pub reply_size: usize,
}

#[derive(Clone, Debug, Serialize, Deserialize, PartialEq)]
pub struct UdpPlan {
    pub apps: Vec<Vec<UdpOp>>,
    pub targets: Vec<UdpTarget>,
    /// per mille rates on the client <-> server datagram link (Shadowsocks only)
    #[serde(default)]
    pub loss_pm: u32,
    #[serde(default)]
    pub dup_pm: u32,
    #[serde(default)]
    pub reorder_pm: u32,
    /// second real client (another user) on the same server
    #[serde(default)]
    pub second_client_password: Option<String>,
    /// the plan injects send errors on the server: a datagram may be lost (never duplicated, altered or misdelivered)
    #[serde(default)]
    pub send_faults: bool,
}

pub const CLIENT2_PORT: u16 = 1081;

/// payload: | app u16 | target u16 | seq u32 | reply u8 | filler... |  (sizes < 9 carry what fits)
pub fn dgram_payload(app: usize, target: usize, seq: u32, reply: u8, size: usize) -> Vec<u8> {
    let mut v = Vec::with_capacity(size.max(9));
    v.extend_from_slice(&(app as u16).to_be_bytes());
    v.extend_from_slice(&(target as u16).to_be_bytes());
    v.extend_from_slice(&seq.to_be_bytes());
    v.push(reply);
    let fill = payload(app * 64 + target, reply, seq as usize * 7, size.saturating_sub(9));
    v.extend(fill);
    v.truncate(size);
    v
}

pub fn socks5_udp_wrap(t: &UdpTarget, data: &[u8]) -> Vec<u8> {
    let mut v = vec![0u8, 0, 0];
    match &t.name {
        Some(n) => {
            v.push(3);
            v.push(n.len() as u8);
            v.extend_from_slice(n.as_bytes());
        }
        None => {
            v.push(1);
            v.extend_from_slice(&t.ip);
        }
    }
    v.extend_from_slice(&t.port.to_be_bytes());
    v.extend_from_slice(data);
    v
}

/// (address bytes as sent in the reply header, payload) or None if the header is malformed
pub fn socks5_udp_unwrap(d: &[u8]) -> Option<(String, u16, Vec<u8>)> {
    if d.len() < 4 || d[0] != 0 || d[1] != 0 || d[2] != 0 {
        return None;
    }
    match d[3] {
        1 if d.len() >= 10 => Some((Ipv4Addr::new(d[4], d[5], d[6], d[7]).to_string(), u16::from_be_bytes([d[8], d[9]]), d[10..].to_vec())),
        3 if d.len() >= 5 && d.len() >= 7 + d[4] as usize => {
            let l = d[4] as usize;
            Some((String::from_utf8_lossy(&d[5..5 + l]).to_string(), u16::from_be_bytes([d[5 + l], d[6 + l]]), d[7 + l..].to_vec()))
        }
        4 if d.len() >= 22 => {
            let mut a = [0u8; 16];
            a.copy_from_slice(&d[4..20]);
            Some((std::net::Ipv6Addr::from(a).to_string(), u16::from_be_bytes([d[20], d[21]]), d[22..].to_vec()))
        }
        _ => None,
    }
}

#[derive(Default, Debug, Clone)]
pub struct UdpObs {
    /// per application: datagrams sent (target, seq, size) and raw datagrams received
    pub sent: Vec<Vec<(usize, u32, usize)>>,
    pub app_recv: Vec<Vec<Vec<u8>>>,
    /// per target: (source address, payload)
    pub target_recv: Vec<Vec<(SocketAddr, Vec<u8>)>>,
    pub app_send_err: Vec<Option<String>>,
}

pub fn target_sockaddr(t: &UdpTarget) -> SocketAddr {
    SocketAddr::new(IpAddr::V4(Ipv4Addr::from(t.ip)), t.port)
}

async fn udp_target(ix: usize, t: UdpTarget, obs: Arc<Mutex<UdpObs>>) {
    let Ok(sock) = UdpSocket::bind(target_sockaddr(&t)).await else { return };
    let mut buf = vec![0u8; 65536];
    loop {
        let Ok((n, from)) = sock.recv_from(&mut buf).await else { return };
        let data = buf[..n].to_vec();
        obs.lock().unwrap().target_recv[ix].push((from, data.clone()));
        // answer with the same (app, target, seq) and reply number r
        if data.len() >= 8 {
            let app = u16::from_be_bytes([data[0], data[1]]) as usize;
            let seq = u32::from_be_bytes([data[4], data[5], data[6], data[7]]);
            for r in 1..=t.replies {
                let p = dgram_payload(app, ix, seq, r as u8, t.reply_size.max(9));
                let _ = sock.send_to(&p, from).await;
            }
        }
    }
}

async fn udp_app(ix: usize, ops: Vec<UdpOp>, targets: Vec<UdpTarget>, via_port: u16, obs: Arc<Mutex<UdpObs>>) {
    let Ok(sock) = UdpSocket::bind(SocketAddr::new(IpAddr::V4(Ipv4Addr::LOCALHOST), 0)).await else { return };
    let sock = Arc::new(sock);
    let rsock = sock.clone();
    let robs = obs.clone();
    let _reader = spawn_scoped(async move {
        let mut buf = vec![0u8; 65536];
        loop {
            let Ok((n, _)) = rsock.recv_from(&mut buf).await else { return };
            robs.lock().unwrap().app_recv[ix].push(buf[..n].to_vec());
        }
    });
    let client = SocketAddr::new(IpAddr::V4(Ipv4Addr::LOCALHOST), via_port);
    let mut seq = 0u32;
    for op in ops {
        match op {
            UdpOp::Pause(ms) => tokio::time::sleep(Duration::from_millis(ms)).await,
            UdpOp::ServerSendFault { t } => {
                let port = targets[t].port;
                world::with(|w| w.add_fault(world::FaultKind::UdpSendErr, port, rt::NODE_SERVER, 1));
            }
            UdpOp::Skip => seq += 1,
            UdpOp::Fragment { t } => {
                let p = dgram_payload(ix, t, 0xfff0_0000 + seq, 0, 40);
                let mut d = socks5_udp_wrap(&targets[t], &p);
                d[2] = 1 + (seq % 3) as u8;
                let _ = sock.send_to(&d, client).await;
            }
            UdpOp::Send { t, size } => {
                seq += 1;
                let p = dgram_payload(ix, t, seq, 0, size);
                let d = socks5_udp_wrap(&targets[t], &p);
                match sock.send_to(&d, client).await {
                    Ok(_) => obs.lock().unwrap().sent[ix].push((t, seq, size)),
                    Err(e) => obs.lock().unwrap().app_send_err[ix] = Some(format!("{e}")),
                }
            }
        }
    }
    std::future::pending::<()>().await;
}

pub async fn udp_target_pub(ix: usize, t: UdpTarget, obs: Arc<Mutex<UdpObs>>) {
    udp_target(ix, t, obs).await
}

pub async fn udp_app_pub(ix: usize, ops: Vec<UdpOp>, targets: Vec<UdpTarget>, via_port: u16, obs: Arc<Mutex<UdpObs>>) {
    udp_app(ix, ops, targets, via_port, obs).await
}

pub struct UdpRun {
    pub startup_err: Option<String>,
    pub obs: UdpObs,
    pub udp_bound_end: (bool, bool),
    pub mains_finished: (bool, bool),
    pub server_udp_sends: Vec<(SocketAddr, SocketAddr, usize)>,
}

pub fn udp_config(g: &mut Gen, proto: Proto, cipher: &str, transport: Transport, n_users: usize) -> Config {
    let mut c = gen_config(g, proto, cipher, transport, n_users);
    c.client_mode = if g.chance(50) { "udp" } else { "tcp_and_udp" }.to_owned();
    if proto == Proto::Shadowsocks {
        c.server_mode = if g.chance(50) { "udp" } else { "tcp_and_udp" }.to_owned();
    }
    c
}

pub async fn run_udp_system(plan: &Plan, up: &UdpPlan) -> UdpRun {
    run_udp_system_via(plan, up, SERVER_PORT).await
}

/// `via_port`: where the client dials its server (the man-in-the-middle node's port when there is one)
pub async fn run_udp_system_via(plan: &Plan, up: &UdpPlan, via_port: u16) -> UdpRun {
    world::with(|w| {
        for t in &up.targets {
            if let Some(n) = &t.name {
                w.zone.insert(n.clone(), Some(IpAddr::V4(Ipv4Addr::from(t.ip))));
            }
        }
        if up.loss_pm + up.dup_pm + up.reorder_pm > 0 {
            w.knobs.udp_loss_pm = up.loss_pm;
            w.knobs.udp_dup_pm = up.dup_pm;
            w.knobs.udp_reorder_pm = up.reorder_pm;
            w.knobs.udp_reorder_max_ns = 30_000_000;
            w.knobs.udp_fault_ports = vec![SERVER_PORT];
        }
        if is_2022(&plan.config.cipher) && plan.config.proto == Proto::Shadowsocks {
            w.first_atomic_ports.push(SERVER_PORT);
        }
    });
    let n_apps = up.apps.len();
    let obs = Arc::new(Mutex::new(UdpObs {
        sent: vec![Vec::new(); n_apps],
        app_recv: vec![Vec::new(); n_apps],
        target_recv: vec![Vec::new(); up.targets.len()],
        app_send_err: vec![None; n_apps],
    }));
    let mut run = UdpRun { startup_err: None, obs: UdpObs::default(), udp_bound_end: (false, false), mains_finished: (false, false), server_udp_sends: Vec::new() };
    let mains = match start_system(&plan.config, "127.0.0.1", via_port).await {
        Ok(m) => m,
        Err(e) => {
            run.startup_err = Some(e);
            return run;
        }
    };
    if plan.config.proto == Proto::Shadowsocks && !settle(|| udp_bound(SERVER_PORT)).await {
        run.startup_err = Some("server UDP socket is not bound".to_owned());
        return run;
    }
    let mut second = None;
    if let Some(pw) = &up.second_client_password {
        let mut c2 = plan.config.clone();
        c2.client_password = pw.clone();
        let json = c2.client_json("127.0.0.1", SERVER_PORT).replace(&format!("\"port\":{CLIENT_PORT}"), &format!("\"port\":{CLIENT2_PORT}"));
        second = Some(start_client_json(rt::NODE_CLIENT2, json));
        tokio::task::yield_now().await;
        if !settle(|| udp_bound(CLIENT2_PORT)).await {
            run.startup_err = Some("second client did not come up".to_owned());
            return run;
        }
    }
    let mut tasks = Vec::new();
    for (i, t) in up.targets.iter().enumerate() {
        tasks.push(spawn_scoped(udp_target(i, t.clone(), obs.clone())));
    }
    tokio::task::yield_now().await;
    for (i, ops) in up.apps.iter().enumerate() {
        // odd applications use the second client when there is one
        let via = if second.is_some() && i % 2 == 1 { CLIENT2_PORT } else { CLIENT_PORT };
        tasks.push(spawn_scoped(udp_app(i, ops.clone(), up.targets.clone(), via, obs.clone())));
    }
    let total_pause: u64 = up.apps.iter().map(|a| a.iter().map(|o| if let UdpOp::Pause(ms) = o { *ms } else { 0 }).sum::<u64>()).max().unwrap_or(0);
    tokio::time::sleep(Duration::from_millis(total_pause + 5_000)).await;
    // quiescence: wait until nothing has moved for a while
    let mut last = world::with(|w| w.ev_count);
    for _ in 0..40 {
        tokio::time::sleep(Duration::from_millis(500)).await;
        let now = world::with(|w| w.ev_count);
        if now == last {
            break;
        }
        last = now;
    }
    drop(tasks);
    run.udp_bound_end = (udp_bound(CLIENT_PORT), plan.config.proto != Proto::Shadowsocks || udp_bound(SERVER_PORT));
    run.mains_finished = (mains.client.is_finished(), mains.server.is_finished());
    run.server_udp_sends = world::with(|w| w.udp_sends.iter().filter(|s| s.node == rt::NODE_SERVER).map(|s| (s.from, s.to, s.len)).collect());
    run.obs = obs.lock().unwrap().clone();
    drop(second);
    run
}

/// C02 oracle. `lossy`: the client <-> server link drops / duplicates / reorders (whole-or-nothing, at-most-once for
/// 2022 ciphers; legacy ciphers may deliver what the network duplicated).
pub fn check_udp(prop: &str, plan: &Plan, up: &UdpPlan, run: &UdpRun) -> Vec<Violation> {
    let mut v = Vec::new();
    let cell = plan.config.label();
    let lossy = up.loss_pm + up.dup_pm + up.reorder_pm > 0;
    let mode = if lossy { "lossy" } else { "clean" };
    let sig = |oracle: &str| format!("{prop}/{oracle}/{cell}/{mode}");
    if let Some(e) = &run.startup_err {
        v.push(Violation::new(prop, format!("{prop}/startup/{cell}"), e.clone()));
        return v;
    }
    let o = &run.obs;
    let legacy = plan.config.proto == Proto::Shadowsocks && !is_2022(&plan.config.cipher);
    // --- targets: every datagram exactly once, identical, and only datagrams that were sent
    let mut delivered: BTreeMap<(usize, usize, u32), usize> = BTreeMap::new();
    for (ti, recs) in o.target_recv.iter().enumerate() {
        for (_, data) in recs {
            if data.len() < 9 {
                // tiny payloads carry no identity; they are matched by size below
                continue;
            }
            let app = u16::from_be_bytes([data[0], data[1]]) as usize;
            let t = u16::from_be_bytes([data[2], data[3]]) as usize;
            let seq = u32::from_be_bytes([data[4], data[5], data[6], data[7]]);
            let sent = o.sent.get(app).and_then(|s| s.iter().find(|(st, sq, _)| *st == t && *sq == seq));
            match sent {
                Some((_, _, size)) if t == ti && *data == dgram_payload(app, t, seq, 0, *size) => {
                    *delivered.entry((app, t, seq)).or_insert(0) += 1;
                }
                Some((_, _, size)) if t != ti => v.push(Violation::new(prop, sig("wrong-target"), format!("datagram app {app} seq {seq} for target {t} arrived at target {ti} (size {size})"))),
                Some((_, _, size)) => v.push(Violation::new(prop, sig("altered-datagram"), format!("datagram app {app} target {t} seq {seq}: sent {size} bytes, target received {} bytes with different content", data.len()))),
                None => v.push(Violation::new(prop, sig("unknown-datagram"), format!("target {ti} received a datagram nobody sent ({} bytes)", data.len()))),
            }
        }
    }
    for (ai, sent) in o.sent.iter().enumerate() {
        for (t, seq, size) in sent {
            if *size < 9 {
                continue;
            }
            let n = delivered.get(&(ai, *t, *seq)).copied().unwrap_or(0);
            let oversize = *size > must_carry(plan.config.proto);
            if n == 0 && up.loss_pm == 0 && !oversize && !up.send_faults {
                v.push(Violation::new(prop, sig("datagram-lost"), format!("datagram app {ai} -> target {t} seq {seq} ({size} bytes) never reached the target")));
            }
            if n > 1 && !(lossy && legacy) {
                v.push(Violation::new(prop, sig("datagram-duplicated"), format!("datagram app {ai} -> target {t} seq {seq} ({size} bytes) reached the target {n} times")));
            }
        }
        // tiny datagrams: count per (target, size)
        for t in 0..up.targets.len() {
            for size in 0..9usize {
                let sent_n = sent.iter().filter(|(st, _, sz)| *st == t && *sz == size).count();
                let all_sent_n: usize = o.sent.iter().map(|s| s.iter().filter(|(st, _, sz)| *st == t && *sz == size).count()).sum();
                let got_n = o.target_recv[t].iter().filter(|(_, d)| d.len() == size).count();
                if ai == 0 && !lossy && got_n != all_sent_n {
                    v.push(Violation::new(prop, sig("tiny-datagram-count"), format!("target {t}: {all_sent_n} datagrams of {size} bytes were sent, {got_n} arrived")));
                }
                let _ = sent_n;
            }
        }
    }
    // --- replies: each reply reaches exactly the application that owns the binding, labelled with the target's address
    for (ai, recvd) in o.app_recv.iter().enumerate() {
        let mut seen: BTreeMap<(usize, u32, u8), usize> = BTreeMap::new();
        for d in recvd {
            let Some((host, port, data)) = socks5_udp_unwrap(d) else {
                v.push(Violation::new(prop, sig("bad-reply-header"), format!("application {ai} received a datagram without a valid SOCKS5-UDP header: {:02x?}", &d[..d.len().min(16)])));
                continue;
            };
            if data.len() < 9 {
                v.push(Violation::new(prop, sig("truncated-reply"), format!("application {ai} received a {}-byte reply", data.len())));
                continue;
            }
            let app = u16::from_be_bytes([data[0], data[1]]) as usize;
            let t = u16::from_be_bytes([data[2], data[3]]) as usize;
            let seq = u32::from_be_bytes([data[4], data[5], data[6], data[7]]);
            let r = data[8];
            if app != ai {
                v.push(Violation::new(prop, sig("reply-to-wrong-application"), format!("application {ai} received the reply to application {app} (target {t}, seq {seq})")));
                continue;
            }
            let Some(tt) = up.targets.get(t) else {
                v.push(Violation::new(prop, sig("unknown-reply"), format!("application {ai} received a reply from an unknown target {t}")));
                continue;
            };
            if data != dgram_payload(app, t, seq, r, tt.reply_size.max(9)) {
                v.push(Violation::new(prop, sig("altered-reply"), format!("application {ai}: reply target {t} seq {seq} r {r} has {} bytes, expected {} or different content", data.len(), tt.reply_size.max(9))));
            }
            let want_host = Ipv4Addr::from(tt.ip).to_string();
            // VMess and Trojan do not carry the source address back; the client labels the reply with the address the
            // application asked for. A label that names the same target (literal or the requested name) is accepted.
            let same_name = tt.name.as_deref() == Some(host.as_str());
            if port != tt.port || (host != want_host && !same_name) {
                v.push(Violation::new(prop, sig("reply-mislabelled"), format!("application {ai}: reply from target {t} ({want_host}:{}) is labelled {host}:{port}", tt.port)));
            }
            *seen.entry((t, seq, r)).or_insert(0) += 1;
        }
        for ((t, seq, r), n) in &seen {
            if *n > 1 && !(lossy && legacy) {
                v.push(Violation::new(prop, sig("reply-duplicated"), format!("application {ai}: reply target {t} seq {seq} r {r} arrived {n} times")));
            }
        }
        if up.loss_pm == 0 && !up.send_faults {
            for (t, seq, size) in &o.sent[ai] {
                if *size < 9 || delivered.get(&(ai, *t, *seq)).copied().unwrap_or(0) == 0 {
                    continue;
                }
                // a reply larger than the path can carry may be dropped (whole); VMess carries one 2 KiB chunk per datagram
                let too_big = (plan.config.proto == Proto::Vmess && up.targets[*t].reply_size > must_carry(Proto::Vmess)) || up.targets[*t].reply_size > 65000;
                if too_big {
                    continue;
                }
                for r in 1..=up.targets[*t].replies {
                    if !seen.contains_key(&(*t, *seq, r as u8)) {
                        v.push(Violation::new(prop, sig("reply-lost"), format!("application {ai}: reply {r} of target {t} to seq {seq} never arrived")));
                    }
                }
            }
        }
    }
    v.dedup_by(|a, b| a.signature == b.signature);
    v
}

/// The largest payload every path of this protocol must carry; anything larger may be dropped (whole), never cut.
/// VMess carries one datagram per 2 KiB body chunk and reserves room for the tag, the size field and up to 63 bytes of
/// padding; Shadowsocks and Trojan are bounded by the 65507-byte datagram / 16-bit length minus their own overhead.
pub fn must_carry(proto: Proto) -> usize {
    match proto {
        Proto::Shadowsocks => 65507 - 600,
        Proto::Vmess => 2048 - 16 - 2 - 64 - 16,
        Proto::Trojan => 65507 - 600,
    }
}

pub fn gen_udp_plan(g: &mut Gen, thorough: bool, max_payload: usize) -> UdpPlan {
    gen_udp_plan_for(g, thorough, max_payload, None)
}

/// `edge`: the protocol's capacity edge; a share of the datagrams is placed right around it (whole-or-nothing zone)
pub fn gen_udp_plan_for(g: &mut Gen, thorough: bool, max_payload: usize, edge: Option<usize>) -> UdpPlan {
    let n_targets = g.range(1, 4) as usize;
    let n_apps = g.range(1, 4) as usize;
    let mut targets = Vec::new();
    for t in 0..n_targets {
        let name = if g.chance(40) { Some(format!("u{t}-{}.udp.test", g.range(0, 999))) } else { None };
        targets.push(UdpTarget { ip: [127, 0, 9, 1 + t as u8], port: g.range(1024, 39_999) as u16, name, replies: *g.pick(&[0usize, 1, 1, 1, 2]), reply_size: match edge { Some(e) if g.chance(30) => (e + 70).saturating_sub(g.range(0, 90) as usize), _ => *g.pick(&[9usize, 16, 100, 1200, 1472, 4000, 4000, 16383, 16384, 20000, 40000]) } });
    }
    if n_targets >= 2 && g.chance(35) {
        // the same host (name and address) on another port is another target
        let (ip, name, port) = (targets[0].ip, targets[0].name.clone(), targets[0].port);
        targets[1].ip = ip;
        targets[1].name = name;
        targets[1].port = if port < 39_000 { port + 1 + g.below(50) as u16 } else { port - 1 };
    }
    else if g.chance(25) {
        // neighbouring addresses: further targets whose (address, port) differs from the first target's in exactly one bit
        // (of the port, or of the low 24 bits of the address), or that swap a byte between the two - whatever the relay keys
        // its tables with has to tell them apart
        let (ip0, port0) = (u32::from_be_bytes(targets[0].ip), targets[0].port);
        targets[0].name = None;
        targets.truncate(1);
        for _ in 0..g.range(2, 5) {
            let (ip, port) = match g.below(10) {
                0..=4 => (ip0, port0 ^ (1 << g.below(16))),
                5..=7 => (ip0 ^ (1 << g.below(24)), port0),
                8 => {
                    // an octet that is an ASCII letter, and the same letter in the other case
                    let sh = 8 * g.below(3) as u32;
                    let letter = 0x41 + g.below(26) as u32;
                    let base = (ip0 & !(0xff << sh)) | (letter << sh);
                    if !targets.iter().any(|t| u32::from_be_bytes(t.ip) == base && t.port == port0) {
                        targets.push(UdpTarget { ip: base.to_be_bytes(), port: port0, name: None, replies: 1, reply_size: 0 });
                    }
                    (base ^ (0x20 << sh), port0)
                }
                _ => ((ip0 & 0xffff_0000) | port0 as u32, (ip0 & 0xffff) as u16),
            };
            if port < 1024 || targets.iter().any(|t| u32::from_be_bytes(t.ip) == ip && t.port == port) {
                continue;
            }
            targets.push(UdpTarget { ip: ip.to_be_bytes(), port, name: None, replies: 1, reply_size: 0 });
        }
    }
    else if n_targets >= 2 && g.chance(35) {
        // different hosts answering from the same port (two resolvers on :53): only the address tells them apart
        let port = targets[0].port;
        for t in targets.iter_mut() {
            t.port = port;
        }
    }
    let mut apps = Vec::new();
    for _ in 0..n_apps {
        let n_ops = g.range(1, if thorough { 30 } else { 10 });
        let mut ops = Vec::new();
        for _ in 0..n_ops {
            if g.chance(25) {
                ops.push(UdpOp::Pause(*g.pick(&[0, 1, 50, 2_000, 40_000, 310_000, 620_000])));
            } else {
                let size = match g.below(8) {
                    0 => g.range(0, 8) as usize,
                    1 => g.range(9, 64) as usize,
                    2 => *g.pick(&[1472usize, 1473, 1500, 2048, 4096]),
                    3 => g.range(9, 1500) as usize,
                    4 => g.range(1500, 20_000) as usize,
                    5 => match edge {
                        Some(e) if g.chance(70) => (e + 80).saturating_sub(g.range(0, 100) as usize),
                        _ => max_payload.saturating_sub(g.range(0, 3) as usize),
                    },
                    _ => g.range(9, 300) as usize,
                };
                // now and then a datagram that cannot be forwarded at all (too large once the protocol's header is added): it may be
                // dropped whole, and the datagrams that follow it must be served as usual
                let size = if max_payload > 60_000 && g.chance(4) { 65507 - g.range(0, 40) as usize } else { size.min(max_payload) };
                if g.chance(6) {
                    // a fragment, and a datagram of some size right behind it (no pause in between)
                    ops.push(UdpOp::Fragment { t: g.below(targets.len() as u64) as usize });
                    ops.push(UdpOp::Send { t: g.below(targets.len() as u64) as usize, size: g.range(60, 1400) as usize });
                }
                ops.push(UdpOp::Send { t: g.below(targets.len() as u64) as usize, size });
            }
        }
        apps.push(ops);
    }
    UdpPlan { apps, targets, loss_pm: 0, dup_pm: 0, reorder_pm: 0, second_client_password: None, send_faults: false }
}

/// README rows that carry UDP: Shadowsocks over udp (7 ciphers, with/without users), VMess over tcp/tls/ws/wss/quic, Trojan over tls/wss/quic.
pub fn udp_cells() -> Vec<(Proto, &'static str, Transport, usize)> {
    let mut v = Vec::new();
    for c in SS_CIPHERS {
        v.push((Proto::Shadowsocks, c, Transport::Tcp, 0));
        if supports_eih(c) {
            v.push((Proto::Shadowsocks, c, Transport::Tcp, 2));
        }
    }
    for c in VMESS_CIPHERS {
        for t in TCP_TRANSPORTS_UDP {
            v.push((Proto::Vmess, c, t, 0));
        }
    }
    v.push((Proto::Trojan, "aes-128-gcm", Transport::Tls, 0));
    v.push((Proto::Trojan, "aes-128-gcm", Transport::Wss, 0));
    for c in VMESS_CIPHERS {
        v.push((Proto::Vmess, c, Transport::Quic, 0));
    }
    v.push((Proto::Trojan, "aes-128-gcm", Transport::Quic, 0));
    v
}

const TCP_TRANSPORTS_UDP: [Transport; 4] = [Transport::Tcp, Transport::Tls, Transport::Ws, Transport::Wss];

pub fn gen_c02(seed: u64, thorough: bool) -> Plan {
    let mut g = Gen::new(seed, 2);
    let cells = udp_cells();
    let (proto, cipher, transport, n_users) = cells[seed as usize % cells.len()];
    let mut config = udp_config(&mut g, proto, cipher, transport, n_users);
    // the largest payload the path can carry: 65507 minus the protocol's own overhead (generous margin), or 64 KiB - 1 in a stream chunk
    let max_payload = match proto {
        Proto::Shadowsocks => 65507 - 16 - 16 - 1 - 8 - 8 - 2 - 300 - 24,
        // up to and beyond the chunk capacity: sizes above `must_carry` may be dropped whole, never cut
        Proto::Vmess => 2100,
        Proto::Trojan => 65535,
    };
    let edge = if proto == Proto::Vmess { Some(must_carry(proto)) } else { None };
    let mut up = gen_udp_plan_for(&mut g, thorough, max_payload, edge);
    if proto == Proto::Shadowsocks && up.targets.len() > 1 && g.chance(20) {
        // one target answers with a datagram that is too large to go back once salt, header and tag are added: that one reply
        // may be dropped, every other reply - of this and of every other association - must still arrive
        let t = g.below(up.targets.len() as u64) as usize;
        up.targets[t].replies = up.targets[t].replies.max(1);
        up.targets[t].reply_size = 65507 - g.range(0, 60) as usize;
    }
    if proto == Proto::Trojan && g.chance(25) {
        // a stream carrier brings back replies that no SOCKS5-UDP datagram can hold (65498 bytes and more with the header in
        // front): such a reply may be dropped by the client, every other reply - the next one of the same target, and those of
        // the other targets and applications - arrives unharmed
        let t = g.below(up.targets.len() as u64) as usize;
        up.targets[t].replies = up.targets[t].replies.max(1);
        up.targets[t].reply_size = 65507 - g.range(0, 14) as usize;
    }
    if proto == Proto::Shadowsocks && g.chance(35) {
        up.loss_pm = *g.pick(&[0, 100, 300]);
        up.dup_pm = *g.pick(&[0, 200, 500]);
        up.reorder_pm = *g.pick(&[0, 300, 800]);
    }
    if n_users >= 2 && g.chance(60) {
        // a second real client configured as the second user
        let ipsk = config.server_password.clone();
        up.second_client_password = Some(format!("{ipsk}:{}", config.users[1].1));
    }
    let _ = &mut config;
    Plan {
        property: "C02".into(),
        scenario: "udp-system".into(),
        seed,
        net_seed: g.next(),
        config,
        knobs: KnobsPlan { latency_us: *g.pick(&[0, 0, 300, 8000]), jitter_us: *g.pick(&[0, 0, 2000]), read_style: *g.pick(&[0, 0, 2, 4]), ..KnobsPlan::simple() },
        flows: vec![],
        extra: serde_json::json!({ "udp": up }),
    }
}

/// C11, system half: the real Shadowsocks-2022 client and server with a link that duplicates and reorders but
/// does not lose. Every numbered datagram and every reply must arrive exactly once: duplicates are refused,
/// reordered ones inside the window accepted, and a refusal never ends the session or the service.
pub fn gen_c11_system(seed: u64, thorough: bool) -> Plan {
    let mut g = Gen::new(seed, 111);
    let ciphers: Vec<&str> = SS_CIPHERS.iter().copied().filter(|c| is_2022(c)).collect();
    let cipher = ciphers[seed as usize % ciphers.len()];
    let n_users = if supports_eih(cipher) && g.chance(40) { 2 } else { 0 };
    let config = udp_config(&mut g, Proto::Shadowsocks, cipher, Transport::Tcp, n_users);
    let mut up = gen_udp_plan(&mut g, thorough, 4000);
    for a in up.apps.iter_mut() {
        // bursts, so that reordering has something to reorder
        let t = 0;
        let burst = g.range(5, 40);
        for _ in 0..burst {
            a.push(UdpOp::Send { t, size: g.range(9, 200) as usize });
        }
    }
    if g.chance(35) {
        // in the middle of a burst one datagram cannot be sent on to its target: it is lost, and the copies of earlier
        // datagrams that the network delivers afterwards must still be refused (the session keeps its window)
        for a in up.apps.iter_mut() {
            let at = a.len() - g.range(2, 5.min(a.len() as u64 - 1)) as usize;
            a.insert(at, UdpOp::ServerSendFault { t: 0 });
        }
        up.send_faults = true;
    }
    up.loss_pm = 0;
    up.dup_pm = *g.pick(&[300, 600, 1000]);
    up.reorder_pm = *g.pick(&[0, 500, 900]);
    Plan {
        property: "C11".into(),
        scenario: "udp-system".into(),
        seed,
        net_seed: g.next(),
        config,
        knobs: KnobsPlan { latency_us: *g.pick(&[0, 300, 8000]), jitter_us: *g.pick(&[0, 2000]), ..KnobsPlan::simple() },
        flows: vec![],
        extra: serde_json::json!({ "udp": up }),
    }
}

pub fn execute_udp(plan: &Plan) -> Outcome {
    let up: UdpPlan = serde_json::from_value(plan.extra["udp"].clone()).expect("udp plan");
    let prop = plan.property.clone();
    let out = rt::run_sim(plan.seed, plan.net_seed, plan.knobs.to_knobs(), || run_udp_system(plan, &up));
    let mut v = check_udp(&prop, plan, &up, &out.result);
    let cell = plan.config.label();
    if out.result.startup_err.is_none() {
        if !out.result.udp_bound_end.0 || !out.result.udp_bound_end.1 || out.result.mains_finished.0 || out.result.mains_finished.1 {
            v.push(Violation::new(&prop, format!("{prop}/service-ended/{cell}"), format!("udp sockets still bound (client, server) = {:?}, mains finished = {:?}", out.result.udp_bound_end, out.result.mains_finished)));
        }
    }
    for p in &out.panics {
        v.push(Violation::new(&prop, format!("{prop}/panic/{cell}/{}", p.frame), format!("panic in node {}: {} at {}", p.node, p.message, p.location)));
    }
    let sent: usize = out.result.obs.sent.iter().map(|s| s.len()).sum();
    let got: usize = out.result.obs.target_recv.iter().map(|s| s.len()).sum();
    let replies: usize = out.result.obs.app_recv.iter().map(|s| s.len()).sum();
    let mut probes = BTreeMap::new();
    probes.insert("datagrams_sent".to_owned(), sent as u64);
    probes.insert("datagrams_at_targets".to_owned(), got as u64);
    probes.insert("replies_at_applications".to_owned(), replies as u64);
    probes.insert("runs_with_second_client".to_owned(), up.second_client_password.is_some() as u64);
    probes.insert("runs_lossy".to_owned(), (up.loss_pm + up.dup_pm + up.reorder_pm > 0) as u64);
    probes.insert("idle_gaps_over_ttl".to_owned(), up.apps.iter().flatten().filter(|o| matches!(o, UdpOp::Pause(ms) if *ms >= 300_000)).count() as u64);
    let shape = serde_json::to_string(&(&plan.config.cipher, &plan.config.transport, &up)).unwrap();
    let mut h = 0xcbf29ce484222325u64;
    for b in shape.bytes() {
        h = (h ^ b as u64).wrapping_mul(0x100000001b3);
    }
    Outcome {
        violations: v,
        ev_hash: out.world.ev_hash,
        ev_count: out.world.ev_count,
        poll_hash: out.poll_hash,
        polls: out.polls,
        sim_ns: out.sim_ns,
        stats: crate::report::world_stats(&out.world),
        nontrivial: got > 0,
        case_hash: out.poll_hash ^ h,
        probes,
        panics: out.panics,
        extra_evaluations: 0,
        extra_cases: Vec::new(),
    }
}

// ---------------------------------------------------------------- C09, datagram sessions

/// C09 for datagram sessions: 2-4 local applications together, then each of them alone (same plan, same slots);
/// what an application's datagrams and replies come to must not depend on its neighbours. Clean links only
/// (with loss the comparison would be between two different random experiments).
pub fn gen_c09_udp(seed: u64, thorough: bool) -> Plan {
    let mut g = Gen::new(seed, 92);
    let cells = udp_cells();
    let (proto, cipher, transport, n_users) = cells[seed as usize % cells.len()];
    let config = udp_config(&mut g, proto, cipher, transport, n_users);
    let max_payload = match proto {
        Proto::Shadowsocks => 65507 - 400,
        Proto::Vmess => 2100,
        Proto::Trojan => 65535,
    };
    let mut up = gen_udp_plan_for(&mut g, thorough, max_payload, if proto == Proto::Vmess { Some(must_carry(proto)) } else { None });
    while up.apps.len() < 2 {
        let extra = up.apps[0].clone();
        up.apps.push(extra);
    }
    // no idle gaps beyond a few seconds: expiry of a shared table entry is a legitimate interaction in time, not between flows
    for a in up.apps.iter_mut() {
        for op in a.iter_mut() {
            if let UdpOp::Pause(ms) = op {
                *ms = (*ms).min(2_000);
            }
        }
    }
    if proto == Proto::Shadowsocks && up.targets.len() > 1 && g.chance(30) {
        let t = g.below(up.targets.len() as u64) as usize;
        up.targets[t].replies = 1;
        up.targets[t].reply_size = 65507 - g.range(0, 60) as usize;
    }
    Plan {
        property: "C09".into(),
        scenario: "independence-udp".into(),
        seed,
        net_seed: g.next(),
        config,
        knobs: KnobsPlan { latency_us: *g.pick(&[0, 0, 300, 8000]), read_style: *g.pick(&[0, 0, 2, 4]), ..KnobsPlan::simple() }.for_transport(transport),
        flows: vec![],
        extra: serde_json::json!({ "udp": up }),
    }
}

/// what one application's traffic came to: per sent datagram how often it reached its target, and the replies that came back
fn app_summary(up: &UdpPlan, o: &UdpObs, app: usize) -> (Vec<((usize, u32, usize), usize)>, Vec<(usize, u32, u8, usize)>, usize) {
    let mut delivered = Vec::new();
    for (t, seq, size) in &o.sent[app] {
        let n = o.target_recv.get(*t).map_or(0, |r| r.iter().filter(|(_, d)| *size >= 9 && *d == dgram_payload(app, *t, *seq, 0, *size)).count());
        delivered.push(((*t, *seq, *size), n));
    }
    let mut replies: Vec<(usize, u32, u8, usize)> = Vec::new();
    let mut junk = 0;
    for d in &o.app_recv[app] {
        match socks5_udp_unwrap(d) {
            Some((_, _, data)) if data.len() >= 9 && u16::from_be_bytes([data[0], data[1]]) as usize == app => {
                replies.push((u16::from_be_bytes([data[2], data[3]]) as usize, u32::from_be_bytes([data[4], data[5], data[6], data[7]]), data[8], data.len()));
            }
            _ => junk += 1,
        }
    }
    replies.sort();
    let _ = up;
    (delivered, replies, junk)
}

pub fn execute_c09_udp(plan: &Plan) -> Outcome {
    let up: UdpPlan = serde_json::from_value(plan.extra["udp"].clone()).expect("udp plan");
    let cell = plan.config.label();
    let all = rt::run_sim(plan.seed, plan.net_seed, plan.knobs.to_knobs(), || run_udp_system(plan, &up));
    let mut v = Vec::new();
    let mut panics = all.panics.clone();
    let (mut sim_ns, mut polls, mut ev_count) = (all.sim_ns, all.polls, all.world.ev_count);
    let mut extra_cases = Vec::new();
    let mut sessions_alone = 0u64;
    if let Some(e) = &all.result.startup_err {
        v.push(Violation::new("C09", format!("C09/udp-startup/{cell}"), e.clone()));
    } else {
        for ix in 0..up.apps.len() {
            let mut single = up.clone();
            for (j, a) in single.apps.iter_mut().enumerate() {
                if j != ix {
                    a.clear();
                }
            }
            let alone = rt::run_sim(plan.seed, plan.net_seed, plan.knobs.to_knobs(), || run_udp_system(plan, &single));
            sim_ns += alone.sim_ns;
            polls += alone.polls;
            ev_count += alone.world.ev_count;
            panics.extend(alone.panics.clone());
            extra_cases.push(alone.poll_hash ^ plan.seed ^ ix as u64);
            let a = app_summary(&up, &alone.result.obs, ix);
            let t = app_summary(&up, &all.result.obs, ix);
            // ... and every session of the application (one local socket, one target) alone: a binding or association table
            // that is keyed too coarsely lets one session of a socket swallow the next
            let mut targets_of_app: Vec<usize> = up.apps[ix].iter().filter_map(|op| if let UdpOp::Send { t, .. } = op { Some(*t) } else { None }).collect();
            targets_of_app.sort();
            targets_of_app.dedup();
            if targets_of_app.len() > 1 && a == t {
                for tgt in targets_of_app {
                    let mut one = single.clone();
                    for op in one.apps[ix].iter_mut() {
                        if matches!(op, UdpOp::Send { t, .. } if *t != tgt) {
                            *op = UdpOp::Skip;
                        }
                    }
                    let solo = rt::run_sim(plan.seed, plan.net_seed, plan.knobs.to_knobs(), || run_udp_system(plan, &one));
                    sim_ns += solo.sim_ns;
                    polls += solo.polls;
                    ev_count += solo.world.ev_count;
                    panics.extend(solo.panics.clone());
                    extra_cases.push(solo.poll_hash ^ plan.seed ^ ((ix as u64) << 8) ^ tgt as u64 ^ 0x5e55);
                    sessions_alone += 1;
                    let s = app_summary(&up, &solo.result.obs, ix);
                    let only = |x: &(Vec<((usize, u32, usize), usize)>, Vec<(usize, u32, u8, usize)>, usize)| (x.0.iter().filter(|d| d.0.0 == tgt).cloned().collect::<Vec<_>>(), x.1.iter().filter(|r| r.0 == tgt).cloned().collect::<Vec<_>>());
                    let (sa, st) = (only(&s), only(&t));
                    if sa != st {
                        let first = sa.0.iter().zip(st.0.iter()).find(|(x, y)| x != y).map(|(x, y)| format!("datagram {:?}: alone delivered {} times, with the application's other sessions {}", x.0, x.1, y.1)).unwrap_or_else(|| format!("replies alone {} / with the other sessions {}", sa.1.len(), st.1.len()));
                        v.push(Violation::new("C09", format!("C09/udp-session-depends-on-sibling-session/{cell}"), format!("application {ix}, session to target {tgt}: {first}")));
                    }
                }
            }
            if a != t {
                let what = if a.0 != t.0 { "datagrams" } else if a.1 != t.1 { "replies" } else { "stray-datagrams" };
                let first = a.0.iter().zip(t.0.iter()).find(|(x, y)| x != y).map(|(x, y)| format!("datagram {:?}: alone delivered {} times, together {}", x.0, x.1, y.1)).unwrap_or_else(|| format!("replies alone {} / together {}, undecodable or foreign datagrams alone {} / together {}", a.1.len(), t.1.len(), a.2, t.2));
                v.push(Violation::new("C09", format!("C09/udp-depends-on-neighbours/{cell}/{what}"), format!("application {ix} of {}: {first}", up.apps.len())));
            }
        }
    }
    for p in &panics {
        v.push(Violation::new("C09", format!("C09/panic/{cell}/{}", p.frame), format!("panic in node {}: {} at {}", p.node, p.message, p.location)));
    }
    v.dedup_by(|a, b| a.signature == b.signature);
    let got: usize = all.result.obs.target_recv.iter().map(|s| s.len()).sum();
    let mut probes = BTreeMap::new();
    probes.insert("udp_sessions_compared".to_owned(), up.apps.len() as u64);
    probes.insert("udp_single_target_sessions_compared".to_owned(), sessions_alone);
    Outcome {
        violations: v,
        ev_hash: all.world.ev_hash,
        ev_count,
        poll_hash: all.poll_hash,
        polls,
        sim_ns,
        stats: crate::report::world_stats(&all.world),
        nontrivial: got > 0,
        case_hash: all.poll_hash ^ plan.seed.wrapping_mul(0x9E3779B97F4A7C15),
        probes,
        panics,
        extra_evaluations: up.apps.len() as u64 + sessions_alone,
        extra_cases,
    }
}

// ---------------------------------------------------------------- IPv6 datagram targets

/// C02, "all target address kinds": a datagram for an IPv6 literal. One application, one echoing target bound to an
/// IPv6 address; two datagrams. The datagrams must reach the target and the replies must come back labelled with it.
pub fn gen_c02_v6(seed: u64, _thorough: bool) -> Plan {
    let mut g = Gen::new(seed, 26);
    let cells = udp_cells();
    let (proto, cipher, transport, n_users) = cells[seed as usize % cells.len()];
    let config = udp_config(&mut g, proto, cipher, transport, n_users);
    Plan {
        property: "C02".into(),
        scenario: "udp-ipv6-target".into(),
        seed,
        net_seed: g.next(),
        config,
        knobs: KnobsPlan::simple().for_transport(transport),
        flows: vec![],
        extra: serde_json::json!({ "port": g.range(1024, 60000), "sizes": [g.range(9, 300), g.range(9, 1200)], "host": g.range(1, 0xfffe) }),
    }
}

pub fn execute_c02_v6(plan: &Plan) -> Outcome {
    use std::net::Ipv6Addr;
    let port = plan.extra["port"].as_u64().unwrap_or(5300) as u16;
    let sizes: Vec<usize> = serde_json::from_value(plan.extra["sizes"].clone()).unwrap_or_else(|_| vec![20, 40]);
    let host = plan.extra["host"].as_u64().unwrap_or(1) as u16;
    let ip6 = Ipv6Addr::new(0xfd00, 0, 0, 0, 0, 0, 0x26, host);
    let taddr = SocketAddr::new(IpAddr::V6(ip6), port);
    let cell = plan.config.label();
    let out = rt::run_sim(plan.seed, plan.net_seed, plan.knobs.to_knobs(), || async {
        let mains = match start_system(&plan.config, "127.0.0.1", SERVER_PORT).await {
            Ok(m) => m,
            Err(e) => return (Some(e), 0usize, Vec::new()),
        };
        if !settle(|| udp_bound(CLIENT_PORT)).await {
            return (Some("the client's local datagram socket is not bound".to_owned()), 0, Vec::new());
        }
        let got = Arc::new(Mutex::new(0usize));
        let g2 = got.clone();
        let _t = spawn_scoped(async move {
            let Ok(u) = UdpSocket::bind(taddr).await else { return };
            let mut buf = vec![0u8; 65536];
            loop {
                let Ok((n, from)) = u.recv_from(&mut buf).await else { return };
                *g2.lock().unwrap() += 1;
                let mut r = b"v6-reply:".to_vec();
                r.extend_from_slice(&buf[..n.min(16)]);
                let _ = u.send_to(&r, from).await;
            }
        });
        tokio::task::yield_now().await;
        let app = UdpSocket::bind(SocketAddr::new(IpAddr::V4(Ipv4Addr::LOCALHOST), 0)).await.unwrap();
        let mut replies: Vec<Vec<u8>> = Vec::new();
        let mut buf = vec![0u8; 65536];
        for (i, s) in sizes.iter().enumerate() {
            let mut d = vec![0u8, 0, 0, 4];
            d.extend_from_slice(&ip6.octets());
            d.extend_from_slice(&port.to_be_bytes());
            d.extend(dgram_payload(0, 0, i as u32 + 1, 0, *s));
            // (repeated once: the first datagram through a stream carrier may be lost while the carrier is made)
            for _ in 0..2 {
                let _ = app.send_to(&d, SocketAddr::new(IpAddr::V4(Ipv4Addr::LOCALHOST), CLIENT_PORT)).await;
                if let Ok(Ok((n, _))) = tokio::time::timeout(Duration::from_secs(3), app.recv_from(&mut buf)).await {
                    replies.push(buf[..n].to_vec());
                    break;
                }
            }
        }
        let at_target = *got.lock().unwrap();
        drop(mains);
        (None, at_target, replies)
    });
    let (startup, at_target, replies) = out.result.clone();
    let mut v = Vec::new();
    if let Some(e) = startup {
        v.push(Violation::new("C02", format!("C02/ipv6-startup/{cell}"), e));
    } else {
        if at_target == 0 {
            v.push(Violation::new("C02", format!("C02/ipv6-target-never-reached/{cell}"), format!("{} datagrams for [{ip6}]:{port} were sent (each twice); none reached the target (address-family errors at the simulated sockets: {})", sizes.len(), out.world.stats.udp_wrong_family)));
        } else if replies.len() < sizes.len() {
            v.push(Violation::new("C02", format!("C02/ipv6-reply-lost/{cell}"), format!("the target [{ip6}]:{port} received {at_target} datagrams and answered each, {} of {} replies came back", replies.len(), sizes.len())));
        }
        for r in &replies {
            match socks5_udp_unwrap(r) {
                Some((h, p, data)) if data.starts_with(b"v6-reply:") => {
                    let labelled_ok = p == port && h.parse::<Ipv6Addr>().ok() == Some(ip6);
                    // (VMess / Trojan carry no source address: the requested literal comes back as the label, in whatever notation)
                    if !labelled_ok {
                        v.push(Violation::new("C02", format!("C02/ipv6-reply-mislabelled/{cell}"), format!("a reply of [{ip6}]:{port} came back labelled {h}:{p}")));
                        break;
                    }
                }
                _ => {
                    v.push(Violation::new("C02", format!("C02/ipv6-reply-malformed/{cell}"), "a reply came back that is not the target's datagram under a SOCKS5-UDP header".into()));
                    break;
                }
            }
        }
    }
    for p in &out.panics {
        v.push(Violation::new("C02", format!("C02/panic/{cell}/ipv6/{}", p.frame), format!("panic in node {}: {} at {}", p.node, p.message, p.location)));
    }
    let mut probes = BTreeMap::new();
    probes.insert("ipv6_target_runs".to_owned(), 1);
    probes.insert("ipv6_datagrams_at_target".to_owned(), at_target as u64);
    Outcome {
        violations: v,
        ev_hash: out.world.ev_hash,
        ev_count: out.world.ev_count,
        poll_hash: out.poll_hash,
        polls: out.polls,
        sim_ns: out.sim_ns,
        stats: crate::report::world_stats(&out.world),
        nontrivial: true,
        case_hash: out.poll_hash ^ plan.seed.wrapping_mul(0x9E3779B97F4A7C15),
        probes,
        panics: out.panics,
        extra_evaluations: 0,
        extra_cases: Vec::new(),
    }
}
