//! C12 – no key ever encrypts two messages with the same nonce.
//!
//! Everything the real client and server put on a plain tcp / udp link during a
//! run with several sessions and many writes is captured by the transparent
//! link node (streams) or the datagram capture (Shadowsocks UDP) and parsed by
//! the strict reference decoders, which know the credentials and record, for
//! every sealed unit, the (derived key, nonce) it was opened with. Oracle: no
//! pair occurs twice; salts, session ids, VMess body key+IV, auth-id random
//! parts and connection nonces are pairwise distinct across the sessions of a
//! run; packet ids strictly increase within a UDP session.

use std::collections::BTreeMap;
use std::collections::BTreeSet;

use octo_squirrel::verif::clock::unix_now;
use octo_squirrel::verif::world;
use refimpl::KeyNonce;

use crate::nodes::*;
use crate::plan::*;
use crate::proxy::DirScript;
use crate::refpeer::*;
use crate::report::Outcome;
use crate::report::Violation;
use crate::rnd::Gen;
use crate::rt;
use crate::scen_tcp::*;
use crate::scen_udp;

pub fn gen_c12(seed: u64, thorough: bool) -> Plan {
    let mut g = Gen::new(seed, 12);
    // encrypted protocols only; every third plan is a Shadowsocks datagram run
    let cells: Vec<(Proto, &str)> = all_proto_ciphers().into_iter().filter(|(p, _)| *p != Proto::Trojan).collect();
    let udp = seed % 3 == 2;
    let (proto, cipher) = if udp { (Proto::Shadowsocks, SS_CIPHERS[(seed / 3) as usize % 7]) } else { cells[(seed as usize / 3) % cells.len()] };
    let n_users = if proto == Proto::Shadowsocks && supports_eih(cipher) && g.chance(40) { 2 } else { 0 };
    let mut config = gen_config(&mut g, proto, cipher, Transport::Tcp, n_users);
    let mut flows = Vec::new();
    let mut extra = serde_json::json!({ "udp": serde_json::Value::Null });
    if udp {
        config = scen_udp::udp_config(&mut g, proto, cipher, Transport::Tcp, n_users);
        let mut up = scen_udp::gen_udp_plan(&mut g, thorough, 1400);
        for a in up.apps.iter_mut() {
            let n = g.range(3, 25);
            for _ in 0..n {
                a.push(scen_udp::UdpOp::Send { t: 0, size: g.range(9, 300) as usize });
            }
        }
        extra["udp"] = serde_json::to_value(&up).unwrap();
    } else {
        let n = g.range(2, if thorough { 12 } else { 6 }) as usize;
        for ix in 0..n {
            let hs = *g.pick(&[LocalHs::Socks5V4, LocalHs::Socks5Domain, LocalHs::HttpConnect]);
            let ending = *g.pick(&[Ending::None, Ending::AppAfterAll, Ending::TargetAfterAll]);
            let mut f = gen_flow(&mut g, ix, hs, ending, 30_000);
            // many writes per session: the counters have to advance
            let (nu, nd) = (g.range(1, 12), g.range(1, 12));
            f.up = (0..nu).map(|_| Op::Write(g.range(1, 5000) as usize)).collect();
            f.down = (0..nd).map(|_| Op::Write(g.range(1, 5000) as usize)).collect();
            flows.push(f);
        }
    }
    Plan { property: "C12".into(), scenario: "nonces".into(), seed, net_seed: g.next(), config, knobs: KnobsPlan { read_style: *g.pick(&[0, 3, 4]), ..KnobsPlan::simple() }, flows, extra }
}

/// C12, last clause ("a UDP session ends rather than reuse a packet id"): sessions that start a few ids before 2^64
/// (hook H8). One application, one echoing target, a dozen datagrams: the ids on the wire must keep increasing within
/// every session (a wrap to 0 is the reuse), and the exchange must go on - in a new session - after the ids ran out.
pub fn gen_c12_wrap(seed: u64, _thorough: bool) -> Plan {
    let mut g = Gen::new(seed, 121);
    let ss22: Vec<&str> = SS_CIPHERS.iter().copied().filter(|c| is_2022(c)).collect();
    let cipher = ss22[seed as usize % ss22.len()];
    let n_users = if supports_eih(cipher) && (seed / 4) % 2 == 1 { 2 } else { 0 };
    let config = scen_udp::udp_config(&mut g, Proto::Shadowsocks, cipher, Transport::Tcp, n_users);
    let mut up = scen_udp::gen_udp_plan(&mut g, false, 600);
    up.apps.truncate(1);
    up.targets.truncate(1);
    up.targets[0].replies = 1;
    up.targets[0].reply_size = 40;
    up.send_faults = false;
    up.apps[0] = (0..14).flat_map(|_| [scen_udp::UdpOp::Send { t: 0, size: g.range(9, 200) as usize }, scen_udp::UdpOp::Pause(20)]).collect();
    let side = (seed / 8) % 3;
    let near = |g: &mut Gen| u64::MAX - g.range(1, 8);
    let client = if side != 1 { Some(near(&mut g)) } else { None };
    let server = if side != 0 { Some(near(&mut g)) } else { None };
    Plan {
        property: "C12".into(),
        scenario: "nonces".into(),
        seed,
        net_seed: g.next(),
        config,
        knobs: KnobsPlan::simple(),
        flows: vec![],
        extra: serde_json::json!({ "udp": up, "initial_packet_id": { "client": client, "server": server } }),
    }
}

#[derive(Default, Clone)]
struct Collected {
    wrap_runs: u64,
    used: Vec<KeyNonce>,
    /// per-session random values that must be pairwise distinct: (kind, bytes)
    fresh: Vec<(&'static str, Vec<u8>)>,
    errors: Vec<String>,
    sessions: usize,
    units: usize,
}

/// Parse one captured connection (both directions) with the strict reference.
fn parse_connection(c: &Creds, now: u64, c2s: &[u8], s2c: &[u8], col: &mut Collected) {
    if c2s.is_empty() {
        return;
    }
    col.sessions += 1;
    let mut srv = RefServer::new(c, now);
    if let Err(e) = srv.feed(c2s) {
        col.errors.push(format!("client->server stream: {e}"));
        return;
    }
    // VMess seals the chunk sizes of *both* directions under KDF(request key, "auth_len") with the request IV and a
    // counter from 0 – that is how the protocol (v2ray) defines it, so those units are compared per direction only
    let vmess_len_key = match &srv.state {
        ServerState::Vmess { dec: Some(d), .. } => Some(d.len_key.clone()),
        _ => None,
    };
    let tag = |mut kn: KeyNonce, dir: u8| {
        if vmess_len_key.as_ref() == Some(&kn.key) {
            kn.key.push(dir);
        }
        kn
    };
    col.used.extend(srv.used_nonces().into_iter().map(|k| tag(k, 0)));
    match &srv.state {
        ServerState::Legacy { req, .. } => {
            if let Some(s) = &req.salt {
                col.fresh.push(("request salt", s.clone()));
            }
            if !s2c.is_empty() {
                let mut p = refimpl::ss::StreamParser::new(&c.cipher, &c.password, false);
                if let Err(e) = p.feed(s2c) {
                    col.errors.push(format!("server->client stream: {e}"));
                }
                if let Some(s) = &p.salt {
                    col.fresh.push(("response salt", s.clone()));
                }
                col.used.extend(p.dec.map(|d| d.used).unwrap_or_default());
            }
        }
        ServerState::S2022 { req, .. } => {
            if let Some(r) = &req.req {
                col.fresh.push(("request salt", r.salt.clone()));
                if !s2c.is_empty() {
                    let key = match r.user_index {
                        Some(i) => c.user_keys[i].clone(),
                        None => c.psk.clone(),
                    };
                    let mut p = refimpl::ss2022::ResponseParser::new(&c.cipher, &key, &r.salt, now);
                    if let Err(e) = p.feed(s2c) {
                        col.errors.push(format!("server->client stream: {e}"));
                    }
                    if let Some(rs) = &p.resp {
                        col.fresh.push(("response salt", rs.salt.clone()));
                    }
                    // the fixed and variable header units used nonces 0 and 1 of the same key
                    if let Some(d) = p.dec {
                        col.used.extend(d.used);
                    }
                }
            }
        }
        ServerState::Vmess { opened, .. } => {
            if let Some(o) = opened {
                let mut kiv = o.request.body_key.to_vec();
                kiv.extend_from_slice(&o.request.body_iv);
                col.fresh.push(("vmess body key+iv", kiv));
                col.fresh.push(("vmess auth-id random", [o.auth_time.to_be_bytes().to_vec(), o.auth_rand.to_vec()].concat()));
                col.fresh.push(("vmess connection nonce", o.conn_nonce.to_vec()));
                if !s2c.is_empty() {
                    match refimpl::vmess::open_response_header(&o.request, s2c) {
                        Ok(Some((_, _, used))) => {
                            let mut body = refimpl::vmess::response_body(&o.request);
                            if let Err(e) = body.feed(&s2c[used..]) {
                                col.errors.push(format!("server->client body: {e}"));
                            }
                            col.used.extend(body.used.into_iter().map(|k| tag(k, 1)));
                        }
                        Ok(None) => {}
                        Err(e) => col.errors.push(format!("response header: {e}")),
                    }
                }
            }
        }
        ServerState::Trojan { .. } => {}
    }
}

pub fn execute_c12(plan: &Plan) -> Outcome {
    let c = creds(&plan.config);
    let cell = plan.config.label();
    let is_udp = !plan.extra["udp"].is_null();
    let out = rt::run_sim(plan.seed, plan.net_seed, plan.knobs.to_knobs(), || async {
        let mut col = Collected::default();
        if is_udp {
            world::with(|w| w.udp_capture = Some(Vec::new()));
            let up: scen_udp::UdpPlan = serde_json::from_value(plan.extra["udp"].clone()).unwrap();
            let wrap = plan.extra.get("initial_packet_id").filter(|v| v.is_object());
            if let Some(w0) = wrap {
                let (c0, s0) = (w0["client"].as_u64(), w0["server"].as_u64());
                world::with(|w| w.initial_packet_id = (c0, s0));
            }
            let run = scen_udp::run_udp_system(plan, &up).await;
            if let Some(e) = run.startup_err {
                col.errors.push(e);
                return col;
            }
            if wrap.is_some() {
                // the ids ran out in mid-exchange: a datagram or two may fall at the seam between two sessions, the rest goes on
                let sent = run.obs.sent[0].len();
                let at_target = run.obs.target_recv[0].len();
                let replies = run.obs.app_recv[0].len();
                col.wrap_runs = 1;
                if sent >= 10 && (at_target + 3 < sent || replies + 4 < sent) {
                    col.errors.push(format!("exhausted: of {sent} datagrams sent across the end of the packet-id space {at_target} reached the target and {replies} replies came back"));
                }
            }
            let cap = world::with(|w| w.udp_capture.take().unwrap_or_default());
            let now = unix_now();
            let mut last_pid: BTreeMap<(bool, u64), u64> = BTreeMap::new();
            for (from, to, data) in cap {
                let c2s = to.port() == SERVER_PORT;
                let s2c = from.port() == SERVER_PORT;
                if !c2s && !s2c {
                    continue;
                }
                col.units += 1;
                if !is_2022(&c.cipher) {
                    match refimpl::ss::udp_open(&c.cipher, &c.password, &data) {
                        Ok((salt, _, _, kn)) => {
                            col.fresh.push(("datagram salt", salt));
                            col.used.push(kn);
                        }
                        Err(e) => col.errors.push(format!("datagram: {e}")),
                    }
                    continue;
                }
                let opened = if refimpl::ss2022::is_aes(&c.cipher) {
                    if c2s {
                        let eih = if c.user_keys.is_empty() { 0 } else { 1 };
                        let keys = if c.user_keys.is_empty() { vec![c.psk.clone()] } else { c.user_keys.clone() };
                        refimpl::ss2022::udp_open_aes(&c.cipher, &c.psk, &keys, eih, &data, false).map(|(b, _, kn, _)| (b, kn))
                    } else {
                        // the reply is sealed under the key of whoever owns the session: try every registered key
                        let mut keys = c.user_keys.clone();
                        keys.push(c.psk.clone());
                        let mut r = Err("no key opens the reply".to_owned());
                        for k in keys {
                            if let Ok((b, _, kn, _)) = refimpl::ss2022::udp_open_aes(&c.cipher, &k, &[k.clone()], 0, &data, true) {
                                r = Ok((b, kn));
                                break;
                            }
                        }
                        r
                    }
                } else {
                    refimpl::ss2022::udp_open_chacha(&c.cipher, &c.psk, &data, s2c)
                };
                match opened {
                    Ok((b, kn)) => {
                        col.used.push(kn);
                        let e = last_pid.entry((c2s, b.session_id)).or_insert(0);
                        if b.packet_id <= *e {
                            col.errors.push(format!("packet id {} after {} in session {} ({})", b.packet_id, *e, b.session_id, if c2s { "client->server" } else { "server->client" }));
                        }
                        *e = b.packet_id;
                        let _ = now;
                    }
                    Err(e) => col.errors.push(format!("datagram: {e}")),
                }
            }
            col.sessions = last_pid.len();
            for ((dir, sid), _) in &last_pid {
                col.fresh.push((if *dir { "client session id" } else { "server session id" }, sid.to_be_bytes().to_vec()));
            }
        } else {
            // the handshakes of this plan are all made within the first second (no pauses in the scripts); the run itself
            // ends tens of simulated seconds later (teardown grace periods), which is not the handshakes' problem
            let now = unix_now() + 1;
            let (run, pobs) = run_tcp_system_via(plan, true, Some((DirScript::default(), DirScript::default()))).await;
            if let Some(e) = run.startup_err {
                col.errors.push(e);
                return col;
            }
            for (c2s, s2c) in pobs.c2s.iter().zip(pobs.s2c.iter()) {
                parse_connection(&c, now, c2s, s2c, &mut col);
            }
            col.units = col.used.len();
        }
        col
    });
    let col = out.result.clone();
    let mut v = Vec::new();
    let kind = if is_udp { "udp" } else { "tcp" };
    for e in col.errors.iter().take(3) {
        let oracle = if e.contains("packet id") { "packet-id-not-increasing" } else if e.starts_with("exhausted") { "relay-dead-after-packet-id-exhaustion" } else { "reference-cannot-parse" };
        v.push(Violation::new("C12", format!("C12/{oracle}/{cell}/{kind}"), e.clone()));
    }
    let mut seen: BTreeSet<&KeyNonce> = BTreeSet::new();
    for kn in &col.used {
        if !seen.insert(kn) {
            v.push(Violation::new("C12", format!("C12/nonce-reuse/{cell}/{kind}"), format!("nonce {:02x?} was used twice under one key (of {} sealed units in {} sessions)", kn.nonce, col.used.len(), col.sessions)));
            break;
        }
    }
    let mut fresh: BTreeSet<&(&'static str, Vec<u8>)> = BTreeSet::new();
    for f in &col.fresh {
        if !fresh.insert(f) {
            v.push(Violation::new("C12", format!("C12/value-reused/{cell}/{kind}/{}", f.0.replace(' ', "-")), format!("{} {:02x?} appears in two sessions of one run", f.0, &f.1[..f.1.len().min(16)])));
        }
    }
    for p in &out.panics {
        v.push(Violation::new("C12", format!("C12/panic/{cell}/{}", p.frame), format!("panic in node {}: {} at {}", p.node, p.message, p.location)));
    }
    let mut probes = BTreeMap::new();
    probes.insert("sealed_units_recovered".to_owned(), col.used.len() as u64);
    probes.insert("sessions_parsed".to_owned(), col.sessions as u64);
    probes.insert("fresh_values_compared".to_owned(), col.fresh.len() as u64);
    probes.insert(format!("runs_{kind}"), 1);
    probes.insert("runs_across_packet_id_exhaustion".to_owned(), col.wrap_runs);
    Outcome {
        violations: v,
        ev_hash: out.world.ev_hash,
        ev_count: out.world.ev_count,
        poll_hash: out.poll_hash,
        polls: out.polls,
        sim_ns: out.sim_ns,
        stats: crate::report::world_stats(&out.world),
        nontrivial: col.used.len() > 1,
        case_hash: out.poll_hash ^ plan.seed.wrapping_mul(0x9E3779B97F4A7C15),
        probes,
        panics: out.panics,
        extra_evaluations: 0,
        extra_cases: Vec::new(),
    }
}
