//! Datagrams carried inside a stream (VMess command 2, Trojan UDP associate) under every segmentation.
//!
//! Part "server": the reference client sends a valid handshake with the datagram command followed by k datagram
//! frames (IPv4 and name targets, payloads of 0 .. a few hundred bytes) to the real server over plain tcp; the stream is
//! delivered whole (baseline) and then with every single cut point, byte at a time, and seeded multi-cuts, the sender
//! going quiet between the pieces. Oracle (C04): the datagram target receives the same datagrams in the same order as in
//! the unsegmented run, every one of them without waiting for further input, and the echoes come back as decodable
//! frames; (C07) nothing panics.
//!
//! Part "system" (VMess, plain tcp carrier): the real client and the real server with the man-in-the-middle node
//! cutting the carrying stream of either direction at every single point.

use std::collections::BTreeMap;
use std::net::IpAddr;
use std::net::Ipv4Addr;
use std::net::SocketAddr;
use std::sync::Arc;
use std::sync::Mutex;
use std::time::Duration;

use octo_squirrel::verif::clock::unix_now;
use octo_squirrel::verif::net::TcpStream;
use octo_squirrel::verif::net::UdpSocket;
use octo_squirrel::verif::world;
use refimpl::Addr;
use tokio::io::AsyncReadExt;
use tokio::io::AsyncWriteExt;

use crate::nodes::*;
use crate::plan::*;
use crate::proxy::DirScript;
use crate::refpeer::*;
use crate::report::Outcome;
use crate::report::Violation;
use crate::rnd::Gen;
use crate::rt;
use crate::scen_udp::*;

const U_IP: [u8; 4] = [127, 0, 12, 1];
const U_PORT: u16 = 12012;
const U_NAME: &str = "dgram-target.c04u.test";

pub fn gen_ustream(prop: &str, seed: u64, thorough: bool) -> Plan {
    let mut g = Gen::new(seed, 40);
    // cells: trojan, vmess x 2 against the reference client ("server"), vmess x 2 as a whole system in both directions
    let cells: [(Proto, &str, &str); 9] = [
        (Proto::Trojan, "aes-128-gcm", "server"),
        (Proto::Vmess, "aes-128-gcm", "server"),
        (Proto::Vmess, "chacha20-poly1305", "server"),
        (Proto::Vmess, "aes-128-gcm", "system-c2s"),
        (Proto::Vmess, "aes-128-gcm", "system-s2c"),
        (Proto::Vmess, "chacha20-poly1305", "system-c2s"),
        (Proto::Vmess, "chacha20-poly1305", "system-s2c"),
        (Proto::Trojan, "aes-128-gcm", "server"),
        (Proto::Vmess, "aes-128-gcm", "server"),
    ];
    let (proto, cipher, part) = if prop == "C05" { [(Proto::Vmess, "aes-128-gcm", "server"), (Proto::Vmess, "chacha20-poly1305", "server")][seed as usize % 2] } else { cells[seed as usize % cells.len()] };
    let mut config = gen_config(&mut g, proto, cipher, Transport::Tcp, 0);
    config.client_mode = "tcp_and_udp".into();
    let k = if prop == "C05" { g.range(3, 6) } else { g.range(2, 4) } as usize;
    let frames: Vec<(bool, usize)> = (0..k).map(|i| (i % 2 == 1 || g.chance(40), *g.pick(&[0usize, 1, 2, 17, 120, 300]))).collect();
    Plan {
        property: prop.into(),
        scenario: "dgram-in-stream".into(),
        seed,
        net_seed: g.next(),
        config,
        knobs: KnobsPlan::simple(),
        flows: vec![],
        extra: serde_json::json!({ "part": part, "frames": frames, "multi_samples": if thorough { 200 } else { 30 }, "sub_seed": g.next() }),
    }
}

#[derive(Default, Clone)]
struct Got {
    /// datagrams the target received: payloads in arrival order
    at_target: Vec<Vec<u8>>,
    /// bytes that came back on the stream
    back: Vec<u8>,
    quiet_ok: bool,
}

fn frame_payload(tag: u32, ix: usize, size: usize) -> Vec<u8> {
    let mut v = format!("{tag:06}/{ix}").into_bytes();
    v.extend(payload(ix, 3, tag as usize, size));
    v
}

/// one connection of the reference client: handshake + frames, delivered with the given cuts
async fn run_server_case(c: &Creds, g: &mut Gen, frames: &[(bool, usize)], tag: u32, cuts: &[usize], bytewise: bool, log: &Arc<Mutex<Vec<Vec<u8>>>>) -> (Got, usize, usize) {
    let (got, n, head, _) = run_server_case_with(c, g, frames, tag, cuts, bytewise, None, log).await;
    (got, n, head)
}

/// `flip`: (offset, mask) applied to the stream before it is sent (C05); also returns where each frame ends in the stream
#[allow(clippy::too_many_arguments)]
async fn run_server_case_with(c: &Creds, g: &mut Gen, frames: &[(bool, usize)], tag: u32, cuts: &[usize], bytewise: bool, flip: Option<(usize, u8)>, log: &Arc<Mutex<Vec<Vec<u8>>>>) -> (Got, usize, usize, Vec<usize>) {
    let mut ends: Vec<usize> = Vec::new();
    let addr_of = |by_name: bool| if by_name { Addr::Name(U_NAME.as_bytes().to_vec(), U_PORT) } else { Addr::V4(U_IP, U_PORT) };
    let mut wire;
    let head_len;
    match c.proto {
        Proto::Trojan => {
            wire = refimpl::trojan::request(&c.password, 3, &addr_of(false), b"");
            head_len = wire.len();
            for (i, (by_name, size)) in frames.iter().enumerate() {
                wire.extend(refimpl::trojan::udp_packet(&addr_of(*by_name), &frame_payload(tag, i, *size)));
                ends.push(wire.len());
            }
        }
        _ => {
            // VMess: the header names the target, every datagram is one body chunk; the first chunk goes with the header
            let opts = ClientOpts { command: Some(2), ..Default::default() };
            let (mut cl, w) = RefClient::start(c, g, unix_now(), &addr_of(frames[0].0), &frame_payload(tag, 0, frames[0].1), &opts);
            wire = w;
            // the sealed header length is what precedes the first chunk: measure it with an empty first datagram of the same session
            head_len = wire.len().saturating_sub(frames[0].1 + 64);
            ends.push(wire.len());
            for (i, (_, size)) in frames.iter().enumerate().skip(1) {
                wire.extend(cl.write(&frame_payload(tag, i, *size)));
                ends.push(wire.len());
            }
        }
    }
    if let Some((at, mask)) = flip {
        if at < wire.len() {
            wire[at] ^= mask;
        }
    }
    let before = log.lock().unwrap().len();
    let mut got = Got::default();
    let Ok(mut s) = TcpStream::connect(server_addr()).await else { return (got, wire.len(), head_len, ends) };
    s.set_own_styles(0, 0);
    s.set_peer_read_style(0);
    let mut from = 0usize;
    let mut bounds: Vec<usize> = if bytewise { (1..wire.len()).collect() } else { cuts.to_vec() };
    bounds.push(wire.len());
    for b in bounds {
        if b > from && b <= wire.len() {
            if s.write_all(&wire[from..b]).await.is_err() {
                break;
            }
            from = b;
            tokio::time::sleep(Duration::from_millis(if bytewise { 2 } else { 150 })).await;
        }
    }
    tokio::time::sleep(Duration::from_millis(300)).await;
    // what came back (echoes as frames)
    let mut buf = vec![0u8; 65536];
    while let Ok(Ok(n)) = tokio::time::timeout(Duration::from_millis(20), s.read(&mut buf)).await {
        if n == 0 {
            break;
        }
        got.back.extend_from_slice(&buf[..n]);
    }
    got.at_target = log.lock().unwrap()[before..].to_vec();
    got.quiet_ok = true;
    (got, wire.len(), head_len, ends)
}

async fn dgram_target(log: Arc<Mutex<Vec<Vec<u8>>>>) {
    let Ok(u) = UdpSocket::bind(SocketAddr::new(IpAddr::V4(Ipv4Addr::from(U_IP)), U_PORT)).await else { return };
    let mut buf = vec![0u8; 65536];
    loop {
        let Ok((n, from)) = u.recv_from(&mut buf).await else { return };
        log.lock().unwrap().push(buf[..n].to_vec());
        let _ = u.send_to(&buf[..n], from).await;
    }
}

fn execute_server_part(plan: &Plan) -> Outcome {
    let prop = plan.property.clone();
    let c = creds(&plan.config);
    let cell = plan.config.family();
    let frames: Vec<(bool, usize)> = serde_json::from_value(plan.extra["frames"].clone()).unwrap_or_default();
    let only: Option<Vec<usize>> = plan.extra.get("only_cuts").and_then(|v| serde_json::from_value(v.clone()).ok());
    let samples = plan.extra["multi_samples"].as_u64().unwrap_or(20);
    let mut g = Gen::new(plan.extra["sub_seed"].as_u64().unwrap_or(5), 41);
    let out = rt::run_sim(plan.seed, plan.net_seed, plan.knobs.to_knobs(), || async {
        let mut findings: Vec<(String, String, Vec<usize>)> = Vec::new();
        let mut evals = 0u64;
        world::with(|w| {
            w.zone.insert(U_NAME.to_owned(), Some(IpAddr::V4(Ipv4Addr::from(U_IP))));
        });
        let log = Arc::new(Mutex::new(Vec::new()));
        let _t = spawn_scoped(dgram_target(log.clone()));
        tokio::task::yield_now().await;
        let server = start_server_json(plan.config.server_json());
        tokio::task::yield_now().await;
        if !settle(|| tcp_listening(SERVER_PORT)).await {
            return (Some(format!("server did not come up (finished={})", server.is_finished())), findings, evals);
        }
        let want = |tag: u32| -> Vec<Vec<u8>> { frames.iter().enumerate().map(|(i, (_, size))| frame_payload(tag, i, *size)).collect() };
        let (base, n, head) = run_server_case(&c, &mut g, &frames, 0, &[], false, &log).await;
        evals += 1;
        if base.at_target != want(0) {
            findings.push(("baseline".into(), format!("unsegmented: the target received {} of {} datagrams ({} identical)", base.at_target.len(), frames.len(), base.at_target.iter().zip(want(0).iter()).filter(|(a, b)| a == b).count()), vec![]));
            return (None, findings, evals);
        }
        if prop == "C05" {
            // tampering: one bit flipped at every byte position of the stream (bit drawn); the connection is the attacker's to
            // shape, so the tampered stream arrives whole, or cut right behind the last intact frame. Whatever reaches the
            // target is a prefix of what was sent and ends before the frame that holds the flipped byte.
            let flips: Vec<usize> = match plan.extra.get("only_flip").and_then(|v| v.as_u64()) {
                Some(k) => vec![k as usize],
                None => (0..n).collect(),
            };
            for (i, at) in flips.iter().enumerate() {
                let tag = i as u32 + 1;
                let mask = 1u8 << g.below(8);
                // where the frames end is the same for every tag (sizes are fixed): measured on this very stream
                let (got, _, _, ends) = run_server_case_with(&c, &mut g, &frames, tag, &[], false, Some((*at, mask)), &log).await;
                evals += 1;
                let w = want(tag);
                let allowed = ends.iter().filter(|e| **e <= *at).count();
                let is_prefix = got.at_target.len() <= w.len() && got.at_target.iter().zip(w.iter()).all(|(a, b)| a == b);
                // (VMess leaves the random padding behind every chunk unauthenticated by design: a flip there changes nothing, so
                // "no more than the frames that precede the flipped byte" cannot be demanded - the prefix rule can)
                let _ = allowed;
                let oracle = if !is_prefix { Some("not-a-prefix") } else { None };
                if let Some(oracle) = oracle {
                    if !findings.iter().any(|f| f.0 == oracle) {
                        findings.push((oracle.into(), format!("bit {mask:#04x} of byte {at} of {n} flipped (frames end at {ends:?}): the target received {} datagrams, {} of them identical to what was sent; at most {allowed} precede the tampered byte", got.at_target.len(), got.at_target.iter().zip(w.iter()).filter(|(a, b)| a == b).count()), vec![*at]));
                    }
                }
            }
            return (None, findings, evals);
        }
        let mut cases: Vec<(Vec<usize>, bool)> = Vec::new();
        if let Some(cuts) = &only {
            cases.push((cuts.clone(), cuts.is_empty()));
        } else {
            for k in 1..n {
                cases.push((vec![k], false));
            }
            cases.push((vec![], true));
            for _ in 0..samples {
                let m = g.range(2, 8) as usize;
                let mut cuts: Vec<usize> = (0..m).map(|_| g.range(1, n as u64 - 1) as usize).collect();
                cuts.sort();
                cuts.dedup();
                cases.push((cuts, false));
            }
        }
        for (i, (cuts, bytewise)) in cases.iter().enumerate() {
            let tag = i as u32 + 1;
            let (got, _, _) = run_server_case(&c, &mut g, &frames, tag, cuts, *bytewise, &log).await;
            evals += 1;
            let w = want(tag);
            if got.at_target != w {
                let what = if *bytewise { "byte at a time".to_owned() } else { format!("cuts {cuts:?} of {n} (handshake ends near {head})") };
                let oracle = if got.at_target.len() < w.len() { "datagrams-missing" } else if got.at_target.len() > w.len() { "datagrams-extra" } else { "datagrams-altered" };
                if !findings.iter().any(|f| f.0 == oracle) {
                    findings.push((oracle.into(), format!("{what}: the target received {} datagrams, the unsegmented stream delivers {}; first difference at datagram {}", got.at_target.len(), w.len(), got.at_target.iter().zip(w.iter()).position(|(a, b)| a != b).unwrap_or(got.at_target.len().min(w.len()))), cuts.clone()));
                }
            }
        }
        (None, findings, evals)
    });
    let (startup, findings, evals) = out.result.clone();
    let mut v = Vec::new();
    if let Some(e) = startup {
        v.push(Violation::new(&prop, format!("{prop}/dgram-stream-startup/{cell}"), e));
    }
    if prop == "C04" {
        for (oracle, detail, cuts) in &findings {
            v.push(Violation::new("C04", format!("C04/dgram-in-stream/{oracle}/{cell}/c2s"), detail.clone()).with_patch(serde_json::json!({ "only_cuts": cuts })));
        }
    }
    if prop == "C05" {
        for (oracle, detail, at) in &findings {
            v.push(Violation::new("C05", format!("C05/dgram-in-stream/{oracle}/{cell}/c2s"), detail.clone()).with_patch(serde_json::json!({ "only_flip": at.first().copied().unwrap_or(0) })));
        }
    }
    for p in &out.panics {
        let sig = format!("{prop}/panic/{cell}/dgram-in-stream/{}", p.frame);
        if !v.iter().any(|x: &Violation| x.signature == sig) {
            v.push(Violation::new(&prop, sig, format!("datagram frames in a segmented stream: panic in node {}: {} at {}", p.node, p.message, p.location)));
        }
    }
    let mut probes = BTreeMap::new();
    probes.insert("dgram_stream_segmentations".to_owned(), evals);
    probes.insert("dgram_frames".to_owned(), frames.len() as u64);
    Outcome {
        violations: v,
        ev_hash: out.world.ev_hash,
        ev_count: out.world.ev_count,
        poll_hash: out.poll_hash,
        polls: out.polls,
        sim_ns: out.sim_ns,
        stats: crate::report::world_stats(&out.world),
        nontrivial: evals > 1,
        case_hash: out.poll_hash ^ plan.seed.wrapping_mul(0x9E3779B97F4A7C15),
        probes,
        panics: out.panics,
        extra_evaluations: evals,
        extra_cases: (0..evals).map(|i| plan.seed.wrapping_mul(1_000_003).wrapping_add(i)).collect(),
    }
}

/// real client + real server, VMess datagrams over a plain tcp carrier that the man-in-the-middle node cuts
fn execute_system_part(plan: &Plan, dir: &str) -> Outcome {
    let prop = plan.property.clone();
    let cell = plan.config.label();
    let frames: Vec<(bool, usize)> = serde_json::from_value(plan.extra["frames"].clone()).unwrap_or_default();
    let only: Option<Vec<u64>> = plan.extra.get("only_cuts").and_then(|v| serde_json::from_value(v.clone()).ok());
    let targets = vec![
        UdpTarget { ip: U_IP, port: U_PORT, name: None, replies: 1, reply_size: 40 },
        UdpTarget { ip: U_IP, port: U_PORT + 1, name: Some(U_NAME.to_owned()), replies: 1, reply_size: 300 },
    ];
    let ops: Vec<UdpOp> = frames.iter().enumerate().flat_map(|(i, (by_name, size))| [UdpOp::Send { t: *by_name as usize, size: (*size).max(9) }, UdpOp::Pause(if i % 2 == 0 { 0 } else { 30 })]).collect();
    let up = UdpPlan { apps: vec![ops], targets, loss_pm: 0, dup_pm: 0, reorder_pm: 0, second_client_password: None, send_faults: false };
    let run_one = |script: DirScript| {
        let (c2s, s2c) = if dir == "c2s" { (script, DirScript::default()) } else { (DirScript::default(), script) };
        rt::run_sim(plan.seed, plan.net_seed, plan.knobs.to_knobs(), || async {
            let pobs = Arc::new(Mutex::new(crate::proxy::ProxyObs::default()));
            let _proxy = spawn_scoped(crate::proxy::run_proxy(c2s, s2c, pobs.clone()));
            let run = run_udp_system_via(plan, &up, crate::proxy::PROXY_PORT).await;
            let o = pobs.lock().unwrap();
            let n = if dir == "c2s" { o.c2s.iter().map(|v| v.len()).max().unwrap_or(0) } else { o.s2c.iter().map(|v| v.len()).max().unwrap_or(0) };
            (run, n as u64)
        })
    };
    let mut violations: Vec<Violation> = Vec::new();
    let mut evals = 0u64;
    let (mut sim_ns, mut polls, mut ev_count) = (0u64, 0u64, 0u64);
    let mut panics = Vec::new();
    let base = run_one(DirScript::default());
    let n = base.result.1;
    sim_ns += base.sim_ns;
    polls += base.polls;
    ev_count += base.world.ev_count;
    let base_v = check_udp(&prop, plan, &up, &base.result.0);
    let baseline_ok = base_v.is_empty() && base.panics.is_empty() && n > 1;
    let mut cases: Vec<Vec<u64>> = Vec::new();
    if let Some(c) = only {
        cases.push(c);
    } else if baseline_ok {
        for k in 1..n {
            cases.push(vec![k]);
        }
        cases.push(vec![]);
    }
    for cuts in cases {
        let script = if cuts.is_empty() { DirScript { bytewise: true, gap_ms: 2, ..Default::default() } } else { DirScript { cuts: cuts.clone(), gap_ms: 150, ..Default::default() } };
        let r = run_one(script);
        evals += 1;
        sim_ns += r.sim_ns;
        polls += r.polls;
        ev_count += r.world.ev_count;
        for mut v in check_udp(&prop, plan, &up, &r.result.0) {
            v.signature = v.signature.replacen(&format!("{prop}/"), &format!("{prop}/dgram-in-stream/"), 1) + "/" + dir;
            v.detail = format!("carrier cut at {cuts:?} of {n}: {}", v.detail);
            if prop == "C04" && !violations.iter().any(|x| x.signature == v.signature) {
                violations.push(v.with_patch(serde_json::json!({ "only_cuts": cuts })));
            }
        }
        for p in &r.panics {
            let sig = format!("{prop}/panic/{cell}/dgram-in-stream/{}", p.frame);
            if !violations.iter().any(|x| x.signature == sig) {
                violations.push(Violation::new(&prop, sig, format!("carrier cut at {cuts:?} of {n}: panic in node {}: {} at {}", p.node, p.message, p.location)).with_patch(serde_json::json!({ "only_cuts": cuts })));
            }
        }
        panics.extend(r.panics);
    }
    if !baseline_ok && prop == "C04" {
        violations.push(Violation::new("C04", format!("C04/dgram-in-stream/baseline/{cell}/{dir}"), format!("unsegmented run: {:?} (stream of {n} bytes, {} panics)", base_v.iter().map(|v| v.signature.clone()).collect::<Vec<_>>(), base.panics.len())));
    }
    let mut probes = BTreeMap::new();
    probes.insert("dgram_stream_segmentations".to_owned(), evals);
    probes.insert("dgram_stream_bytes".to_owned(), n);
    Outcome {
        violations,
        ev_hash: base.world.ev_hash,
        ev_count,
        poll_hash: base.poll_hash,
        polls,
        sim_ns,
        stats: crate::report::world_stats(&base.world),
        nontrivial: baseline_ok,
        case_hash: base.poll_hash ^ plan.seed.wrapping_mul(0x9E3779B97F4A7C15),
        probes,
        panics,
        extra_evaluations: evals,
        extra_cases: (0..evals).map(|i| plan.seed.wrapping_mul(1_000_033).wrapping_add(i)).collect(),
    }
}

pub fn execute_ustream(plan: &Plan) -> Outcome {
    match plan.extra["part"].as_str().unwrap_or("server") {
        "system-c2s" => execute_system_part(plan, "c2s"),
        "system-s2c" => execute_system_part(plan, "s2c"),
        _ => execute_server_part(plan),
    }
}
