"""Per-property description of the registered checks (used by ./check)."""

REAL_SYSTEM = [
    "octo-squirrel-client client::main() (accept loop, local SOCKS5/HTTP handshake, relay templates, codecs)",
    "octo-squirrel-server server::main() (accept loops, relay templates, codecs, user manager)",
    "octo-squirrel library (all codecs, WebSocketFramed, packet window, address codecs)",
    "tokio current-thread scheduler, timers and mpsc; tokio-util Framed/codec",
    "tokio-rustls + rustls + aws-lc-rs (tls, wss)", "tokio-websockets (ws, wss)", "httparse",
]
STUB_SYSTEM = [
    "kernel TCP/UDP sockets and listeners (simulated: /verif/seam/net.rs)",
    "DNS (simulated zone)", "wall clock (simulated epoch + paused tokio clock)",
    "monotonic clock source of lru_time_cache (vendored copy, tokio::time::Instant)",
    "OS entropy (seeded getrandom backend)", "config file / logger (handed over by the harness)",
    "multi-thread parallelism (one thread per world; thread-level sharing is covered by the shuttle engine only)",
    "QUIC transport (not simulated)",
    "local applications, targets, attackers (harness scripts)",
]
ASSUME_SYSTEM = [
    "the simulated kernel only does what a real kernel may do (any positive read size, writes refused only when the buffer is full, finite delays, FIN after data, RST only when injected or after a write to a closed peer)",
    "sampling: a clean batch is evidence, not proof",
    "task interleavings are explored on one thread (tokio current_thread with a seeded scheduler)",
    "rustls/aws-lc randomness is not seeded; only record sizes (fixed) can influence a schedule",
]

CHECKS = {
    "C01": {
        "level": "exploration",
        "parts": [{"gen": "C01", "quick": 1920, "thorough": 48000, "quick_deadline_s": 420, "thorough_deadline_s": 3000}],
        "rule": "one run = real client + real server mains on the simulated network, 1-4 (thorough 1-12) concurrent scripted flows; the configuration cell "
                "(protocol x cipher x tcp/tls/ws/wss) cycles with the seed, local handshake kind, traffic scripts, endings and network knobs are drawn from the seed; "
                "non-trivial = at least one byte relayed end to end; distinct = distinct (plan shape, task-poll order) hashes",
        "real": REAL_SYSTEM, "stub": STUB_SYSTEM, "assumptions": ASSUME_SYSTEM + [
            "local handshakes are delivered atomically in this check (their segmentation is C13's subject)",
            "Shadowsocks 2022 first flight is delivered in one read (the boundary the properties exempt)",
            "an application or target that stops writing half-closes; an abortive close with answers in flight belongs to C15",
        ],
    },
}
