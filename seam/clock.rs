//! Simulated wall clock (hook H4): a fixed epoch plus the simulated monotonic
//! time plus an offset the harness may move (clock jumps). Outside a world
//! (e.g. the shuttle engine) it falls back to a fixed instant.

use super::world;

pub const FALLBACK_UNIX: u64 = 1_767_225_600;

pub fn unix_now() -> u64 {
    world::try_with(|w| {
        let elapsed = (w.now_ns() / 1_000_000_000) as i64;
        (w.epoch_unix as i64 + elapsed + w.clock_offset_s) as u64
    })
    .unwrap_or(FALLBACK_UNIX)
}
