//! One simulated run: a single-threaded tokio runtime with a paused clock and a
//! seeded scheduler, the simulated world installed in the thread, task → node
//! attribution through the runtime's task hooks, and a process-wide panic
//! monitor.

use std::cell::RefCell;
use std::collections::HashMap;
use std::future::Future;
use std::sync::Mutex;
use std::sync::Once;

use octo_squirrel::verif::world;
use octo_squirrel::verif::world::Knobs;
use octo_squirrel::verif::world::World;
use tokio::runtime::Builder;
use tokio::runtime::RngSeed;
use tokio::task::JoinHandle;

pub use octo_squirrel::verif::world::NODE_CLIENT;
pub use octo_squirrel::verif::world::NODE_CLIENT2;
pub use octo_squirrel::verif::world::NODE_HARNESS;
pub use octo_squirrel::verif::world::NODE_SERVER;

#[derive(Default)]
struct TaskTable {
    nodes: HashMap<tokio::task::Id, (u64, u8)>,
    spawned: u64,
    alive: i64,
    alive_by_node: [i64; 8],
    polls: u64,
    poll_hash: u64,
    ended: Vec<(u64, u8)>,
}

thread_local! {
    static TASKS: RefCell<TaskTable> = RefCell::new(TaskTable::default());
}

#[derive(Clone, Debug, serde::Serialize, serde::Deserialize, PartialEq)]
pub struct PanicRec {
    pub message: String,
    pub location: String,
    /// first frame inside the octo_squirrel* crates (function path, no line number)
    pub frame: String,
    pub node: u8,
}

static PANICS: Mutex<Vec<(std::thread::ThreadId, PanicRec)>> = Mutex::new(Vec::new());
static HOOK: Once = Once::new();

/// where the sources of the code under test live ("/repo/"; a scratch worktree when a seeded change is evaluated off-tree)
fn repo_prefix() -> &'static str {
    static P: std::sync::OnceLock<String> = std::sync::OnceLock::new();
    P.get_or_init(|| std::env::var("VERIF_REPO_PREFIX").unwrap_or_else(|_| "/repo/".to_owned()))
}

fn first_repo_frame(bt: &str) -> String {
    // backtrace text: "  NN: function\n             at file:line:col"; the release build carries line tables only,
    // so the function name is short and the file path identifies the place. Line numbers are left out on purpose.
    let mut func = "";
    for line in bt.lines() {
        let l = line.trim();
        if let Some(rest) = l.strip_prefix("at ") {
            if let Some(path) = rest.strip_prefix(repo_prefix()) {
                let file = path.split(':').next().unwrap_or(path);
                return format!("{file}#{func}");
            }
        } else if let Some((_, f)) = l.split_once(": ") {
            func = f.split('<').next().unwrap_or(f);
        }
    }
    String::from("?")
}

pub fn install_panic_hook() {
    HOOK.call_once(|| {
        std::panic::set_hook(Box::new(|info| {
            let message = if let Some(s) = info.payload().downcast_ref::<&str>() {
                (*s).to_owned()
            } else if let Some(s) = info.payload().downcast_ref::<String>() {
                s.clone()
            } else {
                String::from("<non-string panic>")
            };
            // a panic message can embed bytes that are not UTF-8 (it did: a str made with from_utf8_unchecked)
            let message = String::from_utf8_lossy(message.as_bytes()).into_owned();
            let location = info.location().map(|l| format!("{}:{}", l.file(), l.line())).unwrap_or_default();
            let bt = std::backtrace::Backtrace::force_capture().to_string();
            let mut frame = first_repo_frame(&bt);
            // a panic raised inside a dependency is identified by the dependency's file as well (crate-version/.../file, no line)
            if !location.starts_with(repo_prefix()) && !location.starts_with("octo-squirrel") {
                let file = location.rsplit_once(':').map(|(f, _)| f).unwrap_or(&location);
                let tail: Vec<&str> = file.rsplit('/').take(4).collect();
                let tail: Vec<&str> = tail.into_iter().rev().collect();
                frame = format!("{frame}@{}", tail.join("/"));
            }
            let node = world::current_node();
            let harness_bug = location.starts_with("src/") || location.contains("/verif/");
            if harness_bug {
                eprintln!("HARNESS PANIC {message} at {location}");
            }
            if std::env::var_os("VERIF_PANIC_TRACE").is_some() {
                eprintln!("PANIC node={node} {message} at {location}\n{bt}");
            }
            PANICS.lock().unwrap().push((std::thread::current().id(), PanicRec { message, location, frame, node }));
        }));
    });
}

/// number of panics recorded for this thread so far (without consuming them)
pub fn peek_panics() -> usize {
    let me = std::thread::current().id();
    PANICS.lock().unwrap().iter().filter(|(t, _)| *t == me).count()
}

pub fn take_panics() -> Vec<PanicRec> {
    let me = std::thread::current().id();
    let mut all = PANICS.lock().unwrap();
    let mut mine = Vec::new();
    all.retain(|(t, p)| {
        if *t == me {
            mine.push(p.clone());
            false
        } else {
            true
        }
    });
    mine
}

/// Spawn a task that belongs to `node` (its children inherit the node).
pub fn spawn_as<F>(node: u8, fut: F) -> JoinHandle<F::Output>
where
    F: Future + Send + 'static,
    F::Output: Send + 'static,
{
    let prev = world::set_current_node(node);
    let h = tokio::spawn(fut);
    world::set_current_node(prev);
    h
}

pub fn alive_tasks() -> i64 {
    TASKS.with(|t| t.borrow().alive)
}

pub fn alive_tasks_of(node: u8) -> i64 {
    TASKS.with(|t| t.borrow().alive_by_node[node as usize & 7])
}

/// tasks that have terminated so far: (spawn ordinal, node)
pub fn ended_tasks() -> Vec<(u64, u8)> {
    TASKS.with(|t| t.borrow().ended.clone())
}

pub struct RunOutput<R> {
    pub result: R,
    pub world: World,
    pub panics: Vec<PanicRec>,
    pub polls: u64,
    pub poll_hash: u64,
    pub tasks_spawned: u64,
    pub sim_ns: u64,
    pub entropy_draws: u64,
}

// ---------------------------------------------------------------- livelock watchdog
//
// A task that spins without ever returning `Pending` (or a set of tasks that keep waking each other while no
// simulated time can pass) never hands control back to the simulator: the run would hang in real time. A watchdog
// OS thread reports the plan being executed as a livelock when (a) the task poll in progress started more than
// VERIF_POLL_LIMIT_S (20 s) of wall time ago - a poll takes microseconds - or (b) a world is in progress and for
// VERIF_WORLD_STALL_S (180 s) of wall time neither a socket event was logged nor simulated time passed, although
// the runtime is not idle. A world that is merely *slow* (a thorough plan with a dozen multi-MiB flows through
// one-byte windows on a loaded machine takes minutes) keeps making progress and is never reported as a livelock;
// after VERIF_WORLD_HARD_LIMIT_S (2 h) it is abandoned and counted, which is not a violation.

use std::sync::atomic::AtomicU64;
use std::sync::atomic::Ordering;

static POLL_START_MS: AtomicU64 = AtomicU64::new(0);
static WORLD_START_MS: AtomicU64 = AtomicU64::new(0);
/// socket events logged + simulated nanoseconds of the world in progress (anything that changes when the system moves)
static WORLD_PROGRESS: AtomicU64 = AtomicU64::new(0);

fn wall_ms() -> u64 {
    // the kernel's monotonic clock, not the simulated reading `std::time::Instant` gives on a simulation thread
    crate::clock::real_ms() + 1
}

/// Start the watchdog thread; `report(kind, seconds)` is called once, from the watchdog thread, and must not return.
pub fn start_watchdog(report: impl Fn(&str, u64) + Send + 'static) {
    let poll_limit_ms = std::env::var("VERIF_POLL_LIMIT_S").ok().and_then(|s| s.parse::<u64>().ok()).unwrap_or(20) * 1000;
    let stall_limit_ms = std::env::var("VERIF_WORLD_STALL_S").ok().and_then(|s| s.parse::<u64>().ok()).unwrap_or(180) * 1000;
    let hard_limit_ms = std::env::var("VERIF_WORLD_HARD_LIMIT_S").ok().and_then(|s| s.parse::<u64>().ok()).unwrap_or(7200) * 1000;
    wall_ms();
    std::thread::spawn(move || {
        let (mut seen_world, mut seen_progress, mut changed_at) = (0u64, 0u64, 0u64);
        loop {
            std::thread::sleep(std::time::Duration::from_millis(250));
            let now = wall_ms();
            let p = POLL_START_MS.load(Ordering::Relaxed);
            if p != 0 && now.saturating_sub(p) > poll_limit_ms {
                report("one task poll never returned", (now - p) / 1000);
            }
            let w = WORLD_START_MS.load(Ordering::Relaxed);
            if w == 0 {
                seen_world = 0;
                continue;
            }
            let progress = WORLD_PROGRESS.load(Ordering::Relaxed);
            if w != seen_world || progress != seen_progress {
                seen_world = w;
                seen_progress = progress;
                changed_at = now;
            }
            if now.saturating_sub(changed_at) > stall_limit_ms {
                report("one simulated world made no progress (no socket event, no simulated time)", (now - changed_at) / 1000);
            }
            if now.saturating_sub(w) > hard_limit_ms {
                report("slow-world", (now - w) / 1000);
            }
        }
    });
}

/// Run `f` to completion inside a fresh simulated world.
pub fn run_sim<F, Fut, R>(seed: u64, net_seed: u64, knobs: Knobs, f: F) -> RunOutput<R>
where
    F: FnOnce() -> Fut,
    Fut: Future<Output = R>,
{
    install_panic_hook();
    let _ = take_panics();
    crate::entropy::reseed(seed);
    let draws0 = crate::entropy::draws();
    TASKS.with(|t| *t.borrow_mut() = TaskTable::default());
    world::set_current_node(NODE_HARNESS);

    let mut seed_bytes = [0u8; 32];
    for (i, b) in seed_bytes.iter_mut().enumerate() {
        *b = (seed.rotate_left((i as u32 * 7) % 64) as u8) ^ (i as u8).wrapping_mul(31);
    }
    crate::clock::begin();
    world::set_clock_sink(crate::clock::set_elapsed);
    let rt = Builder::new_current_thread()
        .enable_time()
        .start_paused(true)
        .rng_seed(RngSeed::from_bytes(&seed_bytes))
        .on_task_spawn(|meta| {
            let node = world::current_node();
            TASKS.with(|t| {
                let mut t = t.borrow_mut();
                let ord = t.spawned;
                t.spawned += 1;
                t.alive += 1;
                t.alive_by_node[node as usize & 7] += 1;
                t.nodes.insert(meta.id(), (ord, node));
            });
        })
        .on_before_task_poll(|meta| {
            TASKS.with(|t| {
                let mut t = t.borrow_mut();
                POLL_START_MS.store(wall_ms(), Ordering::Relaxed);
                // the paused clock only moves between polls: this is the reading `std::time::Instant` gives during the poll
                if let Some((ns, ev)) = world::try_with(|w| (w.now_ns(), w.ev_count)) {
                    crate::clock::set_elapsed(ns);
                    WORLD_PROGRESS.store(ns.wrapping_add(ev), Ordering::Relaxed);
                }
                if let Some(&(ord, node)) = t.nodes.get(&meta.id()) {
                    world::set_current_node(node);
                    t.polls += 1;
                    t.poll_hash = (t.poll_hash ^ ord).wrapping_mul(0x100000001b3).rotate_left(5);
                }
            });
        })
        .on_after_task_poll(|_| {
            POLL_START_MS.store(0, Ordering::Relaxed);
            world::set_current_node(NODE_HARNESS);
        })
        .on_task_terminate(|meta| {
            TASKS.with(|t| {
                let mut t = t.borrow_mut();
                if let Some((ord, node)) = t.nodes.remove(&meta.id()) {
                    t.alive -= 1;
                    t.alive_by_node[node as usize & 7] -= 1;
                    t.ended.push((ord, node));
                }
            });
        })
        .build()
        .expect("runtime");

    WORLD_START_MS.store(wall_ms(), Ordering::Relaxed);
    let (result, sim_ns) = rt.block_on(async {
        // the world's clock starts with the runtime's (paused) clock
        world::install(World::new(net_seed, knobs));
        let r = f().await;
        let sim_ns = world::with(|w| {
            w.drop_timers();
            w.frozen = true;
            w.now_ns()
        });
        (r, sim_ns)
    });
    drop(rt);
    crate::clock::end();
    WORLD_START_MS.store(0, Ordering::Relaxed);
    POLL_START_MS.store(0, Ordering::Relaxed);
    let world = world::uninstall().expect("world");
    let (polls, poll_hash, tasks_spawned) = TASKS.with(|t| {
        let t = t.borrow();
        (t.polls, t.poll_hash, t.spawned)
    });
    RunOutput { result, world, panics: take_panics(), polls, poll_hash, tasks_spawned, sim_ns, entropy_draws: crate::entropy::draws() - draws0 }
}

// ---------------------------------------------------------------- optional tracing of the code under test

struct StderrLog;

impl log::Log for StderrLog {
    fn enabled(&self, _: &log::Metadata) -> bool {
        true
    }

    fn log(&self, record: &log::Record) {
        let t = world::try_with(|w| w.now_ns()).unwrap_or(0);
        eprintln!("[{:>12.6}s n{}] {:<5} {}: {}", t as f64 / 1e9, world::current_node(), record.level(), record.target(), record.args());
    }

    fn flush(&self) {}
}

static LOGGER: StderrLog = StderrLog;

/// `VERIF_LOG=debug|trace|info` prints the log output of /repo with simulated time and node (never touches a PRNG or a real clock).
pub fn init_tracing() {
    if let Ok(level) = std::env::var("VERIF_LOG") {
        let lf = match level.as_str() {
            "trace" => log::LevelFilter::Trace,
            "info" => log::LevelFilter::Info,
            _ => log::LevelFilter::Debug,
        };
        let _ = log::set_logger(&LOGGER);
        log::set_max_level(lf);
    }
}
