"""Per-property description of the registered checks (used by ./check)."""

REAL_SYSTEM = [
    "octo-squirrel-client client::main() (accept loop, local SOCKS5/HTTP handshake, relay templates, codecs)",
    "octo-squirrel-server server::main() (accept loops, relay templates, codecs, user manager)",
    "octo-squirrel library (all codecs, WebSocketFramed, packet window, address codecs)",
    "tokio current-thread scheduler, timers and mpsc; tokio-util Framed/codec",
    "tokio-rustls + rustls + aws-lc-rs (tls, wss)", "tokio-websockets (ws, wss)", "httparse", "quinn + quinn-proto (quic cells)",
]
STUB_SYSTEM = [
    "kernel TCP/UDP sockets and listeners (simulated: /verif/seam/net.rs)",
    "DNS (simulated zone)", "wall clock (simulated epoch + paused tokio clock)",
    "monotonic clock source of lru_time_cache (vendored copy, tokio::time::Instant)",
    "OS entropy (seeded getrandom backend)", "config file / logger (handed over by the harness)",
    "multi-thread parallelism (one thread per world; thread-level sharing is covered by the shuttle engine only)",
    "QUIC: real quinn-proto / rustls-over-QUIC run; only their kernel UDP socket is the simulated datagram socket (hook H2), timers follow the paused clock",
    "local applications, targets, attackers (harness scripts)",
]
ASSUME_SYSTEM = [
    "the simulated kernel only does what a real kernel may do (any positive read size, writes refused only when the buffer is full, finite delays, FIN after data, RST only when injected or after a write to a closed peer)",
    "sampling: a clean batch is evidence, not proof",
    "task interleavings are explored on one thread (tokio current_thread with a seeded scheduler)",
    "rustls/aws-lc randomness is not seeded; only record sizes (fixed) can influence a schedule",
]

CHECKS = {
    "C01": {
        "level": "exploration",
        "parts": [{"gen": "C01", "quick": 1920, "thorough": 48000, "quick_deadline_s": 420, "thorough_deadline_s": 3000}],
        "rule": "one run = real client + real server mains on the simulated network, 1-4 (thorough 1-12) concurrent scripted flows; the configuration cell "
                "(protocol x cipher x tcp/tls/ws/wss) cycles with the seed, local handshake kind, traffic scripts, endings and network knobs are drawn from the seed; "
                "non-trivial = at least one byte relayed end to end; distinct = distinct (plan shape, task-poll order) hashes",
        "real": REAL_SYSTEM, "stub": STUB_SYSTEM, "assumptions": ASSUME_SYSTEM + [
            "local handshakes are delivered atomically in this check (their segmentation is C13's subject)",
            "Shadowsocks 2022 first flight is delivered in one read (the boundary the properties exempt)",
            "an application or target that stops writing half-closes; an abortive close with answers in flight belongs to C15",
        ],
    },
    "C04": {
        "level": "fault_enumeration",
        "parts": [{"gen": "C04", "quick": 264, "thorough": 2640}, {"gen": "C04udp", "quick": 36, "thorough": 360}],
        "exhaustive_claim": False,
        "rule": "one plan = one (protocol, cipher, single/multi-user) cell x direction (client->server or server->client) x segmentation family; the real client and server run with a "
                "man-in-the-middle node on their link that forwards the byte stream in exact pieces and lets the receiver go quiet after each piece (no EOF at the end). Families: "
                "every single cut point 1..n-1 of the observed stream (exhaustive per plan; thorough adds 1500 sampled pairs), byte-at-a-time, and seeded multi-cut segmentations. "
                "Each segmentation is one evaluation; non-trivial = the stream had the same length as in the unsegmented baseline, so the cut fell where intended; distinct = distinct (plan, cut set, poll order) hashes. "
                "Oracle: same target address, same plaintext both ways, no error, everything delivered at quiescence. Cuts inside the Shadowsocks-2022 first flight (salt + fixed header) are exempt from 'no error' only.",
        "real": REAL_SYSTEM, "stub": STUB_SYSTEM + ["man-in-the-middle segmenter on the client<->server link (harness)"],
        "assumptions": ASSUME_SYSTEM + ["carriers of this check: plain tcp, tcp underneath the WebSocket layer, and WebSocket message level (a WebSocket-aware link node re-cuts the payload stream into other messages); TLS record and QUIC read boundaries are only sampled (C01's network knobs and write sizes)", "generator C04udp: datagrams carried in VMess / Trojan streams, reference client and real client, every single cut"],
    },
    "C05": {
        "level": "fault_enumeration",
        "parts": [{"gen": "C05", "quick": 88, "thorough": 880}, {"gen": "C05udp", "quick": 45, "thorough": 450}, {"gen": "C05udpin", "quick": 120, "thorough": 1200}, {"gen": "C05ustream", "quick": 48, "thorough": 480}],
        "rule": "one plan = one encrypted (protocol, cipher, single/multi-user) cell x direction; the man-in-the-middle node mutates the real byte stream between the real client and server: "
                "one bit flipped in every byte position 0..n-1 (exhaustive over positions, bit drawn), truncation+close at every third offset, seeded deletions, duplications, insertions and multi-byte edits, "
                "and full reflection of a sender's stream (Shadowsocks 2022, VMess). Each mutation is one evaluation. Oracle: everything released to the far side is a prefix of what was written; "
                "for Shadowsocks additionally no more is released than an untampered stream cut at the first tampered byte releases (release curve measured by a byte-at-a-time reference run); "
                "a reflected stream releases nothing; the opposite direction stays a prefix too.",
        "real": REAL_SYSTEM, "stub": STUB_SYSTEM + ["man-in-the-middle mutator on the client<->server link (harness)"],
        "assumptions": ASSUME_SYSTEM + ["plain tcp and ws carriers (under tls / wss / quic the outer TLS layer, third-party code, rejects every mutation first)",
                                        "VMess leaves chunk padding unauthenticated by design, so VMess is held to the prefix oracle only",
                                        "Trojan has no encryption of its own and is outside this property", "generator C05udp: an on-path attacker re-injects every captured Shadowsocks datagram of both directions with a bit flipped at every byte position, truncations, edits, appended bytes and (2022) reflected to its sender",
                                        "generator C05udpin: the attacker is *in* the path - the simulator parks every datagram of the client<->server link; the attacker first presents its mutated versions (a bit flipped at every byte position, truncations, multi-byte edits, whole 16-byte blocks replaced, appended bytes, reflection) and only then lets the genuine datagram pass, so that the packet-id window cannot hide a decoder that stopped checking part of a datagram; rounds alternate between a session the server already knows and the first datagram of a new one; nothing may reach target or application before the genuine datagram, which must still be relayed afterwards; a replay from another address must not be relayed (2022)"],
    },
    "C13": {
        "level": "fault_enumeration",
        "parts": [{"gen": "C13", "quick": 960, "thorough": 9600}],
        "rule": "one plan = one generated local handshake (class cycles over SOCKS5 CONNECT ipv4/domain/ipv6, HTTP CONNECT reg-name/ipv4/[ipv6], absolute-URI requests with/without port, "
                "small and multi-KiB header blocks, and malformed variants: bad version, BIND/UDP-ASSOCIATE, bad address type, bad port, garbage). The handshake is delivered whole and then with every single "
                "cut point of its bytes, seeded multi-cuts and byte-at-a-time, the client going quiet between pieces; each delivery is one evaluation (a fresh world with the real client and server). "
                "Oracle: exactly one dial to exactly (host, port) (80 by default), protocol-conformant replies, the target receives exactly the bytes after the handshake (SOCKS5, CONNECT) or the untouched request (plain HTTP); "
                "malformed => no dial and the connection is closed within 45 simulated seconds.",
        "real": REAL_SYSTEM, "stub": STUB_SYSTEM, "assumptions": ASSUME_SYSTEM + ["the application is protocol compliant (waits for each reply); optimistic pipelining is not demanded", "plain tcp between client and server (the local handshake does not depend on the outer transport)"],
    },
    "C15": {
        "level": "fault_enumeration",
        "parts": [{"gen": "C15", "quick": 1600, "thorough": 40000, "quick_deadline_s": 420, "thorough_deadline_s": 3000}],
        "rule": "one run = a batch of 1-16 (thorough -32) concurrent flows through the real client and server over a cycling (protocol, cipher, tcp/tls/ws/wss) cell; every flow ends in a drawn way: "
                "application or target half-close, close after everything, abandon (close with data in flight), reset, abort after writing (RST ordered after the data: the proxy reads all of it, then ECONNRESET); target refused / unresolvable / black-holed; or the whole client<->server link is cut (RST) at a drawn byte offset "
                "by the man-in-the-middle node; scripts with pauses place the ending before, during or after the transfer. Oracle: (1) data written by the side that closes gracefully reaches the other side, "
                "(2) the other side observes EOF/reset within 10 simulated seconds (+ path latency) of the close (140 s for a black-holed dial), (3) after the batch the open simulated sockets and the live tasks "
                "of client and server equal the idle baseline measured before it - both after the harness peers have gone and, when every flow has ended, already while the peers that did not close still hold their sockets (release must not wait for the second peer); a side that only half-closed sees the proxy close its connection; and neither main() has returned. non-trivial = bytes relayed or a target fault exercised; distinct = (plan shape, poll order).",
        "real": REAL_SYSTEM, "stub": STUB_SYSTEM + ["man-in-the-middle node for link cuts (harness)"], "assumptions": ASSUME_SYSTEM + ["descriptor counts are those of the simulated sockets (TLS sessions, buffers and other heap state are not counted)"],
    },
    "C08": {
        "level": "fault_enumeration",
        "parts": [{"gen": "C08", "quick": 3200, "thorough": 64000}, {"gen": "C08udp", "quick": 3000, "thorough": 60000}, {"gen": "C08reply", "quick": 120, "thorough": 1200}],
        "rule": "one run = one (protocol, cipher, tcp/tls/ws/wss) cell, a canary flow before the faults (must pass, else the run does not count), then a sequence of faults from the catalogue "
                "(every fault alone in the first 40 seeds of each block of 80, sequences of 2-5, thorough -8, in the rest): connect-and-close against client or server, stalled local SOCKS5/HTTP handshake, "
                "partial TLS ClientHello / partial WebSocket upgrade / garbage / nothing sent to the server and held open, garbage then close, flows to refused / unresolvable / black-holed targets, "
                "flows reset by application or target in mid-transfer, accept() failing with EMFILE on the client's or server's listener, a flood of 17-70 connections that send a partial TLS hello / partial upgrade / nothing and stay open, (QUIC) a client whose return path is a black hole so that its handshake stays pending on the server. A fresh flow must also be served as promptly as before the faults (not more than 15 simulated seconds later: somebody else's stalled handshake is no reason to wait). The stalled connections stay open while a fresh canary SOCKS5 echo flow "
                "must be served within 60 simulated seconds; listeners must still be bound and no main() may have returned. non-trivial = canary passed before the faults; distinct = (fault multiset, cell, poll order). "
                "Datagram part (generator C08udp): one run = one UDP-capable cell (Shadowsocks over udp x 7 ciphers with / without users, VMess over tcp/tls/ws/wss, Trojan over tls/wss), a canary datagram exchange, then 1-5 (thorough -8) datagram faults: "
                "malformed local SOCKS5-UDP datagrams (12 shapes: empty, short, FRAG != 0, unknown address types with >= 5 bytes, truncated addresses, bad names), random / replayed / bit-flipped / truncated / empty datagrams to the server's port, "
                "unresolvable and closed-port targets, a datagram too large to forward, a target that answers with 65507 bytes, send_to failing once on client or server, bind failing once for a new association / binding, the carrier connection of VMess / Trojan refused or reset, "
                "idle periods past the 300 s / 600 s table expiries. Afterwards a fresh local application (new socket, new binding / session) and the application that was served before the faults must both get an echo within 60 simulated seconds, "
                "the UDP sockets of client and server must still be bound and no main() may have returned.",
        "real": REAL_SYSTEM, "stub": STUB_SYSTEM + ["attacker connections (harness)"], "assumptions": ASSUME_SYSTEM + ["in the datagram part a canary datagram is repeated every 5 simulated seconds (a datagram sent while a carrier connection is being re-made may be lost legitimately)",
                                        "generator C08reply (in-path attacker): undecodable versions of a datagram reach the server, and undecodable versions of a reply reach the client's outbound socket, *before* the genuine one; the genuine datagram / reply that follows must still be relayed to the target / delivered to the application without the application having to send again"],
    },
    "C02": {
        "level": "exploration",
        "parts": [{"gen": "C02", "quick": 4200, "thorough": 84000}, {"gen": "C02owner", "quick": 120, "thorough": 1200}, {"gen": "C02v6", "quick": 54, "thorough": 540}],
        "rule": "one run = real client (and, for multi-user Shadowsocks 2022, a second real client under another user key) + real server; the configuration cell cycles over the UDP-capable README rows "
                "(Shadowsocks over udp x 7 ciphers x with/without users, VMess over tcp/tls/ws/wss, Trojan over tls/wss); 1-4 local applications send uniquely numbered SOCKS5-UDP datagrams (sizes 0-8, small, 1472/1473, "
                "multi-KiB, largest that fits and one above) to 1-4 scripted targets addressed by IPv4 or by name, which answer 0-2 times; idle gaps of 2 s ... 620 s jump the clock past the 300 s / 600 s TTLs; "
                "35% of Shadowsocks runs put loss, duplication and reordering on the client<->server datagram link. Oracle: clean links - every datagram reaches its target exactly once and unmodified, every reply reaches exactly "
                "the application that owns the binding, as one datagram labelled with the target; lossy links - whole-or-nothing and at most once (legacy ciphers: at most as often as the network copied); "
                "never to another application, target or client; UDP sockets still bound afterwards. non-trivial = at least one datagram reached a target; distinct = (plan, poll order).",
        "real": REAL_SYSTEM, "stub": STUB_SYSTEM, "assumptions": ASSUME_SYSTEM + ["an over-size datagram may be dropped whole", "VMess/Trojan replies may be labelled with the requested name instead of the literal address (their wire formats do not carry the source)",
                                        "generator C02owner (owner part, in-path attacker): after a session's datagram has been relayed, an unchanged copy of it arrives from an address of the attacker's own (refused as a duplicate for 2022 ciphers); the target then speaks again on its own and the application sends again - every datagram of the session must still be sent to the socket that owns it and reach the owning application, none to the replayer's address",
                                        "generator C02v6 ('all target address kinds'): datagrams for an IPv6 literal, an echoing target bound to that address, every UDP-capable cell; the simulated datagram socket refuses a destination of the other address family (EAFNOSUPPORT) as a kernel does"],
    },
    "C11": {
        "level": "model_checking",
        "parts": [
            {"gen": "C11model", "quick": 196, "thorough": 196, "exhaustive": True},
            {"gen": "C11model", "quick": 160, "thorough": 3200},
            {"gen": "C11", "quick": 1600, "thorough": 32000},
            {"gen": "C11srv", "quick": 800, "thorough": 8000},
            {"gen": "C11roam", "quick": 120, "thorough": 1200},
            {"gen": "C11users", "quick": 400, "thorough": 8000},
            {"gen": "C11late", "quick": 800, "thorough": 16000},
        ],
        "rule": "three parts. (a) exhaustive: every sequence of length 2..5 over the 14-value boundary alphabet {0,1,63,64,65,8127,8128,8129,8191,8192,8193,16389,2^64-2,2^64-1} x limits {2^64-1, 8192, 65}, "
                "the real PacketWindowFilter compared step by step with a set-based reference model (accept iff id < limit and (id > max or (max - id <= 8128 and id not seen))). "
                "(b) seeded long histories (1-3000 ids: increments, small and window-edge back-steps, jumps larger than the ring, boundary values, start points up to 2^64 - 20000), same comparison, failing histories shrunk. "
                "(c) system: real Shadowsocks-2022 client and server, applications sending bursts of numbered datagrams over a link that duplicates (30-100%) and reorders (0-90%) but does not lose; "
                "every datagram and every reply must arrive exactly once, i.e. duplicates are refused, reordered ids inside the window accepted, and a refusal ends neither the session nor the service. "
                "evaluations = sequences compared + system runs; non-trivial/distinct = distinct histories or (plan, poll order).",
        "real": ["octo_squirrel::manager::packet_window::PacketWindowFilter (a, b)"] + REAL_SYSTEM, "stub": STUB_SYSTEM,
        "assumptions": ASSUME_SYSTEM + ["the reference model is the harness's reading of the property statement (window 8128, limit exclusive)", "packet ids near 2^64 are exercised at component level and by C12's exhaustion part",
                                        "generator C11srv (the client's side of the rule): a reference *server* answers the real client's datagram session with a scripted arrival order of (server session, packet id) pairs - two server sessions interleaved (restart / expired association with stragglers of the old session still in flight), duplicates, ids behind the window, gaps, jumps beyond the ring; what the application receives is compared step by step with the predicate kept per server session",
                                        "generator C11roam: the in-path attacker scenario - a datagram whose id was accepted must stay refused when the same datagram arrives again from another source address",
                                        "generator C11late: a reference client's session to a target that answers or never answers; 0.3-28 s later (timestamps still acceptable) the same datagrams arrive again, from the same or another address, then a fresh id: nothing is relayed twice, the fresh id is relayed",
                                        "generator C11users: multi-user server; another registered user's datagram that carries this session's id (packet ids just ahead of, beyond and far beyond the window) is refused and must leave the session's window where it was: every later fresh id of the session's owner is relayed exactly once"],
    },
    "C16": {
        "level": "fault_enumeration",
        "parts": [{"gen": "C16", "quick": 691, "thorough": 691, "exhaustive": True}],
        "exhaustive_claim": True,
        "rule": "exhaustive over the documented names (691 cases, the seed is the case index): every cipher name (7 + the chacha20-ietf-poly1305 alias) x every server mode (tcp, udp, tcp_and_udp, quic, tcp_and_quic), "
                "default modes, every client mode x protocol, every Shadowsocks-2022 key length 0..48 bytes as client password, server password and user-table key, and 26 undocumented cipher / protocol / mode strings "
                "or missing ciphers on either side (for Shadowsocks entries and, the cipher names, for VMess and Trojan entries too); transport sections ssl, ws, ssl+ws and quic (incl. the quic / tcp_and_quic server modes with a QUIC endpoint in the registry and datagrams over quic); Shadowsocks-2022 key lists of 1-4 keys whose identity-header chain on stream and datagram is compared with the one the reference computes. Each case boots the real client and server main() with that JSON. Oracle: the TCP listeners and UDP sockets in the simulated registry equal the documented set for the mode, "
                "a canary TCP flow and/or UDP exchange works over them, undocumented names and wrong-length keys leave the affected side not serving and its main() ended; never a panic.",
        "real": REAL_SYSTEM, "stub": STUB_SYSTEM, "assumptions": ASSUME_SYSTEM + ["that a named cipher is exactly the named algorithm with the named key derivation is decided by the interoperability check (C03)"],
    },
    "C14": {
        "level": "exploration",
        "parts": [{"gen": "C14", "quick": 16400, "thorough": 65600, "exhaustive": True}, {"gen": "C14udp", "quick": 1028, "thorough": 8224, "exhaustive": True}],
        "rule": "the seed is the case index: name length = seed mod 1025 (every length 0..=1024), protocol family = (seed div 1025) mod 4 over {Shadowsocks legacy, Shadowsocks 2022, VMess, Trojan}; the name's bytes, the port, the payload and the "
                "local handshake (SOCKS5 domain with host-name characters or arbitrary bytes for lengths <= 255, HTTP CONNECT or absolute-URI otherwise) are drawn from the seed. The client<->server link runs through the transparent "
                "man-in-the-middle node, which counts the bytes the client puts on the wire. Oracle: either the server resolves exactly that name, dials exactly that port and the target receives exactly the payload, or the client sends nothing at all; "
                "well-formed names of 1..255 bytes must be delivered, empty and longer ones refused. Each run also round-trips the same name through socks5::address::{encode,decode} and vmess::address::{write,read}_address_port "
                "with a trailing payload. Lengths are enumerated exhaustively, contents are sampled; no schedule or fault matters for this property - the simulator contributes the observation points.",
        "real": REAL_SYSTEM, "stub": STUB_SYSTEM + ["transparent man-in-the-middle node (byte counter)"], "assumptions": ASSUME_SYSTEM + ["IPv4 / IPv6 literals are covered by C01 and C13",
            "generator C14udp (datagram part): the address that travels with every datagram - SOCKS5-UDP locally, then the Shadowsocks datagram layouts (legacy, 2022) or the datagram frames inside a VMess / Trojan stream; the seed is the case index: name length 0..=255 (what SOCKS5-UDP can carry) or an IPv4 literal x 4 protocol families, contents as in the stream part; oracle: the server resolves exactly that name and sends exactly the payloads to exactly (address, port), a socket on the neighbouring port receives nothing - or nothing is relayed at all; well-formed names must be delivered, the empty name refused"],
    },
    "C03": {
        "level": "exploration",
        "parts": [{"gen": "C03", "quick": 6000, "thorough": 120000}, {"gen": "C03keys", "quick": 400, "thorough": 8000}, {"gen": "C03ustream", "quick": 300, "thorough": 6000}],
        "rule": "refinement against an independent reference implementation of the published formats (/verif/refimpl: no dependency on /repo, shares only third-party crypto crates; calibrated against the repository's own known-answer vectors) "
                "placed as a second party on the simulated wire. The mode cycles with the seed: real client -> strict reference server (which also answers), reference client -> real server -> target, the same two for Shadowsocks datagrams, "
                "and the library's stream encoder driven directly with one 70 000-byte write. Cells: 7 Shadowsocks ciphers (2022 AES ones also with 1 and 3 registered users, the reference client being a drawn user), VMess x 2 with all 8 option masks that contain ChunkStream, Trojan; "
                "drawn passwords / keys / UUIDs, all address kinds, 1-5 writes per direction of 1..3000 bytes or boundary sizes (16383..70000). Oracle: the strict reference accepts everything the code emits and recovers the same address and payload, "
                "the code accepts everything the reference emits with the same result, sender limits hold (legacy chunk <= 0x3FFF, 2022 chunk <= 0xFFFF).",
        "real": REAL_SYSTEM, "stub": STUB_SYSTEM + ["the other protocol party is the reference implementation"], "assumptions": ASSUME_SYSTEM + [
            "the reference is the harness author's reading of SIP004 / SIP022 / SIP023, the VMess AEAD description and Trojan; where the de-facto specification is v2ray's behaviour (authenticated length keyed by the request key and IV in both directions, padding drawn before the size mask) it follows that - these points have reduced independence",
            "generator C03ustream (datagram formats inside streams, real client -> reference server): one application socket sends datagrams to two or three targets (by name or literal, sometimes all on one port), alternating; every carrier connection the real client opens (VMess over tcp: one per target; Trojan over tls, terminated by the reference server itself: one for all) is read by the strict reference, and the (target, payload) pairs it recovers must be the ones the application sent; the opposite pairing (reference client -> real server) is C04udp",
            "generator C03keys (identity headers through a chain of relays): the client's password lists 1-5 keys drawn from the seed; its stream request and its datagrams are taken through the chain the specification describes by the reference - relay i checks that identity header i names key i+1 and strips it, the last hop is a server that knows the user key - and address and payload must come out unchanged"],
    },
    "C10": {
        "level": "fault_enumeration",
        "parts": [{"gen": "C10", "quick": 14400, "thorough": 144000}],
        "rule": "the kind of probe cycles with the seed (12 kinds), its parameter is swept by seed div 12: reference client -> real Shadowsocks-2022 server with every timestamp offset -35..+35 s (accept iff |d| <= 30) and type bytes {0,1,2,3,0x7f,0x80,0xff}; "
                "the same for 2022 datagrams; VMess auth-id offsets {+-119,+-120,+-121,+-125,...} (accept iff |d| <= 120); replay histories - a valid handshake accepted with the client clock d0 in [-30,+30] s ahead, the identical bytes again at once and again after the "
                "paused clock has advanced d in [0,70] s (half of them on the edge d = d0 + 30 - k where the copy is about to run out), always followed by a fresh control handshake that must be served; reference server -> real client with a response typed as a request, "
                "a stale response (-35..+35 s), a response echoing another request salt, a VMess response with a different authentication byte or under keys of another request, each followed by a correct control response. "
                "Oracle: accept (server dials and relays / client releases bytes to the application) must equal the reference predicate.",
        "real": REAL_SYSTEM, "stub": STUB_SYSTEM + ["the hostile peer is the reference implementation"], "assumptions": ASSUME_SYSTEM + ["copies arriving at the same instant on different threads are the shuttle engine's part (C09)", "plain tcp / udp carriers"],
    },
    "C12": {
        "level": "exploration",
        "parts": [{"gen": "C12", "quick": 2400, "thorough": 48000}, {"gen": "C12wrap", "quick": 480, "thorough": 4800}, {"gen": "C12roam", "quick": 120, "thorough": 1200}],
        "rule": "wire sniffing inside the simulator: one run = the real client and server relaying 2-6 (thorough -12) TCP sessions with 1-12 writes each way per session, or (every third seed) a Shadowsocks datagram run with several applications and bursts of datagrams; "
                "everything the two real encoders emit on the plain link is captured (transparent link node / datagram capture) and parsed by the strict reference decoders, which know the credentials and return, per sealed unit, the derived key and nonce it opened with. "
                "Oracle: no (key, nonce) pair occurs twice; request and response salts, datagram salts, 2022 session ids, VMess body key+IV, auth-id time+random parts and connection nonces are pairwise distinct across the sessions of a run; packet ids strictly increase within a datagram session, per direction. "
                "non-trivial = more than one sealed unit recovered.",
        "real": REAL_SYSTEM, "stub": STUB_SYSTEM + ["sniffer = reference decoders"], "assumptions": ASSUME_SYSTEM + [
            "with seeded entropy this detects missing, reused or non-advancing draws and counters; the unpredictability of the OS RNG is outside the simulator",
            "VMess defines the authenticated-length cipher of both directions as KDF(request key, 'auth_len') with the request IV and a counter from 0; that protocol-defined overlap is compared per direction only",
            "the VMess 16-bit chunk counter wrap is the protocol's own counter width (exempt)",
            "generator C12wrap ('a UDP session ends rather than reuse a packet id'): with hook H8 the first datagram session of the client, of the server, or of both starts 1-7 ids before 2^64; 14 datagrams with echoes cross the end of the id space; on the wire the ids of every session must keep increasing (a wrap to 0 is the reuse), and the exchange must go on in a new session (at most a few datagrams fall at the seam)",
            "generator C12roam: the in-path datagram attacker of C05 / C02 (mutated versions before the genuine datagram, replays from another address); every datagram the server puts on the link is opened by the reference: within one server session the packet ids keep increasing whatever the attacker's datagrams made the server do (an association rebuilt for another address must not start its ids again under the same session id)"],
    },
    "C06": {
        "level": "exploration",
        "parts": [{"gen": "C06", "quick": 640, "thorough": 6400}],
        "rule": "one run = the real server of one cell (7 Shadowsocks ciphers, the 2022 AES ones also with two registered users, VMess x 2 with several registered ids, Trojan; tcp + udp; the stream carrier cycles over tcp / ws / tls / quic with harness-side WebSocket, TLS and QUIC clients, so the credential check is exercised behind every accept path) with a scripted target behind it and 80 (thorough 400) attacks, "
                "each on a fresh connection in 1-3 segments: random bytes; reference-built handshakes under a random / one-bit-wrong / unregistered key, password or user id; right server key with an unregistered user key, wrong server key with a registered user key, "
                "no identity header with the server key or a user key; another protocol's handshake; a valid handshake cut at a drawn byte; one bit flipped inside the credential proof; and the datagram versions of these. "
                "Oracle per attack: the server host issues no connect and no datagram toward the target (simulated registry), a truncated valid handshake relays at most a prefix of its own payload; afterwards a legitimate reference client is served and its answer opens under its own key; "
                "with two users, B presents A's datagram session id - every reply at A's socket must open under A's key. evaluations = attacks.",
        "real": REAL_SYSTEM, "stub": STUB_SYSTEM + ["attacker and legitimate peer = reference implementation"], "assumptions": ASSUME_SYSTEM + ["tampering with a stream that was produced with the credential is C05's subject, not this property's"],
    },
    "C07": {
        "level": "exploration",
        "parts": [{"gen": "C07", "quick": 256, "thorough": 2560}, {"gen": "C07udp", "quick": 27, "thorough": 270}, {"gen": "C07srv", "quick": 152, "thorough": 1520}],
        "rule": "one run = real client + real server of one cell under a barrage, with the process-wide panic monitor as the oracle: (a) exhaustive short strings to the server's port and to the client's local port - the empty string, every 1-byte string and every 2-byte string whose first byte lies in this plan's block of 16 "
                "(16 rounds x 16 cells cover all first bytes for every cell), 3- and 4-byte strings over a reduced alphabet, half of them followed by quiet, all by EOF; (b) random and structure-aware strings (56 bytes + CRLF for Trojan, lengths around the salt / header sizes) in 1-3 segments; "
                "(c) valid handshakes closed at a drawn byte; (d) authenticated but malformed frames from the reference sender (2022: bad address type, truncated address, padding beyond the header, no padding length, empty header, domain length beyond the header, declared length beyond the frame, non-UTF-8 domain; legacy, VMess and Trojan analogues incl. bad command, short header, bad checksum; VMess option masks 0 / 0xff / authenticated length without chunk stream, unknown and None / Zero security values, and after a correct header and first chunk a chunk whose size field - plain, masked or authenticated - is below its padding, below padding + tag, zero, one, equal to the padding or far beyond the stream; 2022 datagrams with raw malformed bodies: padding length beyond the datagram, nothing after the fixed part, address cut short); "
                "(e) garbage to the local SOCKS5/HTTP port; (f) random, truncated-valid and authenticated-but-malformed datagrams to the server, malformed SOCKS5-UDP datagrams to the client. Afterwards a correct TCP flow and a correct local datagram must still be served and no main() may have returned. evaluations = inputs.",
        "real": REAL_SYSTEM, "stub": STUB_SYSTEM + ["hostile peers = harness + reference implementation"], "assumptions": ASSUME_SYSTEM + ["every other check runs with the same panic monitor and reports a panic as a violation of its own property", "allocation failure aborts instead of unwinding and is out of scope", "release build with shipping semantics (overflow-checks and debug-assertions off)",
                                        "generator C07udp: datagram frames inside VMess / Trojan streams under every single cut; generator C07srv: a hostile reference *server* answers the real client - garbage, truncated / bit-flipped / segmented answers, mis-typed, stale and unbound response headers, VMess response headers with empty / short / over-long plaintext, VMess chunks with size fields that are wrong inside, empty and huge writes; datagram replies that are random, truncated, bit-flipped, duplicated, typed as requests, from malformed source addresses, or well authenticated with a malformed body (padding beyond the datagram)"],
    },
    "C09": {
        "level": "exploration",
        "parts": [{"gen": "C09", "quick": 640, "thorough": 12800, "quick_deadline_s": 420, "thorough_deadline_s": 3000},
                  {"gen": "C09udp", "quick": 1200, "thorough": 24000},
                  {"gen": "C09sid", "quick": 400, "thorough": 8000},
                  {"gen": "C09hostile", "quick": 1600, "thorough": 16000},
                  {"engine": "shuttle", "quick": 20000, "thorough": 1000000},
                  {"engine": "miri", "quick": 6, "thorough": 96}],
        "rule": "two engines. Task level (simnet): a batch of 2-8 (10%: 9-24, thorough -64) concurrent TCP flows through the real client and server over a cycling (protocol, cipher, tcp/tls/ws/wss) cell with drawn network knobs is run once all together "
                "and once per flow alone (same seed, same slot); each flow's observable result (handshake, number of dials to its target, bytes and integrity each way, how each end saw it finish) must be identical. "
                "Thread level (shuttle, hook H6): 2-4 threads under shuttle's seeded random and PCT schedulers each decode a reference-built Shadowsocks-2022 request with the real server-side decoder against one shared Context (salt cache): "
                "the same request (at most one - and exactly one - acceptance), distinct requests (all accepted), a mix; never a panic. Further simnet parts: datagram sessions of several applications together versus alone, and every (local socket, target) session of an application alone versus with the application's other sessions (C09udp); sessions that present the same session id under different keys / users (C09sid). C09hostile: a fresh flow next to misbehaving peers (the fault catalogue of C08, stalled connections held open, floods of stalled handshakes, a QUIC handshake whose return path is a black hole): alone it is served, promptly - next to them it must be served just as it would have been alone. Miri part: three threads encode / decode 2022 datagrams through the process-wide cipher cache. evaluations = flows compared + schedules; distinct = (plan, poll order) hashes + distinct thread orders.",
        "real": REAL_SYSTEM + ["shuttle part: octo_squirrel::codec::shadowsocks::tcp::{Context, AEADCipherCodec} built from /repo's sources through a shadow manifest"],
        "stub": STUB_SYSTEM + ["shuttle part: std::sync::Mutex of the salt cache -> shuttle::sync::Mutex; wall clock is the real one there"],
        "assumptions": ASSUME_SYSTEM + ["real parallel execution of whole relay tasks on tokio's multi-thread scheduler is not covered: flows share no mutable state besides the salt cache (shuttle) and the UDP cipher cache", "the datagram cipher cache is covered at thread level by the Miri part (3 threads, real SessionCodec, seeded scheduler): aliasing violations and data races, not functional interleavings of whole sessions"],
    },
}


# parts added in rounds f-h of the seeded-change evaluation (DESIGN.md 9.7); listed with the assumptions so that every
# evidence file says what its check contains
ADDED = {
    "C02": ["a quarter of the target sets are neighbouring addresses (targets that differ in one bit of port or address, or swap bytes between them)",
            "Trojan carriers: replies of 65494-65507 bytes, which no SOCKS5-UDP datagram can hold, may be dropped; the replies that follow arrive unharmed"],
    "C03": ["a third of the stream plans travel over the ws carrier with the reference peer speaking WebSocket (third-party tokio-websockets on the harness side) and cutting messages where it likes",
            "a quarter of the stream plans are slow starters (first byte 31-50 s after the handshake / the request); the reference judges a timestamp against the clock of the moment it arrives"],
    "C04": ["tls-* families: the link node terminates TLS on both sides (it holds the simulated certificate's key) and forwards every piece as TLS record(s) of its own: single cuts exhaustively, multi-cuts, byte at a time",
            "ws-merge: merged messages of bulk transfers, up to a few hundred KiB in one message"],
    "C05": ["cross-connection splice (2022 both directions, VMess responses): the first connection's stream is withheld from its receiver and given to a later connection of the same client, whole and cut",
            "generator C05ustream: VMess datagram frames in one stream from the reference client, one bit flipped at every byte position; what reaches the target is a prefix of what was sent (VMess chunk padding is unauthenticated by design, so 'nothing behind the flipped byte' is not demanded there)"],
    "C06": ["a third of the multi-user tables give two users the same name; a fifth hold only keys that do not fit the cipher (the server refuses to start, or must still refuse the holder of the server key alone)",
            "user B's datagram with user A's exact session id must not leave through A's association socket"],
    "C07": ["well-formed authenticated datagram sessions with sparse packet ids (starts near the ring boundaries of the replay window, jumps of every size class, stragglers), from the reference client and from the hostile server, whose session id keeps changing"],
    "C08": ["descriptor exhaustion is a window during which a drawn subset of accept / connect / datagram bind / file open fails with EMFILE for one node (file opens through an open() interposition in the harness binary) while ordinary flows are attempted",
            "one plan in three is a cold start: the faults are the first thing the freshly started client and server see, no flow before them"],
    "C09": ["3 % of the C09 plans are crowds: 40-160 (thorough 400) small flows that all stay open for 100 simulated seconds",
            "C09sid: the target answers every datagram twice (at once and 45 ms later); the late answers must reach the session's owner and nothing of them the other user",
            "the Miri engine is built with the seam's fixed wall clock; only diagnosed failures (undefined behaviour, data race, panic, datagram lost in the round trip) are violations"],
    "C10": ["requests whose authenticated beginning (VMess auth id, 2022 salt + fixed header) arrives in time and whose rest arrives 3-200 s later: refused when the token has run out by the time the header / request is complete, served when it is valid at both moments (not valid yet at the beginning: nothing demanded)",
            "mis-typed / stale / unbound responses are delivered whole and cut behind the first flight and at drawn places"],
    "C13": ["one plan in eight performs its handshakes while 20-140 (thorough 300) other tunnels through the same client are open and stay open"],
    "C14": ["delimiter bytes of the carrying formats (CR LF, NUL, ':', '/', ' ', '@', '?', '#') inside SOCKS5 names, and ports made of them (0x0d0a, 0x0a0d, ...)"],
    "C15": ["in a quarter of the plans one to three applications leave a local handshake unfinished (partial SOCKS5 / HTTP / TLS-looking bytes, then close or stay): released at the client's 30 s handshake deadline at the latest",
            "QUIC over a lossy datagram link: the release measurement waits (bounded, 120 s) for quinn's own idle / closing timers, the notification slack is 75 s"],
    "C16": ["configurations with several entries: a tcp entry and a udp entry on one port, a Trojan entry and a Shadowsocks udp entry on one port, two ports, the client's index"],
}
ADDED_I = {
    "C01": ["6 % of the VMess plans are one flow of 66 000 one-byte writes (more chunks than VMess's 16-bit chunk counter counts; the counter wraps by design)"],
    "C02": ["SOCKS5-UDP fragments (FRAG != 0; dropped by the relay) with a datagram right behind them", "case twins among the neighbouring addresses (one octet is an ASCII letter, the twin carries it in the other case)"],
    "C03": ["C03ustream: an oversize datagram (2000-2900 bytes, may be dropped whole) in the middle of the VMess sequences; what follows it must still be readable"],
    "C04": ["30 % of the plans have an idle period of 31-60 simulated seconds inside the exchange; the pieces behind it are cut like the others"],
    "C05": ["the spliced stream is also presented before the later connection's application has sent its first byte"],
    "C06": ["two thirds of the attacks on Shadowsocks 2022 servers arrive in one piece (a cut first flight is refused whatever it carries)"],
    "C07": ["well-formed local SOCKS5-UDP datagrams from one socket to a spread of targets (addresses and names, ports above and below one another)"],
    "C08": ["nodes can be given a descriptor limit that their own open sockets use up; fault: more flows abandoned by their applications toward a silent target than the limit allows (no flood of attacker-held connections in those plans)", "QUIC cells: the datagram link is dead for 3-14 s while flows are attempted (their handshakes fall into the outage), then works again"],
    "C09": ["C09hostile shares C08's catalogue, including the descriptor windows and limits, the abandoned flows and the QUIC link outage"],
    "C10": ["resp-early: the reference server speaks first - a sealed, fresh response that echoes a foreign request salt before the application's first byte; nothing of it may be released"],
    "C11": ["C11late, one plan in eight: the session is a burst of 1100-2500 datagrams sent back to back (more than any queue between the listener and the session's task holds) before the copies arrive; every sampled id of the burst reaches the target exactly once"],
    "C13": ["one plan in five runs after an earlier local connection that sent an unfinished handshake, or a complete request with trailing bytes, and went away"],
    "C15": ["a peer of the server that sends the beginning of a TLS hello / upgrade request / protocol handshake and closes; QUIC plans with a 3-8 s outage of the datagram link after the first second"],
    "C16": ["late-certificate cases (in a process of their own): the certificate file the ssl / quic section names is absent for the first flow and put in place afterwards; the first flow fails, the next one is served"],
}
for _k, _v in ADDED_I.items():
    ADDED.setdefault(_k, []).extend(_v)
for _k, _v in ADDED.items():
    CHECKS[_k]["assumptions"] = list(CHECKS[_k]["assumptions"]) + _v
