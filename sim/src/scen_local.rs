//! C13 – local SOCKS5 / HTTP handshakes under every segmentation.
//!
//! One plan = one generated handshake (SOCKS5 CONNECT with IPv4 / IPv6 / domain,
//! HTTP CONNECT, absolute-URI HTTP request, or a malformed variant). It is first
//! delivered in one piece (grammar oracle) and then with every single cut point
//! of its bytes plus seeded multi-cuts, the client going quiet between pieces
//! (segmentation oracle). The application is protocol compliant: it waits for
//! each reply before it sends the next message.

use std::collections::BTreeMap;
use std::net::IpAddr;
use std::net::Ipv4Addr;
use std::net::Ipv6Addr;
use std::net::SocketAddr;
use std::sync::Arc;
use std::sync::Mutex;
use std::time::Duration;

use octo_squirrel::verif::net::TcpListener;
use octo_squirrel::verif::net::TcpStream;
use octo_squirrel::verif::world;
use serde::Deserialize;
use serde::Serialize;
use tokio::io::AsyncReadExt;
use tokio::io::AsyncWriteExt;

use crate::nodes::*;
use crate::plan::*;
use crate::report::Outcome;
use crate::report::Violation;
use crate::rnd::Gen;
use crate::rt;

#[derive(Clone, Debug, Serialize, Deserialize, PartialEq)]
pub struct HsCase {
    /// "socks5" | "connect" | "plain"
    pub kind: String,
    /// human-readable class used in signatures (e.g. "domain", "ipv6", "large-headers", "bad-port")
    pub variant: String,
    /// messages the application sends during the handshake (SOCKS5: greeting, request; HTTP: one message)
    pub messages: Vec<Vec<u8>>,
    /// well-formed: the target the tunnel must reach; malformed: None (must be refused, no dial)
    pub expect: Option<(String, u16)>,
    /// where the harness target listens (ip as string, port)
    pub listen: (String, u16),
    pub payload_up: usize,
    pub payload_down: usize,
}

fn reg_name(g: &mut Gen) -> String {
    let labels = g.range(1, 3);
    let mut s = String::new();
    for i in 0..labels {
        if i > 0 {
            s.push('.');
        }
        let n = g.range(1, 12);
        for j in 0..n {
            let c = if j == 0 || j == n - 1 { *g.pick(&[b'a', b'k', b'z', b'0', b'7']) } else { *g.pick(&[b'a', b'q', b'z', b'3', b'-']) };
            s.push(c as char);
        }
    }
    s.push_str(".c13.test");
    s
}

fn path_and_query(g: &mut Gen) -> String {
    let mut p = String::new();
    let segs = g.range(0, 4);
    for _ in 0..segs {
        p.push('/');
        p.push_str(*g.pick(&["a", "index.html", "x:y", "v1", "a://b", "8080", "p;q", "%2F", "with:colon:s"]));
    }
    if g.chance(30) {
        p.push('/');
    }
    if g.chance(50) {
        p.push('?');
        p.push_str(*g.pick(&["a=b", "u=http://other.example:81/x", "q=1?2", "t=12:30", "r=/?/", "x"]));
    }
    p
}

fn headers(g: &mut Gen, hostport: &str, large: bool) -> String {
    let mut h = format!("Host: {hostport}\r\n");
    // few short lines, many long lines (several KiB), or many short lines (dozens of header fields within the first KiB)
    let many_short = !large && g.chance(30);
    let n = if large { g.range(20, 60) } else if many_short { g.range(13, 70) } else { g.range(0, 4) };
    for i in 0..n {
        let len = if large { g.range(20, 120) } else if many_short { g.range(1, 10) } else { g.range(1, 30) } as usize;
        let val: String = (0..len).map(|_| *g.pick(&[b'a', b'b', b' ', b';', b'=', b'/', b':', b'1']) as char).collect();
        h.push_str(&format!("X-H{i}: {}\r\n", val.trim()));
    }
    h
}

/// Draw one handshake case. `class` cycles through the grammar so that a quick batch covers every class.
pub fn gen_case(g: &mut Gen, class: u64) -> HsCase {
    let port: u16 = *g.pick(&[80u16, 443, 8080, 1, 65535]) as u16;
    let port = if g.chance(50) { g.range(1, 65535) as u16 } else { port };
    let ip4 = Ipv4Addr::new(127, 0, 1, g.range(1, 250) as u8);
    let name = reg_name(g);
    let payload_up = g.range(1, 600) as usize;
    let payload_down = g.range(0, 600) as usize;
    let socks_req = |atyp: u8, addr: &[u8], port: u16, cmd: u8, ver: u8| {
        let mut r = vec![ver, cmd, 0, atyp];
        r.extend_from_slice(addr);
        r.extend_from_slice(&port.to_be_bytes());
        r
    };
    let greeting = |g: &mut Gen| {
        let mut m = vec![5u8];
        let extra = g.range(0, 3);
        let mut methods = vec![0u8];
        for _ in 0..extra {
            methods.push(*g.pick(&[1u8, 2]));
        }
        m.push(methods.len() as u8);
        m.extend(methods);
        m
    };
    match class % 16 {
        0 => HsCase { kind: "socks5".into(), variant: "ipv4".into(), messages: vec![greeting(g), socks_req(1, &ip4.octets(), port, 1, 5)], expect: Some((ip4.to_string(), port)), listen: (ip4.to_string(), port), payload_up, payload_down },
        1 => {
            let mut a = vec![name.len() as u8];
            a.extend_from_slice(name.as_bytes());
            HsCase { kind: "socks5".into(), variant: "domain".into(), messages: vec![greeting(g), socks_req(3, &a, port, 1, 5)], expect: Some((name.clone(), port)), listen: (ip4.to_string(), port), payload_up, payload_down }
        }
        2 => {
            let v6 = Ipv6Addr::LOCALHOST;
            HsCase { kind: "socks5".into(), variant: "ipv6".into(), messages: vec![greeting(g), socks_req(4, &v6.octets(), port, 1, 5)], expect: Some(("::1".into(), port)), listen: ("::1".into(), port), payload_up, payload_down }
        }
        3 | 4 | 5 => {
            // HTTP CONNECT: reg-name / IPv4 / bracketed IPv6
            let (host, listen) = match class % 16 {
                3 => (name.clone(), ip4.to_string()),
                4 => (ip4.to_string(), ip4.to_string()),
                _ => ("[::1]".to_owned(), "::1".to_owned()),
            };
            let large = g.chance(25);
            let req = format!("CONNECT {host}:{port} HTTP/1.1\r\n{}\r\n", headers(g, &format!("{host}:{port}"), large));
            let variant = format!("{}{}", ["reg-name", "ipv4", "ipv6"][(class % 16 - 3) as usize], if req.len() > 1024 { "+large-headers" } else { "" });
            HsCase { kind: "connect".into(), variant, messages: vec![req.into_bytes()], expect: Some((host.trim_matches(|c| c == '[' || c == ']').to_owned(), port)), listen: (listen, port), payload_up, payload_down }
        }
        6 | 7 | 8 | 9 => {
            // absolute-URI request, with and without port
            let with_port = class % 2 == 0;
            let (host, listen) = match class % 16 {
                6 | 7 => (name.clone(), ip4.to_string()),
                8 => (ip4.to_string(), ip4.to_string()),
                _ => ("[::1]".to_owned(), "::1".to_owned()),
            };
            let eff_port = if with_port { port } else { 80 };
            let hostport = if with_port { format!("{host}:{port}") } else { host.clone() };
            let method = *g.pick(&["GET", "POST", "PUT", "OPTIONS", "HEAD", "DELETE", "PATCH"]);
            let large = g.chance(20);
            let req = format!("{method} http://{hostport}{} HTTP/1.1\r\n{}\r\n", path_and_query(g), headers(g, &hostport, large));
            let variant = format!("{}{}{}", ["reg-name", "reg-name", "ipv4", "ipv6"][(class % 16 - 6) as usize], if with_port { "+port" } else { "+default-port" }, if req.len() > 1024 { "+large-headers" } else { "" });
            HsCase { kind: "plain".into(), variant, messages: vec![req.into_bytes()], expect: Some((host.trim_matches(|c| c == '[' || c == ']').to_owned(), eff_port)), listen: (listen, eff_port), payload_up, payload_down }
        }
        10 => HsCase { kind: "socks5".into(), variant: "bad-version".into(), messages: vec![vec![5, 1, 0], socks_req(1, &ip4.octets(), port, 1, 4)], expect: None, listen: (ip4.to_string(), port), payload_up, payload_down },
        11 => HsCase { kind: "socks5".into(), variant: format!("unsupported-command-{}", 2 + class / 16 % 2), messages: vec![vec![5, 1, 0], socks_req(1, &ip4.octets(), port, 2 + (class / 16 % 2) as u8, 5)], expect: None, listen: (ip4.to_string(), port), payload_up, payload_down },
        12 => HsCase { kind: "socks5".into(), variant: "bad-address-type".into(), messages: vec![vec![5, 1, 0], socks_req(9, &ip4.octets(), port, 1, 5)], expect: None, listen: (ip4.to_string(), port), payload_up, payload_down },
        13 => {
            let bad = *g.pick(&["99999", "abc", "", "-1", "80x"]);
            let req = format!("CONNECT {name}:{bad} HTTP/1.1\r\nHost: {name}\r\n\r\n");
            HsCase { kind: "connect".into(), variant: "bad-port".into(), messages: vec![req.into_bytes()], expect: None, listen: (ip4.to_string(), 80), payload_up, payload_down }
        }
        14 => {
            let bad = *g.pick(&["99999", "abc", "-1", "80x"]);
            let req = format!("GET http://{name}:{bad}/x HTTP/1.1\r\nHost: {name}\r\n\r\n");
            HsCase { kind: "plain".into(), variant: "bad-port".into(), messages: vec![req.into_bytes()], expect: None, listen: (ip4.to_string(), 80), payload_up, payload_down }
        }
        _ => {
            let req = *g.pick(&["\r\n\r\n", "GET\r\n\r\n", "/ HTTP/1.1\r\n\r\n", "\x04\x01\x00\x50\x7f\x00\x00\x01\x00", "\x16\x03\x01\x00\x05hello"]);
            HsCase { kind: "plain".into(), variant: "garbage".into(), messages: vec![req.as_bytes().to_vec()], expect: None, listen: (ip4.to_string(), 80), payload_up, payload_down }
        }
    }
}

pub fn gen_c13(seed: u64, thorough: bool) -> Plan {
    let mut g = Gen::new(seed, 13);
    let cells = all_proto_ciphers();
    let (proto, cipher) = cells[(seed as usize / 16) % cells.len()];
    let config = gen_config(&mut g, proto, cipher, Transport::Tcp, 0);
    let case = gen_case(&mut g, seed);
    Plan {
        property: "C13".into(),
        scenario: "local-hs".into(),
        seed,
        net_seed: g.next(),
        config,
        knobs: KnobsPlan::simple(),
        flows: vec![],
        // one plan in eight performs its handshakes while a crowd of other tunnels through the same client is open (and stays
        // open): a request must be answered whatever else the client is carrying (fewer segmentations in those plans)
        extra: serde_json::json!({ "case": case, "multi_samples": if thorough { 200 } else { 20 }, "sub_seed": g.next(), "crowd": if seed % 8 == 3 { g.range(20, if thorough { 300 } else { 140 }) } else { 0 },
            "prelude": if seed % 5 == 1 { prelude(&mut g) } else { Vec::new() } }),
    }
}

/// what an earlier local connection sends before it goes away: an unfinished SOCKS5 or HTTP handshake, or a complete SOCKS5
/// request for some other target with bytes behind it
fn prelude(g: &mut Gen) -> Vec<u8> {
    match g.below(6) {
        0 => vec![5, 1, 0, 5, 1, 0, 3, 30, b'o', b't', b'h', b'e', b'r'],
        1 => vec![5, 2, 0],
        2 => b"GET http://other.example:8080/pa".to_vec(),
        3 => b"CONNECT other.example:8080 HTTP/1.1\r\nHost: other.exa".to_vec(),
        4 => {
            // greeting + a complete request for 127.0.66.6:6666 (nobody listens there) + trailing bytes
            let mut v = vec![5, 1, 0, 5, 1, 0, 1, 127, 0, 66, 6, 0x1a, 0x0a];
            v.extend_from_slice(b"trailing bytes of the earlier connection");
            v
        }
        _ => {
            let mut v = vec![5, 1, 0, 5, 1, 0, 3, 13];
            v.extend_from_slice(b"other.example");
            v.extend_from_slice(&8080u16.to_be_bytes());
            v.extend_from_slice(&[5, 1, 0, 5, 1, 0, 1]);
            v
        }
    }
}

const CROWD_IP: [u8; 4] = [127, 0, 77, 1];
const CROWD_PORT: u16 = 7700;

/// `n` SOCKS5 tunnels through the client to a target that accepts and holds them; returns once all of them are up (or
/// after 20 simulated seconds) with the number that are. The tunnels stay open until the returned guards are dropped.
async fn open_crowd(n: usize) -> (usize, Vec<crate::nodes::AbortOnDrop<()>>) {
    let up = Arc::new(Mutex::new(0usize));
    let mut guards = Vec::new();
    guards.push(spawn_scoped(async move {
        let Ok(l) = octo_squirrel::verif::net::TcpListener::bind(SocketAddr::new(IpAddr::V4(Ipv4Addr::from(CROWD_IP)), CROWD_PORT)).await else { return };
        let mut held = Vec::new();
        loop {
            let Ok((s, _)) = l.accept().await else { return };
            held.push(s);
        }
    }));
    tokio::task::yield_now().await;
    for i in 0..n {
        let up = up.clone();
        guards.push(spawn_scoped(async move {
            let f = TcpFlow { hs: LocalHs::Socks5V4, target_name: None, target_ip: CROWD_IP, target_port: CROWD_PORT, start_ms: 0, up: vec![], down: vec![], target_waits_for: 1, ending: Ending::None, target_fault: None };
            let Ok(mut s) = TcpStream::connect(client_addr()).await else { return };
            if local_handshake(&mut s, &f).await.is_err() {
                return;
            }
            // the first payload opens the tunnel at the server
            let _ = s.write_all(format!("crowd-{i}").as_bytes()).await;
            *up.lock().unwrap() += 1;
            std::future::pending::<()>().await;
        }));
    }
    for _ in 0..80 {
        tokio::time::sleep(Duration::from_millis(250)).await;
        if *up.lock().unwrap() == n {
            break;
        }
    }
    let k = *up.lock().unwrap();
    (k, guards)
}

#[derive(Default, Debug)]
struct HsObs {
    replies: Vec<Vec<u8>>,
    err: Option<String>,
    app_recv: Vec<u8>,
    app_end: Option<End>,
    app_end_ns: u64,
    target_recv: Vec<u8>,
    target_accepts: usize,
    handshake_done_ns: Option<u64>,
}

async fn send_cut(s: &mut TcpStream, msg: &[u8], base: usize, cuts: &[usize]) -> std::io::Result<()> {
    let mut start = 0;
    // the client gives a local handshake 30 s: however many pieces there are, all of them are on their way within 15 s
    // (a handshake dribbled over more than that is legitimately timed out - not a matter of segmentation)
    let pieces = cuts.iter().filter(|c| **c > base && **c < base + msg.len()).count().max(1) as u64;
    let gap = Duration::from_millis(100.min(15_000 / pieces).max(1));
    for (i, _) in msg.iter().enumerate() {
        let abs = base + i;
        if i > start && cuts.contains(&abs) {
            s.write_all(&msg[start..i]).await?;
            start = i;
            // let the client consume the piece and go quiet
            tokio::time::sleep(gap).await;
        }
    }
    s.write_all(&msg[start..]).await
}

async fn read_n(s: &mut TcpStream, n: usize, secs: u64) -> Result<Vec<u8>, String> {
    let mut buf = vec![0u8; n];
    match tokio::time::timeout(Duration::from_secs(secs), s.read_exact(&mut buf)).await {
        Ok(Ok(_)) => Ok(buf),
        Ok(Err(e)) => Err(format!("reply read failed: {:?}", e.kind())),
        Err(_) => Err("no reply within the deadline".to_owned()),
    }
}

async fn app_task(case: HsCase, cuts: Vec<usize>, obs: Arc<Mutex<HsObs>>) {
    let mut s = match TcpStream::connect(client_addr()).await {
        Ok(s) => s,
        Err(e) => {
            obs.lock().unwrap().err = Some(format!("connect: {e}"));
            return;
        }
    };
    s.set_own_styles(0, 0);
    s.set_peer_read_style(0);
    s.set_caps(1 << 20, 1 << 20);
    let up = payload(0, 0, 0, case.payload_up);
    let res: Result<(), String> = async {
        match case.kind.as_str() {
            "socks5" => {
                send_cut(&mut s, &case.messages[0], 0, &cuts).await.map_err(|e| format!("write: {:?}", e.kind()))?;
                let r = read_n(&mut s, 2, 40).await?;
                obs.lock().unwrap().replies.push(r);
                send_cut(&mut s, &case.messages[1], case.messages[0].len(), &cuts).await.map_err(|e| format!("write: {:?}", e.kind()))?;
                let head = read_n(&mut s, 4, 40).await?;
                let rest = match head[3] {
                    1 => read_n(&mut s, 6, 40).await?,
                    4 => read_n(&mut s, 18, 40).await?,
                    3 => {
                        let l = read_n(&mut s, 1, 40).await?;
                        let mut v = l.clone();
                        v.extend(read_n(&mut s, l[0] as usize + 2, 40).await?);
                        v
                    }
                    _ => Vec::new(),
                };
                let mut all = head;
                all.extend(rest);
                obs.lock().unwrap().replies.push(all);
            }
            "connect" => {
                send_cut(&mut s, &case.messages[0], 0, &cuts).await.map_err(|e| format!("write: {:?}", e.kind()))?;
                let mut reply = Vec::new();
                loop {
                    let b = read_n(&mut s, 1, 40).await?;
                    reply.push(b[0]);
                    if reply.ends_with(b"\r\n\r\n") || reply.len() > 2048 {
                        break;
                    }
                }
                obs.lock().unwrap().replies.push(reply);
            }
            _ => {
                send_cut(&mut s, &case.messages[0], 0, &cuts).await.map_err(|e| format!("write: {:?}", e.kind()))?;
            }
        }
        Ok(())
    }
    .await;
    if let Err(e) = res {
        let mut o = obs.lock().unwrap();
        o.err = Some(e);
    } else {
        obs.lock().unwrap().handshake_done_ns = Some(now_ns());
        let _ = s.write_all(&up).await;
    }
    // read whatever comes until the end
    let mut buf = vec![0u8; 8192];
    loop {
        match s.read(&mut buf).await {
            Ok(0) => {
                let mut o = obs.lock().unwrap();
                o.app_end = Some(End::Eof);
                o.app_end_ns = now_ns();
                break;
            }
            Ok(n) => obs.lock().unwrap().app_recv.extend_from_slice(&buf[..n]),
            Err(e) => {
                let mut o = obs.lock().unwrap();
                o.app_end = Some(End::Err(format!("{:?}", e.kind())));
                o.app_end_ns = now_ns();
                break;
            }
        }
    }
    std::future::pending::<()>().await;
}

async fn target_task(case: HsCase, want_up: usize, obs: Arc<Mutex<HsObs>>) {
    let ip: IpAddr = case.listen.0.parse().unwrap();
    let Ok(l) = TcpListener::bind(SocketAddr::new(ip, case.listen.1)).await else { return };
    let mut held = Vec::new();
    loop {
        let Ok((mut s, _)) = l.accept().await else { return };
        obs.lock().unwrap().target_accepts += 1;
        let obs = obs.clone();
        let down = payload(0, 1, 0, case.payload_down);
        held.push(tokio::spawn(async move {
            let mut buf = vec![0u8; 8192];
            let mut sent = false;
            loop {
                match s.read(&mut buf).await {
                    Ok(0) | Err(_) => break,
                    Ok(n) => {
                        let len = {
                            let mut o = obs.lock().unwrap();
                            o.target_recv.extend_from_slice(&buf[..n]);
                            o.target_recv.len()
                        };
                        if !sent && len >= want_up.max(1) {
                            sent = true;
                            let _ = s.write_all(&down).await;
                        }
                    }
                }
            }
            std::future::pending::<()>().await;
        }));
    }
}

struct HsRun {
    obs: HsObs,
    server_dials: Vec<(SocketAddr, Option<String>)>,
    dns: Vec<String>,
    panics: Vec<rt::PanicRec>,
    startup_err: Option<String>,
    poll_hash: u64,
    ev_hash: u64,
    sim_ns: u64,
    polls: u64,
    ev_count: u64,
    stats: BTreeMap<String, u64>,
}

fn run_hs(plan: &Plan, case: &HsCase, cuts: Vec<usize>) -> HsRun {
    let want_up = expected_target_bytes(case).len();
    let out = rt::run_sim(plan.seed, plan.net_seed, plan.knobs.to_knobs(), || async {
        if let Some((h, _)) = &case.expect {
            if h.parse::<IpAddr>().is_err() {
                let ip: IpAddr = case.listen.0.parse().unwrap();
                world::with(|w| {
                    w.zone.insert(h.clone(), Some(ip));
                });
            }
        }
        let mains = match start_system(&plan.config, "127.0.0.1", SERVER_PORT).await {
            Ok(m) => m,
            Err(e) => return (HsObs::default(), Some(e)),
        };
        // a local connection *before* the one under test: it sends (part of) a handshake and perhaps more, and goes away.
        // Whatever it left behind is its own; the next connection's request is read from that connection alone.
        if let Some(pre) = plan.extra.get("prelude").and_then(|v| serde_json::from_value::<Vec<u8>>(v.clone()).ok()) {
            if !pre.is_empty() {
                if let Ok(mut s) = TcpStream::connect(client_addr()).await {
                    s.set_own_styles(0, 0);
                    let _ = s.write_all(&pre).await;
                    tokio::time::sleep(Duration::from_millis(300)).await;
                    let mut buf = [0u8; 256];
                    let _ = tokio::time::timeout(Duration::from_millis(50), s.read(&mut buf)).await;
                    drop(s);
                    tokio::time::sleep(Duration::from_millis(300)).await;
                }
            }
        }
        let crowd = plan.extra["crowd"].as_u64().unwrap_or(0) as usize;
        let (crowd_up, _crowd) = if crowd > 0 { open_crowd(crowd).await } else { (0, Vec::new()) };
        if crowd_up < crowd {
            return (HsObs::default(), Some(format!("only {crowd_up} of {crowd} concurrent SOCKS5 tunnels through the client were served")));
        }
        let obs = Arc::new(Mutex::new(HsObs::default()));
        let t = tokio::spawn(target_task(case.clone(), want_up, obs.clone()));
        tokio::task::yield_now().await;
        let a = tokio::spawn(app_task(case.clone(), cuts.clone(), obs.clone()));
        // the client's handshake timeout is 30 s; a refused or stalled handshake is decided after 45 simulated seconds
        let mut waited = 0;
        loop {
            tokio::time::sleep(Duration::from_millis(250)).await;
            waited += 250;
            let done = {
                let o = obs.lock().unwrap();
                o.err.is_some() || o.app_end.is_some() || (o.handshake_done_ns.is_some() && o.target_recv.len() >= want_up && o.app_recv.len() >= case.payload_down)
            };
            if done || waited >= 45_000 {
                break;
            }
        }
        tokio::time::sleep(Duration::from_secs(1)).await;
        a.abort();
        t.abort();
        let _ = a.await;
        let _ = t.await;
        drop(mains);
        let o = std::mem::take(&mut *obs.lock().unwrap());
        (o, None)
    });
    let (obs, startup_err) = out.result;
    HsRun {
        obs,
        server_dials: out.world.connects.iter().filter(|c| c.node == rt::NODE_SERVER && c.dst != SocketAddr::new(IpAddr::V4(Ipv4Addr::from(CROWD_IP)), CROWD_PORT) && c.dst != SocketAddr::new(IpAddr::V4(Ipv4Addr::new(127, 0, 66, 6)), 6666) && c.name.as_deref() != Some("other.example")).map(|c| (c.dst, c.name.clone())).collect(),
        dns: out.world.dns_queries.iter().filter(|q| q.node == rt::NODE_SERVER).map(|q| q.name.clone()).collect(),
        panics: out.panics,
        startup_err,
        poll_hash: out.poll_hash,
        ev_hash: out.world.ev_hash,
        sim_ns: out.sim_ns,
        polls: out.polls,
        ev_count: out.world.ev_count,
        stats: crate::report::world_stats(&out.world),
    }
}

fn expected_target_bytes(case: &HsCase) -> Vec<u8> {
    let mut v = Vec::new();
    if case.kind == "plain" {
        v.extend_from_slice(&case.messages[0]);
    }
    v.extend(payload(0, 0, 0, case.payload_up));
    v
}

fn check_hs(plan: &Plan, case: &HsCase, r: &HsRun, what: &str, seg: &str) -> Vec<Violation> {
    let mut v = Vec::new();
    let kind = &case.kind;
    let variant = &case.variant;
    let sig = |oracle: &str| format!("C13/{oracle}/{kind}/{variant}/{seg}");
    for p in &r.panics {
        v.push(Violation::new("C13", format!("C13/panic/{kind}/{variant}/{seg}/{}", p.frame), format!("{what}: panic in node {}: {} at {}", p.node, p.message, p.location)));
    }
    if let Some(e) = &r.startup_err {
        let oracle = if e.contains("concurrent SOCKS5 tunnels") { "handshakes-wait-for-other-tunnels" } else { "startup" };
        v.push(Violation::new("C13", format!("C13/{oracle}/{}", plan.config.label()), e.clone()));
        return v;
    }
    let o = &r.obs;
    match &case.expect {
        None => {
            // malformed / unsupported: no tunnel, connection closed
            if !r.server_dials.is_empty() || o.target_accepts > 0 {
                v.push(Violation::new("C13", sig("malformed-tunnelled"), format!("{what}: a tunnel was opened to {:?} for a request that must be refused", r.server_dials)));
            }
            if o.app_end.is_none() {
                v.push(Violation::new("C13", sig("malformed-not-closed"), format!("{what}: the connection was still open 45 simulated seconds after a request that must be refused (replies {:?})", o.replies)));
            }
        }
        Some((host, port)) => {
            let want = expected_target_bytes(case);
            let listen: IpAddr = case.listen.0.parse().unwrap();
            let want_addr = SocketAddr::new(listen, *port);
            if let Some(e) = &o.err {
                v.push(Violation::new("C13", sig("refused-wellformed"), format!("{what}: {e}; application end {:?}, replies {:?}", o.app_end, o.replies)));
                if !r.server_dials.is_empty() {
                    v.push(Violation::new("C13", sig("dial-despite-failure"), format!("{what}: server dialled {:?}", r.server_dials)));
                }
                return v;
            }
            // replies
            match kind.as_str() {
                "socks5" => {
                    if o.replies.first().map(|r| r.as_slice()) != Some(&[5, 0][..]) {
                        v.push(Violation::new("C13", sig("bad-method-reply"), format!("{what}: method selection reply {:?}", o.replies.first())));
                    }
                    let ok = o.replies.get(1).is_some_and(|r| r.len() >= 4 && r[0] == 5 && r[1] == 0 && r[2] == 0 && matches!(r[3], 1 | 3 | 4));
                    if !ok {
                        v.push(Violation::new("C13", sig("bad-command-reply"), format!("{what}: command reply {:?}", o.replies.get(1))));
                    }
                }
                "connect" => {
                    let ok = o.replies.first().is_some_and(|r| r.starts_with(b"HTTP/1.1 200") && r.ends_with(b"\r\n\r\n"));
                    if !ok {
                        v.push(Violation::new("C13", sig("bad-connect-reply"), format!("{what}: reply {:?}", o.replies.first().map(|r| String::from_utf8_lossy(r).to_string()))));
                    }
                }
                _ => {}
            }
            // exactly the requested target
            let dials: Vec<_> = r.server_dials.iter().filter(|(d, _)| *d == want_addr).collect();
            if dials.len() != 1 || r.server_dials.len() != 1 {
                v.push(Violation::new("C13", sig(if r.server_dials.is_empty() { "no-dial" } else { "wrong-dial" }), format!("{what}: wanted one dial to {want_addr} ({host}), server dialled {:?}, resolved {:?}; app end {:?}", r.server_dials, r.dns, o.app_end)));
            }
            if host.parse::<IpAddr>().is_err() && !r.dns.iter().any(|n| n == host) && !r.server_dials.is_empty() {
                v.push(Violation::new("C13", sig("wrong-name"), format!("{what}: server resolved {:?}, wanted {host:?}", r.dns)));
            }
            // exactly the bytes after the handshake (or the untouched request)
            if o.target_recv != want {
                let at = crate::scen_tcp::first_mismatch(&o.target_recv, &want);
                let oracle = if at.is_some() { if kind == "plain" { "request-altered" } else { "handshake-bytes-leaked" } } else { "payload-incomplete" };
                v.push(Violation::new("C13", sig(oracle), format!("{what}: target received {} bytes, expected {} (first difference at {:?}); target got {:?}...", o.target_recv.len(), want.len(), at, String::from_utf8_lossy(&o.target_recv[..o.target_recv.len().min(60)]))));
            }
            let want_down = payload(0, 1, 0, case.payload_down);
            if o.target_recv == want && o.app_recv != want_down {
                v.push(Violation::new("C13", sig("answer-incomplete"), format!("{what}: application received {} of {} answer bytes", o.app_recv.len(), want_down.len())));
            }
        }
    }
    v
}

pub fn execute_c13(plan: &Plan) -> Outcome {
    let case: HsCase = serde_json::from_value(plan.extra["case"].clone()).expect("case");
    let total: usize = case.messages.iter().map(|m| m.len()).sum();
    let mut violations: Vec<Violation> = Vec::new();
    let mut stats = BTreeMap::new();
    let mut probes = BTreeMap::new();
    let mut extra_cases = Vec::new();
    let (mut evals, mut sim_ns, mut polls, mut ev_count) = (0u64, 0, 0, 0);
    let mut panics = Vec::new();
    let only: Option<Vec<Vec<usize>>> = plan.extra.get("only_cuts").and_then(|v| serde_json::from_value(v.clone()).ok());
    // segmentation class of a cut set (part of the signature): for HTTP, a cut inside the request line is a different
    // situation from a cut inside the header block
    let request_line_len = if case.kind == "socks5" { 0 } else { case.messages[0].windows(2).position(|w| w == b"\r\n").map(|p| p + 2).unwrap_or(case.messages[0].len()) };
    let classify = move |c: &Vec<usize>| -> &'static str {
        if c.is_empty() {
            "whole"
        } else if request_line_len == 0 {
            "split"
        } else if c.iter().any(|k| *k < request_line_len) {
            "split-request-line"
        } else {
            "split-headers"
        }
    };
    let mut cases: Vec<(Vec<usize>, &'static str)> = vec![(vec![], "whole")];
    if let Some(list) = only {
        cases = list.into_iter().map(|c| (c.clone(), classify(&c))).collect();
    } else if plan.extra["crowd"].as_u64().unwrap_or(0) > 0 {
        let mut g = Gen::new(plan.extra["sub_seed"].as_u64().unwrap_or(1), 4);
        for _ in 0..6 {
            if total > 2 {
                let k = g.range(1, total as u64 - 1) as usize;
                cases.push((vec![k], classify(&vec![k])));
            }
        }
        probes.insert("plans_with_a_crowd_of_open_tunnels".to_owned(), 1);
    } else {
        for k in 1..total {
            // a cut at a message boundary is no cut (the application waits for the reply there anyway)
            if case.kind == "socks5" && k == case.messages[0].len() {
                continue;
            }
            cases.push((vec![k], classify(&vec![k])));
        }
        let mut g = Gen::new(plan.extra["sub_seed"].as_u64().unwrap_or(1), 3);
        for _ in 0..plan.extra["multi_samples"].as_u64().unwrap_or(10) {
            if total < 4 {
                break;
            }
            let k = g.range(2, 8.min(total as u64 - 1));
            let mut cuts: Vec<usize> = (0..k).map(|_| g.range(1, total as u64 - 1) as usize).collect();
            cuts.sort();
            cuts.dedup();
            let cl = classify(&cuts);
            cases.push((cuts, cl));
        }
        if total > 1 {
            let all: Vec<usize> = (1..total).collect();
            let cl = classify(&all);
            cases.push((all, cl));
        }
    }
    let mut base: Option<(u64, u64)> = None;
    let mut whole_ok = true;
    for (cuts, seg) in cases {
        let r = run_hs(plan, &case, cuts.clone());
        evals += 1;
        sim_ns += r.sim_ns;
        polls += r.polls;
        ev_count += r.ev_count;
        for (k, v) in &r.stats {
            *stats.entry(k.clone()).or_insert(0) += v;
        }
        if base.is_none() {
            base = Some((r.poll_hash, r.ev_hash));
        }
        if evals > 1 {
            extra_cases.push(r.poll_hash ^ cuts.iter().fold(plan.seed.wrapping_mul(31), |a, c| a.wrapping_mul(1099511628211) ^ *c as u64));
        }
        let what = if cuts.is_empty() { "delivered whole".to_owned() } else { format!("cut at {cuts:?} of {total} handshake bytes") };
        let vs = check_hs(plan, &case, &r, &what, seg);
        if seg == "whole" && !vs.is_empty() {
            whole_ok = false;
        }
        panics.extend(r.panics.clone());
        for v in vs {
            // a defect of the unsegmented handshake is reported once, not again for every cut
            let as_whole = |s: &str| s.rsplit_once('/').map(|(a, _)| a.to_owned()).unwrap_or_default();
            if seg != "whole" && !whole_ok && violations.iter().any(|x| x.signature.ends_with("/whole") && as_whole(&x.signature) == as_whole(&v.signature)) {
                continue;
            }
            if !violations.iter().any(|x| x.signature == v.signature) {
                violations.push(v.with_patch(serde_json::json!({ "only_cuts": [cuts] })));
            }
        }
    }
    probes.insert("handshake_bytes".to_owned(), total as u64);
    probes.insert(format!("cases_{}_{}", case.kind, if case.expect.is_some() { "wellformed" } else { "malformed" }), 1);
    probes.insert("segmentations".to_owned(), evals);
    let (poll_hash, ev_hash) = base.unwrap_or((0, 0));
    Outcome {
        violations,
        ev_hash,
        ev_count,
        poll_hash,
        polls,
        sim_ns,
        stats,
        nontrivial: true,
        case_hash: poll_hash ^ plan.seed.wrapping_mul(0x9E3779B97F4A7C15),
        probes,
        panics,
        extra_evaluations: evals.saturating_sub(1),
        extra_cases,
    }
}
