//! Known answers taken from the repository's own unit tests (they pin a few helpers against other
//! implementations); replayed here as a sanity check of the reference itself.
use base64ct::Encoding;

fn b64(s: &str) -> Vec<u8> {
    base64ct::Base64::decode_vec(s).unwrap()
}

#[test]
fn evp_bytes_to_key() {
    let pw = b"Personal search-enabled assistant for programmers";
    assert_eq!(base64ct::Base64::encode_string(&refimpl::ss::evp_bytes_to_key(pw, 16)), "zsWfM5hwvmTusK6sGOop5w==");
    assert_eq!(base64ct::Base64::encode_string(&refimpl::ss::evp_bytes_to_key(pw, 32)), "zsWfM5hwvmTusK6sGOop57hBNhUblVO/PpBKSm34Vu4=");
}

#[test]
fn blake3_session_subkey() {
    let key = b64("Lc3tTx0BY6ZJ/fCwOx3JvF0I/anhwJBO5p2+FA5Vce4=");
    let salt = b64("3oFO0VyLyGI4nFN0M9P+62vPND/L6v8IingaPJWTbJA=");
    assert_eq!(base64ct::Base64::encode_string(&refimpl::ss2022::session_subkey(&key, &salt, 32)), "EdNE+4U8dVnHT0+poAFDK2bdlwfrHT61sUNr9WYPh+E=");
}

#[test]
fn identity_header() {
    let ipsk = b64("leWhlhIIhjHhGeaGVpqpRA==");
    let upsk = b64("BomScdlR6tXdKxm4FyZg9g==");
    let salt = b64("/xyg1YnI2gNuMydqgt8MgbfT0zDMougbi64SbDsVn1Q=");
    // the repository's test uses the 256-bit variant with 16-byte keys: identity subkey is 32 bytes there
    let sub = refimpl::ss2022::identity_subkey(&ipsk, &salt, 32);
    let mut block = refimpl::ss2022::psk_hash(&upsk);
    refimpl::aes_ecb_encrypt_block(&sub, &mut block);
    assert_eq!(base64ct::Base64::encode_string(&block), "jGIxVuv1qqwcBYak0kGGaA==");
}

#[test]
fn fnv_and_chacha_key() {
    let data = b"fn bubble_sort<T: Ord>(arr: &mut [T]) {let mut swapped = true;while swapped {swapped = false;for i in 1..arr.len() {if arr[i - 1] > arr[i] {arr.swap(i - 1, i);swapped = true;}}}}";
    assert_eq!(refimpl::vmess::fnv1a32(data), 3156541508);
}

#[test]
fn vmess_kdf() {
    // protocol::vmess::aead::test::test_kdf / test_kdf16 / test_kdfn use these inputs
    let out = refimpl::vmess::kdf(b"Demo Key for KDF Value Test", &[b"Demo Path for KDF Value Test", b"Demo Path for KDF Value Test2", b"Demo Path for KDF Value Test3"]);
    let hex: String = out.iter().map(|b| format!("{b:02x}")).collect();
    assert_eq!(hex, "53e9d7e1bd7bd25022b71ead07d8a596efc8a845c7888652fd684b4903dc8892");
}

#[test]
fn stream_round_trip() {
    let addr = refimpl::Addr::Name(b"example.org".to_vec(), 443);
    let s = refimpl::ss::client_stream("aes-256-gcm", b"pw", &[7u8; 32], &addr, &[b"hello".to_vec(), vec![9u8; 40000]]);
    let mut p = refimpl::ss::StreamParser::new("aes-256-gcm", b"pw", true);
    for piece in s.chunks(777) {
        p.feed(piece).unwrap();
    }
    assert_eq!(p.addr, Some(addr));
    assert_eq!(p.plain.len(), 40005);
    assert!(p.dec.as_ref().unwrap().chunk_lens.iter().all(|l| *l <= 0x3FFF));
}

#[test]
fn vmess_repo_vectors() {
    let e = |b: &[u8]| base64ct::Base64::encode_string(b);
    assert_eq!(e(&refimpl::vmess::kdf(b"Demo Key for Auth ID Test", &[])), "e50sLh+rC0B6LsALqzcblmfKNfZnQIbvOEJRgh9gBfg=");
    assert_eq!(e(&refimpl::vmess::kdf16(b"Demo Key for Auth ID Test", &[b"Demo Path for Auth ID Test"])), "ZuQa1H+nRfv9HpcyXpPb9A==");
    let uuid = refimpl::vmess::parse_uuid("b831381d-6324-4d53-ad4f-8cda48b30811").unwrap();
    assert_eq!(e(&refimpl::vmess::cmd_key(&uuid)), "tQ2RasDOwGeYGvjl84p1jw==");
}

#[test]
fn vmess_body_round_trip_all_option_masks() {
    for sec in [refimpl::vmess::SEC_AES128GCM, refimpl::vmess::SEC_CHACHA20] {
        for mask in 0..8u8 {
            let options = 1 | ((mask & 1) * 4) | ((mask >> 1 & 1) * 8) | ((mask >> 2 & 1) * 16);
            let r = refimpl::vmess::Request { body_iv: [3; 16], body_key: [4; 16], resp_auth: 9, options, security: sec, command: 1, addr: refimpl::Addr::V4([1, 2, 3, 4], 80), padding: 3 };
            let mut enc = refimpl::vmess::request_body(&r);
            let mut dec = refimpl::vmess::request_body(&r);
            let mut wire = Vec::new();
            wire.extend(enc.write(&[7u8; 5000], 1900));
            wire.extend(enc.write(b"x", 1900));
            let mut got = Vec::new();
            for piece in wire.chunks(313) {
                for c in dec.feed(piece).unwrap() {
                    got.extend(c);
                }
            }
            assert_eq!(got.len(), 5001, "options {options} security {sec}");
            let h = refimpl::vmess::header_bytes(&r);
            let ck = [5u8; 16];
            let sealed = refimpl::vmess::seal_header(&ck, 1000, [1, 2, 3, 4], [9; 8], &h);
            let o = refimpl::vmess::open_header(&[ck], 1010, &sealed).unwrap().unwrap();
            assert_eq!(o.used, sealed.len());
            assert_eq!(o.request.addr, r.addr);
            let rh = refimpl::vmess::response_header(&r, r.resp_auth, options);
            assert_eq!(refimpl::vmess::open_response_header(&r, &rh).unwrap().unwrap().2, rh.len());
        }
    }
}

#[test]
fn ss2022_round_trip() {
    for (cipher, n) in [("2022-blake3-aes-128-gcm", 16usize), ("2022-blake3-aes-256-gcm", 32), ("2022-blake3-chacha20-poly1305", 32), ("2022-blake3-chacha8-poly1305", 32)] {
        let ipsk = vec![1u8; n];
        let upsk = vec![2u8; n];
        let aes = refimpl::ss2022::is_aes(cipher);
        let keys = if aes { vec![ipsk.clone(), upsk.clone()] } else { vec![ipsk.clone()] };
        let addr = refimpl::Addr::Name(b"a.b".to_vec(), 1);
        let o = refimpl::ss2022::ReqOpts { stream_type: 0, timestamp: 5000, padding: 0, initial_payload: true };
        let salt = vec![9u8; n];
        let (mut wire, mut enc) = refimpl::ss2022::request(cipher, &keys, &salt, &addr, b"first", &o);
        wire.extend(enc.write(&[1u8; 70000]));
        let users = if aes { vec![vec![8u8; n], upsk.clone()] } else { vec![] };
        let mut p = refimpl::ss2022::RequestParser::new(cipher, &ipsk, &users, 5010);
        for piece in wire.chunks(4096) {
            p.feed(piece).unwrap();
        }
        let r = p.req.unwrap();
        assert_eq!(r.addr, Some(addr.clone()));
        assert_eq!(r.payload.len(), 70005);
        assert_eq!(r.user_index, if aes { Some(1) } else { None });
        let key = if aes { upsk.clone() } else { ipsk.clone() };
        let (mut wire, mut enc) = refimpl::ss2022::response(cipher, &key, &vec![4u8; n], &salt, b"resp", 1, 5000);
        wire.extend(enc.write(b"more"));
        let mut p = refimpl::ss2022::ResponseParser::new(cipher, &key, &salt, 5001);
        p.feed(&wire).unwrap();
        assert_eq!(p.resp.unwrap().payload, b"respmore");
        // udp
        let b = refimpl::ss2022::UdpBody { session_id: 77, packet_id: 3, stream_type: 0, timestamp: 5000, client_session_id: None, padding: 5, addr: addr.clone(), payload: b"dgram".to_vec() };
        if aes {
            let pkt = refimpl::ss2022::udp_packet_aes(cipher, &keys, &b);
            let (body, idx, _, eih) = refimpl::ss2022::udp_open_aes(cipher, &ipsk, &users, 1, &pkt, false).unwrap();
            assert_eq!((body.payload, idx), (b"dgram".to_vec(), 1));
            assert_eq!(eih[0], refimpl::ss2022::psk_hash(&upsk));
        } else {
            let pkt = refimpl::ss2022::udp_packet_chacha(cipher, &ipsk, &[6u8; 24], &b);
            let (body, _) = refimpl::ss2022::udp_open_chacha(cipher, &ipsk, &pkt, false).unwrap();
            assert_eq!(body.payload, b"dgram");
        }
    }
}
