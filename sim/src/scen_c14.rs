//! C14 – addresses survive encoding exactly or are refused.
//!
//! System half: an application asks the real client for a target whose name has
//! every length 0..=1024 (SOCKS5 for what fits its one-byte length, HTTP
//! CONNECT / absolute-URI for longer ones), over every protocol family, followed
//! by payload. The link between client and server runs through the (transparent)
//! man-in-the-middle node, which counts what the client puts on the wire.
//! Oracle: either the server resolves and dials exactly that name and port and
//! the target receives exactly the payload, or nothing at all is sent toward
//! the server – never a different address plus shifted payload, never a panic.
//!
//! Codec half: `socks5::address::{encode, decode}` and
//! `vmess::address::{write,read}_address_port` directly, same generator, with a
//! trailing payload (what is left after decoding must be exactly the tail).

use std::collections::BTreeMap;
use std::net::IpAddr;
use std::net::Ipv4Addr;
use std::net::SocketAddr;
use std::sync::Arc;
use std::sync::Mutex;
use std::time::Duration;

use bytes::BytesMut;
use octo_squirrel::protocol::address::Address;
use octo_squirrel::verif::net::TcpListener;
use octo_squirrel::verif::net::TcpStream;
use octo_squirrel::verif::world;
use tokio::io::AsyncReadExt;
use tokio::io::AsyncWriteExt;

use crate::nodes::*;
use crate::plan::*;
use crate::proxy::DirScript;
use crate::report::Outcome;
use crate::report::Violation;
use crate::rnd::Gen;
use crate::rt;

const TARGET_PORT_BASE: u16 = 20000;

pub fn gen_c14(seed: u64, _thorough: bool) -> Plan {
    let mut g = Gen::new(seed, 14);
    // seed -> (family, length): lengths 0..=1024 are enumerated, the family cycles
    let families: [(Proto, &str); 4] = [(Proto::Shadowsocks, "aes-256-gcm"), (Proto::Shadowsocks, "2022-blake3-aes-128-gcm"), (Proto::Vmess, "aes-128-gcm"), (Proto::Trojan, "aes-128-gcm")];
    let len = (seed % 1025) as usize;
    let (proto, cipher) = families[(seed / 1025) as usize % families.len()];
    let config = gen_config(&mut g, proto, cipher, Transport::Tcp, 0);
    // name bytes: mostly host-name characters; SOCKS5 names may also carry arbitrary bytes
    let kind = if len <= 255 { *g.pick(&["socks5", "socks5", "socks5-bytes", "connect", "plain"]) } else { *g.pick(&["connect", "plain"]) };
    let mut name: Vec<u8> = (0..len).map(|_| *g.pick(b"abcdefghijklmnopqrstuvwxyz0123456789-")).collect();
    if kind == "socks5-bytes" {
        for b in name.iter_mut() {
            if g.chance(30) {
                *b = g.below(256) as u8;
            }
        }
    } else if len > 3 {
        // dots now and then
        let mut i = g.range(1, 20) as usize;
        while i + 1 < len {
            name[i] = b'.';
            i += g.range(2, 40) as usize;
        }
    }
    // names with multi-byte UTF-8 characters: the byte length is still exactly `len`, the character count is smaller
    // (SOCKS5 carries any bytes, and the HTTP request parser lets bytes >= 0x80 through in the request target)
    let utf8 = kind != "socks5-bytes" && len >= 2 && g.chance(35);
    if utf8 {
        let pool: [&str; 10] = ["a", "b", "0", "-", "\u{e9}", "\u{df}", "\u{4e2d}", "\u{6587}", "\u{1f600}", "\u{44f}"];
        let mut out: Vec<u8> = Vec::with_capacity(len);
        // a heavy draw makes (almost) every character multi-byte, so that len/3 .. len/2 characters give len bytes
        let heavy = g.chance(60);
        while out.len() < len {
            let room = len - out.len();
            let c = if heavy && room >= 2 { pool[4 + g.below(6) as usize] } else { *g.pick(&pool) };
            if c.len() <= room {
                out.extend_from_slice(c.as_bytes());
            } else {
                out.push(b'x');
            }
        }
        name = out;
    }
    // bytes that are delimiters somewhere in the carrying formats (CR LF of the Trojan request line and of HTTP, NUL, ':', '/',
    // ' ', '@', '?', '#', '%'): inside a length-prefixed or fixed-width binary field they are ordinary bytes
    if kind == "socks5-bytes" && len >= 4 && g.chance(35) {
        let pool: [&[u8]; 12] = [b"\r\n", b"\n", b"\r\n\r\n", b"\0", b":", b"/", b" ", b"@", b"?", b"#", b"%0d%0a", b"\r"];
        let d: &[u8] = pool[g.below(pool.len() as u64) as usize];
        if d.len() < len {
            let at = g.range(0, (len - d.len()) as u64) as usize;
            name[at..at + d.len()].copy_from_slice(d);
        }
    }
    let port = if g.chance(15) { *g.pick(&[0x0d0au16, 0x0a0d, 0x0d0d, 0x0a0a, 0x000d, 0x000a, 0x0d00, 0x0a00, 0x2f2f, 0x3a3a, 0x2020, 0x0001, 0xffff, 0x0100, 0x00ff]) } else { g.range(1, 65535) as u16 };
    let payload_len = g.range(1, 400) as usize;
    Plan {
        property: "C14".into(),
        scenario: "addresses".into(),
        seed,
        net_seed: g.next(),
        config,
        knobs: KnobsPlan::simple(),
        flows: vec![],
        extra: serde_json::json!({ "kind": kind, "name": name, "port": port, "payload": payload_len, "utf8": utf8 }),
    }
}

#[derive(Default, Clone)]
struct Seen {
    startup_err: Option<String>,
    hs_failed: Option<String>,
    app_end: Option<String>,
    target_recv: Vec<u8>,
    target_accepts: usize,
    c2s_bytes: usize,
    dials: Vec<(SocketAddr, Option<String>)>,
    dns: Vec<String>,
}

pub fn execute_c14(plan: &Plan) -> Outcome {
    let kind = plan.extra["kind"].as_str().unwrap_or("socks5").to_owned();
    let name: Vec<u8> = serde_json::from_value(plan.extra["name"].clone()).unwrap_or_default();
    let port = plan.extra["port"].as_u64().unwrap_or(80) as u16;
    let payload_len = plan.extra["payload"].as_u64().unwrap_or(10) as usize;
    let name_str = String::from_utf8(name.clone()).ok();
    let target_ip = Ipv4Addr::new(127, 0, 14, 1);
    let data = payload(0, 0, 0, payload_len);
    let out = rt::run_sim(plan.seed, plan.net_seed, plan.knobs.to_knobs(), || async {
        let mut seen = Seen::default();
        if let Some(n) = name_str.as_ref().filter(|n| !n.is_empty()) {
            world::with(|w| {
                w.zone.insert(n.clone(), Some(IpAddr::V4(target_ip)));
                // what a truncated or re-interpreted name would look like must not resolve by accident
            });
        }
        if is_2022(&plan.config.cipher) {
            world::with(|w| {
                w.first_atomic_ports.push(SERVER_PORT);
                w.first_atomic_ports.push(crate::proxy::PROXY_PORT);
            });
        }
        let pobs = Arc::new(Mutex::new(crate::proxy::ProxyObs::default()));
        let _proxy = spawn_scoped(crate::proxy::run_proxy(DirScript::default(), DirScript::default(), pobs.clone()));
        let mains = match start_system(&plan.config, "127.0.0.1", crate::proxy::PROXY_PORT).await {
            Ok(m) => m,
            Err(e) => {
                seen.startup_err = Some(e);
                return seen;
            }
        };
        // the target listens on the requested port at the address the name resolves to; every other port is closed
        let recv = Arc::new(Mutex::new((Vec::<u8>::new(), 0usize)));
        let r2 = recv.clone();
        let _target = spawn_scoped(async move {
            let Ok(l) = TcpListener::bind(SocketAddr::new(IpAddr::V4(target_ip), port)).await else { return };
            let mut held = Vec::new();
            loop {
                let Ok((mut s, _)) = l.accept().await else { return };
                r2.lock().unwrap().1 += 1;
                let r3 = r2.clone();
                held.push(spawn_scoped(async move {
                    let mut buf = vec![0u8; 4096];
                    loop {
                        match s.read(&mut buf).await {
                            Ok(0) | Err(_) => break,
                            Ok(n) => r3.lock().unwrap().0.extend_from_slice(&buf[..n]),
                        }
                    }
                    std::future::pending::<()>().await;
                }));
            }
        });
        tokio::task::yield_now().await;
        let mut s = match TcpStream::connect(client_addr()).await {
            Ok(s) => s,
            Err(e) => {
                seen.hs_failed = Some(format!("connect: {e}"));
                return seen;
            }
        };
        s.set_own_styles(0, 0);
        s.set_peer_read_style(0);
        s.set_caps(1 << 20, 1 << 20);
        let hs: Result<(), String> = async {
            match kind.as_str() {
                "socks5" | "socks5-bytes" => {
                    s.write_all(&[5, 1, 0]).await.map_err(|e| e.to_string())?;
                    let mut r = [0u8; 2];
                    tokio::time::timeout(Duration::from_secs(35), s.read_exact(&mut r)).await.map_err(|_| "no method reply".to_owned())?.map_err(|e| e.to_string())?;
                    let mut req = vec![5, 1, 0, 3, name.len() as u8];
                    req.extend_from_slice(&name);
                    req.extend_from_slice(&port.to_be_bytes());
                    // every other case the request arrives in two segments, cut at a point drawn from the case (inside the
                    // name, before or inside the port): the address is what was sent, not what the first segment held
                    let cut = if plan.seed % 2 == 1 && req.len() > 6 { 5 + (plan.net_seed as usize % (req.len() - 5)) } else { req.len() };
                    s.write_all(&req[..cut]).await.map_err(|e| e.to_string())?;
                    if cut < req.len() {
                        tokio::time::sleep(Duration::from_millis(700)).await;
                        s.write_all(&req[cut..]).await.map_err(|e| e.to_string())?;
                    }
                    let mut head = [0u8; 10];
                    tokio::time::timeout(Duration::from_secs(35), s.read_exact(&mut head)).await.map_err(|_| "no command reply".to_owned())?.map_err(|e| format!("command reply: {e}"))?;
                    if head[1] != 0 {
                        return Err(format!("command refused with status {}", head[1]));
                    }
                    Ok(())
                }
                "connect" => {
                    let mut req = b"CONNECT ".to_vec();
                    req.extend_from_slice(&name);
                    req.extend_from_slice(format!(":{port} HTTP/1.1\r\n\r\n").as_bytes());
                    s.write_all(&req).await.map_err(|e| e.to_string())?;
                    let mut reply = Vec::new();
                    loop {
                        let mut b = [0u8; 1];
                        tokio::time::timeout(Duration::from_secs(35), s.read_exact(&mut b)).await.map_err(|_| "no CONNECT reply".to_owned())?.map_err(|e| format!("CONNECT reply: {e}"))?;
                        reply.push(b[0]);
                        if reply.ends_with(b"\r\n\r\n") {
                            break;
                        }
                    }
                    if !reply.starts_with(b"HTTP/1.1 200") {
                        return Err(format!("CONNECT refused: {}", String::from_utf8_lossy(&reply[..reply.len().min(40)])));
                    }
                    Ok(())
                }
                _ => Ok(()),
            }
        }
        .await;
        let mut sent_after = data.clone();
        if let Err(e) = &hs {
            seen.hs_failed = Some(e.clone());
        } else {
            if kind == "plain" {
                let mut req = b"GET http://".to_vec();
                req.extend_from_slice(&name);
                req.extend_from_slice(format!(":{port}/x HTTP/1.1\r\n\r\n").as_bytes());
                sent_after = req.clone();
                sent_after.extend_from_slice(&data);
                let _ = s.write_all(&req).await;
                tokio::time::sleep(Duration::from_millis(5)).await;
            }
            let _ = s.write_all(&data).await;
        }
        // wait for the outcome: payload at the target, or the end of the application's connection
        let mut buf = [0u8; 256];
        for _ in 0..80 {
            if recv.lock().unwrap().0.len() >= sent_after.len() {
                break;
            }
            match tokio::time::timeout(Duration::from_millis(500), s.read(&mut buf)).await {
                Ok(Ok(0)) => {
                    seen.app_end = Some("eof".into());
                    break;
                }
                Ok(Err(e)) => {
                    seen.app_end = Some(format!("{:?}", e.kind()));
                    break;
                }
                _ => {}
            }
        }
        tokio::time::sleep(Duration::from_secs(1)).await;
        let r = recv.lock().unwrap();
        seen.target_recv = r.0.clone();
        seen.target_accepts = r.1;
        seen.c2s_bytes = pobs.lock().unwrap().c2s.iter().map(|v| v.len()).sum();
        seen.dials = world::with(|w| w.connects.iter().filter(|c| c.node == rt::NODE_SERVER).map(|c| (c.dst, c.name.clone())).collect());
        seen.dns = world::with(|w| w.dns_queries.iter().filter(|q| q.node == rt::NODE_SERVER).map(|q| q.name.clone()).collect());
        drop(mains);
        seen
    });
    let seen = out.result.clone();
    let cell = plan.config.family();
    let len = name.len();
    let class = if len == 0 { "empty" } else if len <= 255 { "1-255" } else { "over-255" };
    let mut v = Vec::new();
    let utf8 = plan.extra["utf8"].as_bool().unwrap_or(false);
    let kind_label = if utf8 { format!("{kind}+utf8") } else { kind.clone() };
    let sig = |oracle: &str| format!("C14/{oracle}/{cell}/{kind_label}/{class}");
    let shown = String::from_utf8_lossy(&name[..name.len().min(24)]).to_string();
    let want_payload: Vec<u8> = if kind == "plain" {
        let mut req = b"GET http://".to_vec();
        req.extend_from_slice(&name);
        req.extend_from_slice(format!(":{port}/x HTTP/1.1\r\n\r\n").as_bytes());
        req.extend_from_slice(&data);
        req
    } else {
        data.clone()
    };
    if let Some(e) = &seen.startup_err {
        v.push(Violation::new("C14", format!("C14/startup/{cell}"), e.clone()));
    } else {
        let want_addr = SocketAddr::new(IpAddr::V4(target_ip), port);
        let exact = seen.dials.len() == 1 && seen.dials[0].0 == want_addr && name_str.as_ref().is_some_and(|n| seen.dns.len() == 1 && &seen.dns[0] == n) && seen.target_recv == want_payload;
        let nothing = seen.c2s_bytes == 0 && seen.dials.is_empty() && seen.dns.is_empty() && seen.target_accepts == 0;
        if !exact && !nothing {
            let oracle = if !seen.dials.is_empty() || !seen.dns.is_empty() { "different-address" } else { "sent-but-not-delivered" };
            v.push(Violation::new(
                "C14",
                sig(oracle),
                format!(
                    "name of {len} bytes ({shown:?}...) port {port}: the client put {} bytes on the wire, the server resolved {:?} and dialled {:?}, the target received {} of {} payload bytes (identical: {}); handshake {:?}, application end {:?}",
                    seen.c2s_bytes,
                    seen.dns.iter().map(|n| format!("{}B:{}", n.len(), String::from_utf8_lossy(&n.as_bytes()[..n.len().min(16)]))).collect::<Vec<_>>(),
                    seen.dials,
                    seen.target_recv.len(),
                    want_payload.len(),
                    seen.target_recv == want_payload,
                    seen.hs_failed,
                    seen.app_end
                ),
            ));
        }
        // representable, well-formed names must actually work; unrepresentable ones must be refused
        // (a non-ASCII name inside an HTTP request target may be refused as malformed; SOCKS5 carries it as it is)
        let well_formed = name_str.is_some() && kind != "socks5-bytes" && (!utf8 || kind == "socks5");
        if (1..=255).contains(&len) && well_formed && !exact && nothing {
            v.push(Violation::new("C14", sig("representable-refused"), format!("name of {len} bytes ({shown:?}...) port {port} was refused: handshake {:?}, application end {:?}", seen.hs_failed, seen.app_end)));
        }
        if (len == 0 || len > 255) && exact {
            v.push(Violation::new("C14", sig("unrepresentable-delivered"), format!("a {len}-byte name was transmitted and dialled although it cannot be represented")));
        }
    }
    for p in &out.panics {
        v.push(Violation::new("C14", format!("C14/panic/{cell}/{kind}/{class}/{}", p.frame), format!("name of {len} bytes: panic in node {}: {} at {}", p.node, p.message, p.location)));
    }
    // ---- codec half: direct round trips with a tail
    let mut evals = 0u64;
    if let Some(n) = &name_str {
        let tail = payload(1, 1, 0, 37);
        let addr = Address::Domain(n.clone(), port);
        // SOCKS5-style
        let r = std::panic::catch_unwind(|| {
            let mut b = BytesMut::new();
            octo_squirrel::protocol::socks5::address::encode(&addr, &mut b);
            b.extend_from_slice(&tail);
            let d = octo_squirrel::protocol::socks5::address::decode(&mut b);
            (d.ok(), b.to_vec())
        });
        evals += 1;
        match r {
            Ok((Some(d), rest)) if d == addr && rest == tail => {}
            Ok((d, rest)) => {
                // `encode` has no way to refuse; an unrepresentable name is the client's to refuse (system half)
                if (1..=255).contains(&len) {
                    v.push(Violation::new("C14", format!("C14/codec-socks5/{class}"), format!("socks5 address codec: a {len}-byte name decoded to {:?} leaving {} bytes (tail is {})", d.map(|a| a.to_string().len()), rest.len(), tail.len())));
                }
            }
            Err(_) => v.push(Violation::new("C14", format!("C14/codec-socks5-panic/{class}"), format!("socks5 address codec panicked on a {len}-byte name"))),
        }
        // VMess-style
        let r = std::panic::catch_unwind(|| {
            let mut b = BytesMut::new();
            let w = octo_squirrel::protocol::vmess::address::write_address_port(&addr, &mut b);
            if w.is_err() {
                return (false, None, Vec::new());
            }
            b.extend_from_slice(&tail);
            let mut frozen = b.freeze();
            let d = octo_squirrel::protocol::vmess::address::read_address_port(&mut frozen);
            (w.is_ok(), d.ok(), frozen.to_vec())
        });
        evals += 1;
        match r {
            Ok((true, Some(d), rest)) if d == addr && rest == tail => {}
            Ok((false, _, _)) if len == 0 || len > 255 => {}
            Ok((w, d, rest)) => v.push(Violation::new("C14", format!("C14/codec-vmess/{class}"), format!("vmess address codec: a {len}-byte name: write ok={w}, decoded to {:?} leaving {} bytes (tail is {})", d.map(|a| a.to_string().len()), rest.len(), tail.len()))),
            Err(_) => v.push(Violation::new("C14", format!("C14/codec-vmess-panic/{class}"), format!("vmess address codec panicked on a {len}-byte name"))),
        }
    }
    // ---- socket addresses (IPv4 and IPv6, including the special ranges) through both encodings, with a tail
    {
        let mut g = Gen::new(plan.seed, 141);
        let tail = payload(2, 1, 0, 29);
        let mut addrs: Vec<SocketAddr> = Vec::new();
        let p = |g: &mut Gen| *g.pick(&[0u16, 1, 80, 443, 255, 256, 65535]);
        let v4 = Ipv4Addr::new(g.below(256) as u8, g.below(256) as u8, g.below(256) as u8, g.below(256) as u8);
        addrs.push(SocketAddr::new(IpAddr::V4(v4), p(&mut g)));
        addrs.push(SocketAddr::new(IpAddr::V4(*g.pick(&[Ipv4Addr::UNSPECIFIED, Ipv4Addr::BROADCAST, Ipv4Addr::LOCALHOST, Ipv4Addr::new(3, 4, 5, 6)])), p(&mut g)));
        let mut rnd = [0u8; 16];
        g.fill(&mut rnd);
        let specials: [std::net::Ipv6Addr; 8] = [
            std::net::Ipv6Addr::LOCALHOST,
            std::net::Ipv6Addr::UNSPECIFIED,
            v4.to_ipv6_mapped(),
            std::net::Ipv6Addr::new(0, 0, 0, 0, 0, 0xffff, 0x0102, 0x0304),
            std::net::Ipv6Addr::new(0x64, 0xff9b, 0, 0, 0, 0, 0x0a00, 0x0001),
            std::net::Ipv6Addr::new(0, 0, 0, 0, 0, 0, 0x0a00, 0x0001),
            std::net::Ipv6Addr::new(0xfe80, 0, 0, 0, 0, 0, 0, 1),
            std::net::Ipv6Addr::from(rnd),
        ];
        for a in specials {
            addrs.push(SocketAddr::new(IpAddr::V6(a), p(&mut g)));
        }
        for sa in addrs {
            let addr = Address::Socket(sa);
            let kind = if sa.is_ipv4() { "ipv4" } else { "ipv6" };
            let r = std::panic::catch_unwind(|| {
                let mut b = BytesMut::new();
                octo_squirrel::protocol::socks5::address::encode(&addr, &mut b);
                b.extend_from_slice(&tail);
                let d = octo_squirrel::protocol::socks5::address::decode(&mut b);
                (d.ok(), b.to_vec())
            });
            evals += 1;
            match r {
                Ok((Some(d), rest)) if d == addr && rest == tail => {}
                Ok((d, rest)) => v.push(Violation::new("C14", format!("C14/codec-socks5/{kind}"), format!("socks5 address codec: {sa} decoded to {d:?} leaving {} bytes (tail is {})", rest.len(), tail.len()))),
                Err(_) => v.push(Violation::new("C14", format!("C14/codec-socks5-panic/{kind}"), format!("socks5 address codec panicked on {sa}"))),
            }
            let r = std::panic::catch_unwind(|| {
                let mut b = BytesMut::new();
                let w = octo_squirrel::protocol::vmess::address::write_address_port(&addr, &mut b);
                b.extend_from_slice(&tail);
                let mut frozen = b.freeze();
                let d = octo_squirrel::protocol::vmess::address::read_address_port(&mut frozen);
                (w.is_ok(), d.ok(), frozen.to_vec())
            });
            evals += 1;
            match r {
                Ok((true, Some(d), rest)) if d == addr && rest == tail => {}
                Ok((w, d, rest)) => v.push(Violation::new("C14", format!("C14/codec-vmess/{kind}"), format!("vmess address codec: {sa}: write ok={w}, decoded to {d:?} leaving {} bytes (tail is {})", rest.len(), tail.len()))),
                Err(_) => v.push(Violation::new("C14", format!("C14/codec-vmess-panic/{kind}"), format!("vmess address codec panicked on {sa}"))),
            }
        }
        v.dedup_by(|a, b| a.signature == b.signature);
    }
    let _ = crate::rt::take_panics();
    let mut probes = BTreeMap::new();
    probes.insert(format!("names_{class}"), 1);
    probes.insert(format!("via_{kind_label}"), 1);
    probes.insert("codec_round_trips".to_owned(), evals);
    Outcome {
        violations: v,
        ev_hash: out.world.ev_hash,
        ev_count: out.world.ev_count,
        poll_hash: out.poll_hash,
        polls: out.polls,
        sim_ns: out.sim_ns,
        stats: crate::report::world_stats(&out.world),
        nontrivial: true,
        case_hash: plan.seed.wrapping_mul(0x9E3779B97F4A7C15) ^ out.poll_hash,
        probes,
        panics: out.panics,
        extra_evaluations: evals,
        extra_cases: Vec::new(),
    }
}

// ---------------------------------------------------------------- datagram half

/// C14, datagram part: the same question for the addresses that travel with every datagram - SOCKS5-UDP at the local
/// side, then the Shadowsocks datagram layouts (legacy, 2022) or the datagram frames inside a VMess / Trojan stream.
/// seed -> (family, address): names of every length 0..=255 (SOCKS5-UDP cannot carry longer ones), IPv4 literals;
/// contents as in the stream part (host-name characters, arbitrary bytes, multi-byte UTF-8).
/// Oracle: the server resolves exactly that name, sends exactly the payload to exactly (resolved address, port), once -
/// or nothing reaches any target and no other name is resolved; well-formed names of 1..=255 bytes must be delivered,
/// the empty name refused.
pub fn gen_c14_udp(seed: u64, _thorough: bool) -> Plan {
    let mut g = Gen::new(seed, 141);
    let families: [(Proto, &str, Transport); 4] = [(Proto::Shadowsocks, "aes-256-gcm", Transport::Tcp), (Proto::Shadowsocks, "2022-blake3-aes-128-gcm", Transport::Tcp), (Proto::Vmess, "aes-128-gcm", Transport::Tcp), (Proto::Trojan, "aes-128-gcm", Transport::Tls)];
    let len = (seed % 257) as usize;
    let (proto, cipher, transport) = families[(seed / 257) as usize % families.len()];
    let config = crate::scen_udp::udp_config(&mut g, proto, cipher, transport, 0);
    let kind = if len == 256 { "ipv4" } else { *g.pick(&["name", "name", "name-bytes", "name-utf8"]) };
    let len = if len == 256 { 0 } else { len };
    let mut name: Vec<u8> = (0..len).map(|_| *g.pick(b"abcdefghijklmnopqrstuvwxyz0123456789-")).collect();
    match kind {
        "name-bytes" => {
            for b in name.iter_mut() {
                if g.chance(30) {
                    *b = g.below(256) as u8;
                }
            }
        }
        "name-utf8" if len >= 2 => {
            let pool: [&str; 6] = ["\u{e9}", "\u{df}", "\u{4e2d}", "\u{6587}", "\u{1f600}", "\u{44f}"];
            let mut out: Vec<u8> = Vec::with_capacity(len);
            while out.len() < len {
                let c = *g.pick(&pool);
                if c.len() <= len - out.len() { out.extend_from_slice(c.as_bytes()) } else { out.push(b'x') }
            }
            name = out;
        }
        _ => {
            let mut i = g.range(1, 20) as usize;
            while i + 1 < len {
                name[i] = b'.';
                i += g.range(2, 40) as usize;
            }
        }
    }
    Plan {
        property: "C14".into(),
        scenario: "addresses-udp".into(),
        seed,
        net_seed: g.next(),
        config,
        knobs: KnobsPlan::simple(),
        flows: vec![],
        extra: serde_json::json!({ "kind": kind, "name": name, "port": g.range(1, 65535), "payloads": [g.range(1, 400), 0, g.range(0, 40)] }),
    }
}

pub fn execute_c14_udp(plan: &Plan) -> Outcome {
    use octo_squirrel::verif::net::UdpSocket;
    let kind = plan.extra["kind"].as_str().unwrap_or("name").to_owned();
    let name: Vec<u8> = serde_json::from_value(plan.extra["name"].clone()).unwrap_or_default();
    let port = plan.extra["port"].as_u64().unwrap_or(53) as u16;
    let sizes: Vec<usize> = serde_json::from_value(plan.extra["payloads"].clone()).unwrap_or_else(|_| vec![20]);
    let name_str = String::from_utf8(name.clone()).ok();
    // (IPv4 literals: an address with an octet that is an ASCII letter; a *related* address - the same letter in the other case,
    // or one bit away - is served from the same application socket first, so that a relay that takes the two for one shows)
    let target_ip = if kind == "ipv4" { Ipv4Addr::new(127, 0x4a, 14, 2) } else { Ipv4Addr::new(127, 0, 14, 2) };
    let decoy_ip = if kind == "ipv4" { Some(if plan.seed % 2 == 0 { Ipv4Addr::new(127, 0x6a, 14, 2) } else { Ipv4Addr::new(127, 0x4b, 14, 2) }) } else { None };
    let datas: Vec<Vec<u8>> = sizes.iter().enumerate().map(|(i, s)| payload(3, i as u8, 0, *s)).collect();
    #[derive(Default, Clone)]
    struct SeenU {
        startup_err: Option<String>,
        target_recv: Vec<Vec<u8>>,
        other_recv: usize,
        decoy_recv: Vec<Vec<u8>>,
        server_sends: Vec<(SocketAddr, usize)>,
        dns: Vec<String>,
    }
    let out = rt::run_sim(plan.seed, plan.net_seed, plan.knobs.to_knobs(), || async {
        let mut seen = SeenU::default();
        if let Some(n) = name_str.as_ref().filter(|n| !n.is_empty()) {
            world::with(|w| {
                w.zone.insert(n.clone(), Some(IpAddr::V4(target_ip)));
            });
        }
        let mains = match start_system(&plan.config, "127.0.0.1", SERVER_PORT).await {
            Ok(m) => m,
            Err(e) => {
                seen.startup_err = Some(e);
                return seen;
            }
        };
        if !settle(|| udp_bound(CLIENT_PORT)).await {
            seen.startup_err = Some("the client's local datagram socket is not bound".into());
            return seen;
        }
        let want_addr = SocketAddr::new(IpAddr::V4(target_ip), port);
        let recv = Arc::new(Mutex::new(Vec::<Vec<u8>>::new()));
        let r2 = recv.clone();
        let _target = spawn_scoped(async move {
            let Ok(u) = UdpSocket::bind(want_addr).await else { return };
            let mut buf = vec![0u8; 65536];
            loop {
                let Ok((n, _)) = u.recv_from(&mut buf).await else { return };
                r2.lock().unwrap().push(buf[..n].to_vec());
            }
        });
        // a second socket at the same host, next port: what a shifted port would hit
        let other = Arc::new(Mutex::new(0usize));
        let o2 = other.clone();
        let _other = spawn_scoped(async move {
            let Ok(u) = UdpSocket::bind(SocketAddr::new(IpAddr::V4(target_ip), port.wrapping_add(1).max(1))).await else { return };
            let mut buf = vec![0u8; 65536];
            while u.recv_from(&mut buf).await.is_ok() {
                *o2.lock().unwrap() += 1;
            }
        });
        let decoy_got = Arc::new(Mutex::new(Vec::<Vec<u8>>::new()));
        let d2 = decoy_got.clone();
        let _decoy = spawn_scoped(async move {
            let Some(ip) = decoy_ip else { return };
            let Ok(u) = UdpSocket::bind(SocketAddr::new(IpAddr::V4(ip), port)).await else { return };
            let mut buf = vec![0u8; 65536];
            loop {
                let Ok((n, _)) = u.recv_from(&mut buf).await else { return };
                d2.lock().unwrap().push(buf[..n].to_vec());
            }
        });
        tokio::task::yield_now().await;
        let app = UdpSocket::bind(SocketAddr::new(IpAddr::V4(Ipv4Addr::LOCALHOST), 0)).await.unwrap();
        if let Some(ip) = decoy_ip {
            let mut dg = vec![0u8, 0, 0, 1];
            dg.extend_from_slice(&ip.octets());
            dg.extend_from_slice(&port.to_be_bytes());
            dg.extend_from_slice(b"for-the-related-address");
            let _ = app.send_to(&dg, SocketAddr::new(IpAddr::V4(Ipv4Addr::LOCALHOST), CLIENT_PORT)).await;
            tokio::time::sleep(Duration::from_millis(300)).await;
        }
        for d in &datas {
            let mut dg = vec![0u8, 0, 0];
            if kind == "ipv4" {
                dg.push(1);
                dg.extend_from_slice(&target_ip.octets());
            } else {
                dg.push(3);
                dg.push(name.len() as u8);
                dg.extend_from_slice(&name);
            }
            dg.extend_from_slice(&port.to_be_bytes());
            dg.extend_from_slice(d);
            let _ = app.send_to(&dg, SocketAddr::new(IpAddr::V4(Ipv4Addr::LOCALHOST), CLIENT_PORT)).await;
            tokio::time::sleep(Duration::from_millis(300)).await;
        }
        tokio::time::sleep(Duration::from_secs(2)).await;
        seen.target_recv = recv.lock().unwrap().clone();
        seen.other_recv = *other.lock().unwrap();
        seen.decoy_recv = decoy_got.lock().unwrap().clone();
        seen.server_sends = world::with(|w| w.udp_sends.iter().filter(|s| s.node == rt::NODE_SERVER && s.to.port() != CLIENT_PORT && !(s.to.ip().is_loopback() && s.to.ip() == IpAddr::V4(Ipv4Addr::LOCALHOST))).map(|s| (s.to, s.len)).collect());
        seen.dns = world::with(|w| w.dns_queries.iter().filter(|q| q.node == rt::NODE_SERVER).map(|q| q.name.clone()).collect());
        drop(mains);
        seen
    });
    let seen = out.result.clone();
    let cell = plan.config.family();
    let len = name.len();
    let class = if kind == "ipv4" { "literal" } else if len == 0 { "empty" } else { "1-255" };
    let sig = |oracle: &str| format!("C14/udp-{oracle}/{cell}/{kind}/{class}");
    let shown = String::from_utf8_lossy(&name[..name.len().min(24)]).to_string();
    let mut v = Vec::new();
    if let Some(e) = &seen.startup_err {
        v.push(Violation::new("C14", format!("C14/udp-startup/{cell}"), e.clone()));
    } else {
        let want_addr = SocketAddr::new(IpAddr::V4(target_ip), port);
        // what went to the related address is judged on its own: exactly its one datagram
        let mut seen = seen.clone();
        if let Some(ip) = decoy_ip {
            let decoy_addr = SocketAddr::new(IpAddr::V4(ip), port);
            seen.server_sends.retain(|(to, _)| *to != decoy_addr);
            if seen.decoy_recv.iter().any(|d| d != b"for-the-related-address") || seen.decoy_recv.len() > 1 {
                v.push(Violation::new("C14", sig("delivered-to-a-related-address"), format!("datagrams for {want_addr} and one for {decoy_addr} left one application socket; {decoy_addr} received {} datagrams ({:?} bytes), {want_addr} received {}", seen.decoy_recv.len(), seen.decoy_recv.iter().map(|d| d.len()).collect::<Vec<_>>(), seen.target_recv.len())));
            }
        }
        let dns_ok = if kind == "ipv4" { seen.dns.is_empty() } else { name_str.as_ref().is_some_and(|n| !seen.dns.is_empty() && seen.dns.iter().all(|q| q == n)) };
        let exact = dns_ok && seen.target_recv == datas && seen.server_sends.iter().all(|(to, _)| *to == want_addr) && seen.other_recv == 0;
        let nothing = seen.target_recv.is_empty() && seen.other_recv == 0 && seen.server_sends.is_empty() && (seen.dns.is_empty() || name_str.as_ref().is_some_and(|n| seen.dns.iter().all(|q| q == n)));
        if !exact && !nothing {
            let partial = dns_ok && seen.server_sends.iter().all(|(to, _)| *to == want_addr) && seen.other_recv == 0 && seen.target_recv.iter().all(|d| datas.contains(d));
            // a datagram may be lost whole (C02's subject); what arrives must be exactly what was sent, where it was sent
            if !partial {
                v.push(Violation::new(
                    "C14",
                    sig("different-address-or-payload"),
                    format!(
                        "address of kind {kind}, name of {len} bytes ({shown:?}...) port {port}: the server resolved {:?} and sent {:?}; the target received {:?}-byte datagrams (sent: {:?}), the neighbouring port {}",
                        seen.dns.iter().map(|n| format!("{}B:{}", n.len(), String::from_utf8_lossy(&n.as_bytes()[..n.len().min(16)]))).collect::<Vec<_>>(),
                        seen.server_sends,
                        seen.target_recv.iter().map(|d| d.len()).collect::<Vec<_>>(),
                        sizes,
                        seen.other_recv
                    ),
                ));
            }
        }
        let well_formed = kind == "ipv4" || (name_str.is_some() && kind != "name-bytes" && len >= 1);
        if well_formed && !exact && nothing {
            v.push(Violation::new("C14", sig("representable-refused"), format!("address of kind {kind}, name of {len} bytes ({shown:?}...) port {port}: nothing was relayed")));
        }
        if kind != "ipv4" && len == 0 && !seen.target_recv.is_empty() {
            v.push(Violation::new("C14", sig("empty-name-relayed"), "a datagram for the empty name was relayed".into()));
        }
    }
    for p in &out.panics {
        v.push(Violation::new("C14", format!("C14/panic/{cell}/udp-{kind}/{class}/{}", p.frame), format!("name of {len} bytes: panic in node {}: {} at {}", p.node, p.message, p.location)));
    }
    let mut probes = BTreeMap::new();
    probes.insert(format!("udp_kind_{kind}"), 1);
    probes.insert("udp_datagrams_delivered".to_owned(), seen.target_recv.len() as u64);
    Outcome {
        violations: v,
        ev_hash: out.world.ev_hash,
        ev_count: out.world.ev_count,
        poll_hash: out.poll_hash,
        polls: out.polls,
        sim_ns: out.sim_ns,
        stats: crate::report::world_stats(&out.world),
        nontrivial: true,
        case_hash: plan.seed.wrapping_mul(0x9E3779B97F4A7C15) ^ 0x14d,
        probes,
        panics: out.panics,
        extra_evaluations: 0,
        extra_cases: Vec::new(),
    }
}
