//! C08 – one failing or hostile flow never takes the service down for others.
//!
//! A plan is a configuration cell plus a sequence of 1..5 faults from the
//! catalogue. After the last fault has been injected (stalled connections stay
//! open), a fresh well-behaved canary flow must get its echo through the real
//! client and server within 60 simulated seconds; the listeners must still be
//! bound and neither main() may have returned.

use std::collections::BTreeMap;
use std::net::IpAddr;
use std::net::Ipv4Addr;
use std::net::SocketAddr;
use std::sync::Arc;
use std::sync::Mutex;
use std::time::Duration;

use octo_squirrel::verif::net::TcpStream;
use octo_squirrel::verif::world;
use octo_squirrel::verif::world::FaultKind;
use serde::Deserialize;
use serde::Serialize;
use tokio::io::AsyncReadExt;
use tokio::io::AsyncWriteExt;

use crate::nodes::*;
use crate::plan::*;
use crate::report::Outcome;
use crate::report::Violation;
use crate::rnd::Gen;
use crate::rt;
use crate::scen_tcp::*;

#[derive(Clone, Debug, Serialize, Deserialize, PartialEq)]
pub enum Fault {
    /// connect to the client's (true) or the server's (false) port and close at once, `n` times
    ConnectClose { to_client: bool, n: u32 },
    /// send these bytes to the client's local port and keep the connection open without another byte
    StalledLocal { bytes: Vec<u8> },
    /// send these bytes to the server's port, then hold the connection open (`hold`) or close it
    RawToServer { bytes: Vec<u8>, hold: bool },
    /// a flow through the system whose target is refused / unresolvable / blackhole
    BadTarget { fault: String },
    /// a flow that is reset by the application (true) or the target (false) in mid-transfer
    ResetFlow { by_app: bool },
    /// accept() fails with EMFILE `n` times on the client's (true) or server's (false) TCP listener
    AcceptErr { on_client: bool, n: u32 },
    /// the client (true) or the server (false) is at its descriptor limit for a while: the operations in `mask` (1 = accept,
    /// 2 = connect, 4 = datagram bind, 8 = opening a file such as the certificate) fail with EMFILE while `flows` ordinary flows
    /// are attempted; then descriptors are available again
    FdExhaustion { on_client: bool, mask: u8, flows: u32 },
    /// `n` ordinary flows to a target that accepts, reads and stays silent; each application sends its request and goes away
    /// (closes, or resets) without waiting. The server (and the client) run under a descriptor limit of `limit` sockets: flows
    /// that are not released when their application leaves use the limit up
    AbandonedFlows { n: u32, limit: u32, reset: bool },
    /// QUIC cells: the datagram link between client and server is dead for `ms` milliseconds while `flows` ordinary flows
    /// are attempted (their QUIC handshakes fall into the outage); then it works again
    QuicOutage { ms: u64, flows: u32 },
    /// QUIC cells: datagrams to the server's QUIC port - random bytes, or something shaped like a long-header Initial packet
    DgramToServer { bytes: Vec<u8>, n: u32 },
    /// many connections to the server's port at once, each sending these bytes (a partial TLS hello, a partial upgrade,
    /// nothing) and then held open: whatever budget the server gives handshakes in progress, stalled peers must not use it up
    Flood { bytes: Vec<u8>, n: u32 },
    /// QUIC cells: a real QUIC client whose handshake cannot succeed: 0 = offers a foreign ALPN only, 1 = offers no ALPN,
    /// 2 = does not trust the server's certificate, 3 = goes away right after its first flight
    QuicBadHandshake { kind: u8 },
    /// QUIC cells: a real QUIC client that keeps sending but never hears the server (its return path is a black hole):
    /// its handshake stays in progress on the server until quinn gives it up
    QuicStalledHandshake,
}

pub fn fault_name(f: &Fault) -> String {
    match f {
        Fault::ConnectClose { to_client, .. } => format!("connect-close-{}", if *to_client { "client" } else { "server" }),
        Fault::StalledLocal { bytes } => format!("stalled-local-handshake-{}", if bytes.first() == Some(&5) { "socks5" } else { "http" }),
        Fault::RawToServer { bytes, hold } => format!("{}-to-server-{}", raw_kind(bytes), if *hold { "stalled" } else { "closed" }),
        Fault::BadTarget { fault } => format!("target-{fault}"),
        Fault::Flood { bytes, .. } => format!("flood-of-stalled-{}-connections", raw_kind(bytes)),
        Fault::ResetFlow { by_app } => format!("reset-by-{}", if *by_app { "application" } else { "target" }),
        Fault::AcceptErr { on_client, .. } => format!("accept-emfile-{}", if *on_client { "client" } else { "server" }),
        Fault::FdExhaustion { on_client, .. } => format!("descriptors-exhausted-{}", if *on_client { "client" } else { "server" }),
        Fault::QuicOutage { .. } => "quic-link-outage-during-handshakes".to_owned(),
        Fault::AbandonedFlows { .. } => "flows-abandoned-by-their-applications-under-a-descriptor-limit".to_owned(),
        Fault::QuicBadHandshake { kind } => format!("quic-handshake-{}", ["foreign-alpn", "no-alpn", "untrusted-certificate", "abandoned"][*kind as usize % 4]),
        Fault::QuicStalledHandshake => "quic-handshake-stalled".to_owned(),
        Fault::DgramToServer { bytes, .. } => format!("{}-datagrams-to-quic-port", if bytes.first().is_some_and(|b| b & 0xc0 == 0xc0) { "initial-like" } else { "garbage" }),
    }
}

fn raw_kind(b: &[u8]) -> &'static str {
    if b.starts_with(&[0x16, 0x03]) {
        "partial-tls-hello"
    } else if b.starts_with(b"GET ") {
        "partial-ws-upgrade"
    } else if b.is_empty() {
        "nothing"
    } else {
        "garbage"
    }
}

pub fn gen_fault(g: &mut Gen, transport: Transport) -> Fault {
    if transport == Transport::Quic && g.chance(15) {
        return Fault::QuicStalledHandshake;
    }
    if transport == Transport::Quic && g.chance(12) {
        return Fault::QuicOutage { ms: g.range(3_000, 14_000), flows: g.range(1, 3) as u32 };
    }
    if transport == Transport::Quic && g.chance(25) {
        return Fault::QuicBadHandshake { kind: g.below(4) as u8 };
    }
    if transport == Transport::Quic && g.chance(25) {
        let n = g.range(1, 1300) as usize;
        let mut bytes = g.bytes(n);
        if g.chance(50) && bytes.len() > 7 {
            // long header, Initial, version 1, then whatever
            bytes[0] = 0xc0 | (bytes[0] & 0x0f);
            bytes[1..5].copy_from_slice(&[0, 0, 0, 1]);
            bytes[5] = 8;
        }
        return Fault::DgramToServer { bytes, n: g.range(1, 20) as u32 };
    }
    if transport != Transport::Quic && g.chance(8) {
        let bytes = match (transport, g.below(3)) {
            (Transport::Tls | Transport::Wss, 0 | 1) => vec![0x16, 0x03, 0x01, 0x02, 0x00, 0x01, 0x00, 0x01, 0xfc, 0x03, 0x03, 0x55],
            (Transport::Ws, 0 | 1) => b"GET /ws HTTP/1.1\r\nHost: sim.test\r\n".to_vec(),
            (_, 2) => Vec::new(),
            _ => vec![0x05],
        };
        return Fault::Flood { bytes, n: g.range(17, 70) as u32 };
    }
    match g.below(12) {
        0 => Fault::ConnectClose { to_client: g.chance(50), n: g.range(1, 5) as u32 },
        1 => Fault::StalledLocal { bytes: g.pick(&[vec![5u8], vec![5, 2, 0], vec![5, 1, 0, 5, 1], b"GET http://exa".to_vec(), b"CONNECT a.b:1 HTTP/1.1\r\nHost".to_vec()]).clone() },
        2 | 3 => {
            // the first bytes a TLS / WebSocket / protocol handshake would start with, then silence
            let bytes = match (transport, g.below(3)) {
                (Transport::Tls | Transport::Wss, 0 | 1) => {
                    let mut v = vec![0x16, 0x03, 0x01, 0x02, 0x00, 0x01, 0x00, 0x01, 0xfc, 0x03, 0x03];
                    let n = g.range(0, 40) as usize;
                    v.extend(g.bytes(n));
                    v
                }
                (Transport::Ws, 0 | 1) => b"GET /ws HTTP/1.1\r\nHost: sim.test\r\nUpgrade: websocket\r\n".to_vec(),
                _ => {
                    let n = g.range(0, 80) as usize;
                    g.bytes(n)
                }
            };
            Fault::RawToServer { bytes, hold: true }
        }
        4 | 5 => {
            let n = g.range(1, 300) as usize;
            Fault::RawToServer { bytes: g.bytes(n), hold: g.chance(50) }
        }
        6 | 7 => Fault::BadTarget { fault: g.pick(&["refused", "unresolvable", "blackhole"]).to_string() },
        8 | 9 => Fault::ResetFlow { by_app: g.chance(50) },
        10 if g.chance(40) => {
            let limit = g.range(24, 60) as u32;
            Fault::AbandonedFlows { n: limit + g.range(4, 30) as u32, limit, reset: g.chance(40) }
        }
        10 => Fault::FdExhaustion { on_client: g.chance(60), mask: g.range(1, 15) as u8, flows: g.range(1, 3) as u32 },
        _ => Fault::AcceptErr { on_client: g.chance(50), n: g.range(1, 3) as u32 },
    }
}

pub fn gen_c09_hostile(seed: u64, thorough: bool) -> Plan {
    let mut p = gen_c08(seed, thorough);
    p.property = "C09".into();
    p
}

pub fn gen_c08(seed: u64, thorough: bool) -> Plan {
    let mut g = Gen::new(seed, 8);
    let cells = all_proto_ciphers();
    let (proto, cipher) = cells[(seed as usize) % cells.len()];
    let transport = ALL_TRANSPORTS[((seed as usize) / cells.len()) % ALL_TRANSPORTS.len()];
    let config = gen_config(&mut g, proto, cipher, transport, 0);
    // every fault alone first (the catalogue cycles), then sequences
    let n = if (seed / 40) % 2 == 0 { 1 } else { g.range(2, if thorough { 8 } else { 5 }) } as usize;
    let mut faults: Vec<Fault> = (0..n).map(|_| gen_fault(&mut g, transport)).collect();
    if faults.iter().any(|f| matches!(f, Fault::AbandonedFlows { .. })) {
        // (under a descriptor limit a flood of connections that *attackers* hold open uses the limit up legitimately)
        for f in faults.iter_mut() {
            if matches!(f, Fault::Flood { .. }) {
                *f = Fault::ConnectClose { to_client: false, n: 2 };
            }
        }
    }
    if (seed / 7) % 3 == 1 && g.chance(50) {
        // cold start: what a process sets up on its first flow is most exposed to a resource fault - half of the cold plans
        // begin with a descriptor-exhaustion window
        faults[0] = Fault::FdExhaustion { on_client: g.chance(60), mask: g.range(1, 15) as u8, flows: g.range(1, 3) as u32 };
    }
    Plan {
        property: "C08".into(),
        scenario: "survival".into(),
        seed,
        net_seed: g.next(),
        config,
        knobs: KnobsPlan { latency_us: *g.pick(&[0, 0, 200, 5000]), ..KnobsPlan::simple() },
        flows: vec![],
        // (cold plans run in a process of their own: "freshly started" includes the process-wide state)
        extra: serde_json::json!({ "faults": faults, "cold_start": (seed / 7) % 3 == 1, "fresh_process": (seed / 7) % 3 == 1 }),
    }
}

struct Held {
    _conns: Vec<TcpStream>,
    _tasks: Vec<AbortOnDrop<()>>,
}

async fn inject(ix: usize, f: &Fault, held: &mut Held) {
    match f {
        Fault::ConnectClose { to_client, n } => {
            for _ in 0..*n {
                if let Ok(s) = TcpStream::connect(if *to_client { client_addr() } else { server_addr() }).await {
                    drop(s);
                }
                tokio::time::sleep(Duration::from_millis(1)).await;
            }
        }
        Fault::StalledLocal { bytes } => {
            if let Ok(mut s) = TcpStream::connect(client_addr()).await {
                let _ = s.write_all(bytes).await;
                held._conns.push(s);
            }
        }
        Fault::RawToServer { bytes, hold } => {
            if let Ok(mut s) = TcpStream::connect(server_addr()).await {
                let _ = s.write_all(bytes).await;
                if *hold {
                    held._conns.push(s);
                } else {
                    tokio::time::sleep(Duration::from_millis(5)).await;
                    drop(s);
                }
            }
        }
        Fault::Flood { bytes, n } => {
            for _ in 0..*n {
                if let Ok(mut s) = TcpStream::connect(server_addr()).await {
                    let _ = s.write_all(bytes).await;
                    held._conns.push(s);
                }
            }
            tokio::time::sleep(Duration::from_millis(50)).await;
        }
        Fault::BadTarget { fault } => {
            let mut g = Gen::new(ix as u64, 88);
            let mut fl = gen_flow(&mut g, 100 + ix, LocalHs::Socks5Domain, Ending::None, 500);
            fl.target_fault = Some(fault.clone());
            fl.start_ms = 0;
            if fault == "blackhole" {
                fl.target_port = 41_000 + ix as u16;
            }
            if fault == "unresolvable" {
                fl.target_name = Some(format!("nx{ix}.c08.test"));
            } else if let Some(n) = &fl.target_name {
                let ip = IpAddr::V4(Ipv4Addr::from(fl.target_ip));
                world::with(|w| {
                    w.zone.insert(n.clone(), Some(ip));
                    if fault == "blackhole" {
                        w.add_fault(FaultKind::ConnectHang, fl.target_port, rt::NODE_SERVER, 1);
                    }
                });
            }
            let obs = Arc::new(Mutex::new(FlowObs::default()));
            held._tasks.push(spawn_scoped(run_app(100 + ix, fl, obs, true)));
            tokio::time::sleep(Duration::from_millis(200)).await;
        }
        Fault::ResetFlow { by_app } => {
            let mut g = Gen::new(ix as u64, 89);
            let mut fl = gen_flow(&mut g, 120 + ix, LocalHs::Socks5V4, if *by_app { Ending::AppReset } else { Ending::TargetReset }, 3000);
            fl.start_ms = 0;
            let obs = Arc::new(Mutex::new(FlowObs::default()));
            held._tasks.push(spawn_scoped(run_target(120 + ix, fl.clone(), obs.clone())));
            tokio::task::yield_now().await;
            held._tasks.push(spawn_scoped(run_app(120 + ix, fl, obs, true)));
            tokio::time::sleep(Duration::from_millis(500)).await;
        }
        Fault::QuicOutage { ms, flows } => {
            let now = now_ns();
            world::with(|w| {
                w.knobs.udp_partition_ns = (now, now + *ms * 1_000_000);
                if !w.knobs.udp_fault_ports.contains(&SERVER_PORT) {
                    w.knobs.udp_fault_ports.push(SERVER_PORT);
                }
            });
            for k in 0..*flows as usize {
                let mut g = Gen::new((ix * 5 + k) as u64, 91);
                let mut fl = gen_flow(&mut g, 160 + ix * 4 + k, LocalHs::Socks5V4, Ending::AppAfterAll, 600);
                fl.start_ms = 0;
                let obs = Arc::new(Mutex::new(FlowObs::default()));
                held._tasks.push(spawn_scoped(run_target(160 + ix * 4 + k, fl.clone(), obs.clone())));
                tokio::task::yield_now().await;
                held._tasks.push(spawn_scoped(run_app(160 + ix * 4 + k, fl, obs, true)));
                tokio::time::sleep(Duration::from_millis(200)).await;
            }
            // the outage ends; what the transports still have to time out is theirs to time out
            tokio::time::sleep(Duration::from_millis(*ms + 500)).await;
        }
        Fault::AbandonedFlows { n, limit, reset } => {
            // a target that accepts, reads and never answers or closes
            let taddr = SocketAddr::new(IpAddr::V4(Ipv4Addr::new(127, 0, 88, 1 + (ix % 200) as u8)), 8800 + ix as u16);
            held._tasks.push(spawn_scoped(async move {
                let Ok(l) = octo_squirrel::verif::net::TcpListener::bind(taddr).await else { return };
                let mut keep = Vec::new();
                loop {
                    let Ok((s, _)) = l.accept().await else { return };
                    keep.push(spawn_scoped(async move {
                        let mut s = s;
                        let mut buf = [0u8; 4096];
                        while let Ok(k) = tokio::io::AsyncReadExt::read(&mut s, &mut buf).await {
                            if k == 0 {
                                break;
                            }
                        }
                        // (it has seen the end of the request; it still says nothing and keeps the connection)
                        std::future::pending::<()>().await;
                    }));
                }
            }));
            tokio::task::yield_now().await;
            // (the limit is headroom above what the nodes hold at this moment: listeners, connections that earlier faults keep open)
            world::with(|w| {
                for node in [rt::NODE_SERVER, rt::NODE_CLIENT] {
                    let (s, l, u) = w.open_sockets(node);
                    w.fd_limits.retain(|(n, _)| *n != node);
                    w.fd_limits.push((node, s + l + u + *limit as usize));
                }
            });
            for k in 0..*n as usize {
                let fl = TcpFlow { hs: LocalHs::Socks5V4, target_name: None, target_ip: [127, 0, 88, 1 + (ix % 200) as u8], target_port: 8800 + ix as u16, start_ms: 0, up: vec![], down: vec![], target_waits_for: 1, ending: Ending::None, target_fault: None };
                if let Ok(mut s) = TcpStream::connect(client_addr()).await {
                    let ok = tokio::time::timeout(Duration::from_secs(5), local_handshake(&mut s, &fl)).await.is_ok_and(|r| r.is_ok());
                    if ok {
                        let _ = s.write_all(format!("abandoned-flow-{k}").as_bytes()).await;
                        tokio::time::sleep(Duration::from_millis(30)).await;
                    }
                    if *reset {
                        crate::nodes::reset_conn(s.conn_id());
                    }
                    drop(s);
                }
                tokio::time::sleep(Duration::from_millis(20)).await;
            }
            // the applications are gone: what the proxies still hold for them is theirs to release
            tokio::time::sleep(Duration::from_secs(2)).await;
        }
        Fault::FdExhaustion { on_client, mask, flows } => {
            let node = if *on_client { rt::NODE_CLIENT } else { rt::NODE_SERVER };
            world::with(|w| w.fd_exhausted_nodes.push((node, *mask)));
            for k in 0..*flows as usize {
                let mut g = Gen::new((ix * 7 + k) as u64, 90);
                let mut fl = gen_flow(&mut g, 140 + ix * 4 + k, LocalHs::Socks5V4, Ending::AppAfterAll, 600);
                fl.start_ms = 0;
                let obs = Arc::new(Mutex::new(FlowObs::default()));
                held._tasks.push(spawn_scoped(run_target(140 + ix * 4 + k, fl.clone(), obs.clone())));
                tokio::task::yield_now().await;
                held._tasks.push(spawn_scoped(run_app(140 + ix * 4 + k, fl, obs, true)));
                tokio::time::sleep(Duration::from_millis(150)).await;
            }
            tokio::time::sleep(Duration::from_millis(400)).await;
            world::with(|w| w.fd_exhausted_nodes.retain(|(n, _)| *n != node));
            // (the accept loops pause 100 ms after a failed accept)
            tokio::time::sleep(Duration::from_millis(300)).await;
        }
        Fault::QuicBadHandshake { kind } => {
            quic_bad_handshake(*kind).await;
        }
        Fault::QuicStalledHandshake => {
            let port = 47_000 + ix as u16;
            world::with(|w| w.udp_drop_to_ports.push(port));
            held._tasks.push(spawn_scoped(quic_stalled_handshake(port)));
            // its first flight has reached the server
            tokio::time::sleep(Duration::from_millis(300)).await;
        }
        Fault::DgramToServer { bytes, n } => {
            if let Ok(s) = octo_squirrel::verif::net::UdpSocket::bind(SocketAddr::new(IpAddr::V4(Ipv4Addr::LOCALHOST), 0)).await {
                for i in 0..*n {
                    let mut b = bytes.clone();
                    if let Some(x) = b.last_mut() {
                        *x = x.wrapping_add(i as u8);
                    }
                    let _ = s.send_to(&b, server_addr()).await;
                }
            }
            tokio::time::sleep(Duration::from_millis(5)).await;
        }
        Fault::AcceptErr { on_client, n } => {
            world::with(|w| w.add_fault(FaultKind::AcceptErr, if *on_client { CLIENT_PORT } else { SERVER_PORT }, 255, *n));
            // the error surfaces when the next connection arrives
            if let Ok(s) = TcpStream::connect(if *on_client { client_addr() } else { server_addr() }).await {
                tokio::time::sleep(Duration::from_millis(5)).await;
                drop(s);
            }
        }
    }
}

/// A fresh SOCKS5 flow with an echoing target: returns Ok(simulated ns it took) or what went wrong.
async fn canary(ix: usize) -> Result<u64, String> {
    let t0 = now_ns();
    let mut g = Gen::new(ix as u64, 77);
    let mut fl = gen_flow(&mut g, 200 + ix, LocalHs::Socks5V4, Ending::None, 1000);
    fl.up = vec![Op::Write(300)];
    fl.down = vec![Op::Write(200)];
    fl.start_ms = 0;
    fl.target_waits_for = 300;
    let obs = Arc::new(Mutex::new(FlowObs::default()));
    let _t = spawn_scoped(run_target(200 + ix, fl.clone(), obs.clone()));
    tokio::task::yield_now().await;
    let _a = spawn_scoped(run_app(200 + ix, fl.clone(), obs.clone(), true));
    let mut waited = 0;
    loop {
        {
            let o = obs.lock().unwrap();
            if let Some(e) = &o.hs_err {
                return Err(format!("canary handshake failed: {e}"));
            }
            if o.app.recv.len() >= 200 && o.target.recv.len() >= 300 {
                if o.app.recv != expected_down(&fl, 200 + ix) || o.target.recv != expected_up(&fl, 200 + ix) {
                    return Err("canary data corrupted".to_owned());
                }
                return Ok(now_ns() - t0);
            }
            if waited >= 60_000 {
                return Err(format!("canary not served within 60 simulated seconds: handshake done={}, target got {} of 300, application got {} of 200, application end {:?}", o.hs_done, o.target.recv.len(), o.app.recv.len(), o.app.end));
            }
        }
        tokio::time::sleep(Duration::from_millis(100)).await;
        waited += 100;
    }
}

pub fn execute_c08(plan: &Plan) -> Outcome {
    // (the same scenario serves C09 - "each flow's result is what it would have been alone": alone the fresh flow is served,
    // promptly; next to misbehaving peers it must be too)
    let prop = plan.property.as_str();
    let faults: Vec<Fault> = serde_json::from_value(plan.extra["faults"].clone()).unwrap_or_default();
    let cell = plan.config.label();
    let out = rt::run_sim(plan.seed, plan.net_seed, plan.knobs.to_knobs(), || async {
        if is_2022(&plan.config.cipher) && plan.config.proto == Proto::Shadowsocks {
            world::with(|w| w.first_atomic_ports.push(SERVER_PORT));
        }
        let mains = match start_system(&plan.config, "127.0.0.1", SERVER_PORT).await {
            Ok(m) => m,
            Err(e) => return (Some(e), None, None, (false, false), (false, false)),
        };
        // the service works before any fault (otherwise it is not C08's business) - except in one plan out of three, where
        // the misbehaving flows are the very first thing the freshly started processes see (whatever a process sets up lazily
        // on its first flow is then set up under the fault)
        let cold = plan.extra["cold_start"].as_bool().unwrap_or(false);
        let before = if cold { Ok(0) } else { canary(0).await };
        let mut held = Held { _conns: Vec::new(), _tasks: Vec::new() };
        for (i, f) in faults.iter().enumerate() {
            inject(i, f, &mut held).await;
        }
        // simulated minutes pass with the stalled connections still open
        tokio::time::sleep(Duration::from_secs(1)).await;
        let after = canary(1).await;
        let bound = (tcp_listening(CLIENT_PORT), if plan.config.transport == Transport::Quic { udp_bound(SERVER_PORT) } else { tcp_listening(SERVER_PORT) });
        let finished = (mains.client.is_finished(), mains.server.is_finished());
        drop(held);
        (None, Some(before), Some(after), bound, finished)
    });
    let (startup_err, before, after, bound, finished) = out.result.clone();
    let names: Vec<String> = faults.iter().map(fault_name).collect();
    let class = if names.len() == 1 { names[0].clone() } else { let mut n = names.clone(); n.sort(); n.dedup(); n.join("+") };
    let mut v = Vec::new();
    if let Some(e) = startup_err {
        v.push(Violation::new(prop, format!("{prop}/startup/{cell}"), e));
    } else if let Some(Err(e)) = before {
        v.push(Violation::new(prop, format!("{prop}/canary-before-faults/{cell}"), e));
    } else {
        if let Some(Err(e)) = &after {
            v.push(Violation::new(prop, format!("{prop}/canary-failed/{cell}/{class}"), format!("after faults {names:?}: {e}; listeners bound (client, server) = {bound:?}, mains finished = {finished:?}")));
        }
        // other peers' stalled or failing handshakes are none of a fresh flow's business: it is served as promptly as before
        // (nothing in the catalogue gives the service a reason to make a well-behaved newcomer wait for tens of seconds)
        if let (Some(Ok(b)), Some(Ok(a))) = (&before, &after) {
            if *a > *b + 15_000_000_000 && !plan.extra["cold_start"].as_bool().unwrap_or(false) {
                v.push(Violation::new(prop, format!("{prop}/canary-delayed/{cell}/{class}"), format!("after faults {names:?}: a fresh flow was served only after {:.1} simulated s (before the faults: {:.3} s) - it had to wait for somebody else's connection", *a as f64 / 1e9, *b as f64 / 1e9)));
            }
        }
        if !bound.0 || !bound.1 {
            v.push(Violation::new(prop, format!("{prop}/listener-gone/{cell}/{class}"), format!("after faults {names:?}: client listener bound = {}, server listener bound = {}", bound.0, bound.1)));
        }
        if finished.0 || finished.1 {
            v.push(Violation::new(prop, format!("{prop}/main-returned/{cell}/{class}"), format!("after faults {names:?}: client main returned = {}, server main returned = {}", finished.0, finished.1)));
        }
    }
    for p in &out.panics {
        v.push(Violation::new(prop, format!("{prop}/panic/{cell}/{}", p.frame), format!("after faults {names:?}: panic in node {}: {} at {}", p.node, p.message, p.location)));
    }
    let mut probes = BTreeMap::new();
    for n in &names {
        *probes.entry(format!("fault_{n}")).or_insert(0u64) += 1;
    }
    probes.insert("faults_in_sequence".to_owned(), names.len() as u64);
    let mut h = 0xcbf29ce484222325u64;
    for b in class.bytes().chain(cell.bytes()) {
        h = (h ^ b as u64).wrapping_mul(0x100000001b3);
    }
    Outcome {
        violations: v,
        ev_hash: out.world.ev_hash,
        ev_count: out.world.ev_count,
        poll_hash: out.poll_hash,
        polls: out.polls,
        sim_ns: out.sim_ns,
        stats: crate::report::world_stats(&out.world),
        nontrivial: matches!(out.result.1, Some(Ok(_))),
        case_hash: out.poll_hash ^ h,
        probes,
        panics: out.panics,
        extra_evaluations: 0,
        extra_cases: Vec::new(),
    }
}

/// A real quinn client, correct in every respect, whose local port never receives anything: it retransmits its first
/// flight, the server answers into the void.
async fn quic_stalled_handshake(port: u16) {
    use std::sync::Arc;
    use tokio_rustls::rustls;
    use tokio_rustls::rustls::pki_types::CertificateDer;
    use tokio_rustls::rustls::pki_types::pem::PemObject;
    let mut roots = rustls::RootCertStore::empty();
    if let Ok(cert) = CertificateDer::from_pem_file(CERT) {
        let _ = roots.add(cert);
    }
    let mut tls = rustls::ClientConfig::builder().with_root_certificates(roots).with_no_client_auth();
    tls.alpn_protocols = vec![b"http/1.1".to_vec()];
    let Ok(crypto) = quinn::crypto::rustls::QuicClientConfig::try_from(tls) else { return };
    let Ok(mut ep) = octo_squirrel::verif::quic::client_endpoint(SocketAddr::new(IpAddr::V4(Ipv4Addr::UNSPECIFIED), port)) else { return };
    ep.set_default_client_config(quinn::ClientConfig::new(Arc::new(crypto)));
    let Ok(connecting) = ep.connect(server_addr(), "sim.test") else { return };
    let _ = tokio::time::timeout(Duration::from_secs(120), connecting).await;
    std::future::pending::<()>().await;
}

/// A real quinn client on the simulated datagram socket whose handshake with the server cannot succeed.
async fn quic_bad_handshake(kind: u8) {
    use std::sync::Arc;
    use tokio_rustls::rustls;
    use tokio_rustls::rustls::pki_types::CertificateDer;
    use tokio_rustls::rustls::pki_types::pem::PemObject;
    let mut roots = rustls::RootCertStore::empty();
    if kind % 4 != 2 {
        if let Ok(cert) = CertificateDer::from_pem_file(CERT) {
            let _ = roots.add(cert);
        }
    }
    let mut tls = rustls::ClientConfig::builder().with_root_certificates(roots).with_no_client_auth();
    tls.alpn_protocols = match kind % 4 {
        0 => vec![b"h3".to_vec()],
        1 => vec![],
        _ => vec![b"http/1.1".to_vec()],
    };
    let Ok(crypto) = quinn::crypto::rustls::QuicClientConfig::try_from(tls) else { return };
    let Ok(mut ep) = octo_squirrel::verif::quic::client_endpoint(SocketAddr::new(IpAddr::V4(Ipv4Addr::UNSPECIFIED), 0)) else { return };
    ep.set_default_client_config(quinn::ClientConfig::new(Arc::new(crypto)));
    let Ok(connecting) = ep.connect(server_addr(), "sim.test") else { return };
    if kind % 4 == 3 {
        // first flight out, then gone
        tokio::time::sleep(Duration::from_millis(1)).await;
        drop(connecting);
        drop(ep);
        return;
    }
    let _ = tokio::time::timeout(Duration::from_secs(5), connecting).await;
    drop(ep);
    tokio::time::sleep(Duration::from_millis(20)).await;
}
