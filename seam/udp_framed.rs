//! `UdpFramed` over the simulated socket. tokio-util's own type is hard-wired
//! to `tokio::net::UdpSocket`, so this is a line-for-line transcription of
//! tokio-util 0.7.19 `src/udp/frame.rs` (the version in /repo/Cargo.lock) with
//! only the socket type changed – including its behaviours that matter to the
//! properties: `decode_eof` is called repeatedly on one datagram until it
//! returns `Ok(None)`, the read buffer is *not* cleared after an `Err`, and a
//! short `send_to` is an error.

use std::io;
use std::net::Ipv4Addr;
use std::net::SocketAddr;
use std::net::SocketAddrV4;
use std::pin::Pin;
use std::task::Context;
use std::task::Poll;
use std::task::ready;

use futures::Sink;
use futures::Stream;
use tokio::io::ReadBuf;
use tokio_util::bytes::BufMut;
use tokio_util::bytes::BytesMut;
use tokio_util::codec::Decoder;
use tokio_util::codec::Encoder;

use super::net::UdpSocket;

#[must_use = "sinks do nothing unless polled"]
pub struct UdpFramed<C> {
    socket: UdpSocket,
    codec: C,
    rd: BytesMut,
    wr: BytesMut,
    out_addr: SocketAddr,
    flushed: bool,
    is_readable: bool,
    current_addr: Option<SocketAddr>,
}

const INITIAL_RD_CAPACITY: usize = 64 * 1024;
const INITIAL_WR_CAPACITY: usize = 8 * 1024;

impl<C> Unpin for UdpFramed<C> {}

impl<C> Stream for UdpFramed<C>
where
    C: Decoder,
{
    type Item = Result<(C::Item, SocketAddr), C::Error>;

    fn poll_next(self: Pin<&mut Self>, cx: &mut Context<'_>) -> Poll<Option<Self::Item>> {
        let pin = self.get_mut();

        pin.rd.reserve(INITIAL_RD_CAPACITY);

        loop {
            // Are there still bytes left in the read buffer to decode?
            if pin.is_readable {
                if let Some(frame) = pin.codec.decode_eof(&mut pin.rd)? {
                    let current_addr = pin.current_addr.expect("will always be set before this line is called");

                    return Poll::Ready(Some(Ok((frame, current_addr))));
                }

                // if this line has been reached then decode has returned `None`.
                pin.is_readable = false;
                pin.rd.clear();
            }

            // We're out of data. Try and fetch more data to decode
            let addr = {
                let buf = unsafe { pin.rd.chunk_mut().as_uninit_slice_mut() };
                let mut read = ReadBuf::uninit(buf);
                let res = ready!(pin.socket.poll_recv_from(cx, &mut read));
                let addr = res?;
                let filled = read.filled().len();
                unsafe { pin.rd.advance_mut(filled) };
                addr
            };

            pin.current_addr = Some(addr);
            pin.is_readable = true;
        }
    }
}

impl<I, C> Sink<(I, SocketAddr)> for UdpFramed<C>
where
    C: Encoder<I>,
{
    type Error = C::Error;

    fn poll_ready(self: Pin<&mut Self>, cx: &mut Context<'_>) -> Poll<Result<(), Self::Error>> {
        if !self.flushed {
            match self.poll_flush(cx)? {
                Poll::Ready(()) => {}
                Poll::Pending => return Poll::Pending,
            }
        }

        Poll::Ready(Ok(()))
    }

    fn start_send(self: Pin<&mut Self>, item: (I, SocketAddr)) -> Result<(), Self::Error> {
        let (frame, out_addr) = item;

        let pin = self.get_mut();

        pin.codec.encode(frame, &mut pin.wr)?;
        pin.out_addr = out_addr;
        pin.flushed = false;

        Ok(())
    }

    fn poll_flush(mut self: Pin<&mut Self>, cx: &mut Context<'_>) -> Poll<Result<(), Self::Error>> {
        if self.flushed {
            return Poll::Ready(Ok(()));
        }

        let Self { ref socket, ref mut out_addr, ref mut wr, .. } = *self;

        let n = ready!(socket.poll_send_to(cx, wr, *out_addr))?;

        let wrote_all = n == self.wr.len();
        self.wr.clear();
        self.flushed = true;

        let res = if wrote_all { Ok(()) } else { Err(io::Error::new(io::ErrorKind::Other, "failed to write entire datagram to socket").into()) };

        Poll::Ready(res)
    }

    fn poll_close(self: Pin<&mut Self>, cx: &mut Context<'_>) -> Poll<Result<(), Self::Error>> {
        ready!(self.poll_flush(cx))?;
        Poll::Ready(Ok(()))
    }
}

impl<C> UdpFramed<C> {
    pub fn new(socket: UdpSocket, codec: C) -> UdpFramed<C> {
        Self {
            socket,
            codec,
            out_addr: SocketAddr::V4(SocketAddrV4::new(Ipv4Addr::new(0, 0, 0, 0), 0)),
            rd: BytesMut::with_capacity(INITIAL_RD_CAPACITY),
            wr: BytesMut::with_capacity(INITIAL_WR_CAPACITY),
            flushed: true,
            is_readable: false,
            current_addr: None,
        }
    }

    pub fn get_ref(&self) -> &UdpSocket {
        &self.socket
    }

    pub fn codec(&self) -> &C {
        &self.codec
    }

    pub fn codec_mut(&mut self) -> &mut C {
        &mut self.codec
    }
}
