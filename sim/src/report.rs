//! Aggregation of run results inside one worker process, and the JSON the
//! worker hands to the `check` driver.

use std::collections::BTreeMap;
use std::collections::BTreeSet;

use octo_squirrel::verif::world::World;
use serde::Deserialize;
use serde::Serialize;

use crate::plan::Plan;
use crate::rt::PanicRec;

#[derive(Clone, Debug, Serialize, Deserialize)]
pub struct Violation {
    pub property: String,
    /// stable identification of the failure class: oracle + configuration class (+ first repo frame for panics)
    pub signature: String,
    pub detail: String,
    /// keys merged into `plan.extra` of the replay plan (e.g. the one cut point of an enumeration that failed)
    #[serde(default)]
    pub patch: Option<serde_json::Value>,
}

impl Violation {
    pub fn new(property: &str, signature: String, detail: String) -> Self {
        Violation { property: property.to_owned(), signature, detail, patch: None }
    }

    pub fn with_patch(mut self, patch: serde_json::Value) -> Self {
        self.patch = Some(patch);
        self
    }
}

#[derive(Clone, Debug, Serialize, Deserialize)]
pub struct ViolationRec {
    pub property: String,
    pub signature: String,
    pub detail: String,
    pub count: u64,
    pub plan: Plan,
    pub ev_hash: u64,
}

/// What one executed plan produced.
pub struct Outcome {
    pub violations: Vec<Violation>,
    pub ev_hash: u64,
    pub ev_count: u64,
    pub poll_hash: u64,
    pub polls: u64,
    pub sim_ns: u64,
    pub stats: BTreeMap<String, u64>,
    /// was the run non-trivial by the scenario's own rule (e.g. at least one byte relayed end to end)
    pub nontrivial: bool,
    /// a hash describing *what* was explored (for `distinct_nontrivial`); usually poll order ⊕ plan shape
    pub case_hash: u64,
    pub probes: BTreeMap<String, u64>,
    pub panics: Vec<PanicRec>,
    /// a plan may stand for a whole enumeration executed inside one `execute` (e.g. all cut points of a stream):
    /// the additional evaluations and their case hashes
    pub extra_evaluations: u64,
    pub extra_cases: Vec<u64>,
}

pub fn world_stats(w: &World) -> BTreeMap<String, u64> {
    let s = &w.stats;
    let mut m = BTreeMap::new();
    for (k, v) in [
        ("tcp_connects", s.tcp_connects),
        ("tcp_accepts", s.tcp_accepts),
        ("tcp_reads", s.tcp_reads),
        ("tcp_short_reads", s.tcp_short_reads),
        ("tcp_writes", s.tcp_writes),
        ("tcp_partial_writes", s.tcp_partial_writes),
        ("tcp_backpressure_stalls", s.tcp_backpressure),
        ("tcp_spurious_pending", s.tcp_spurious_pending),
        ("tcp_resets", s.tcp_resets),
        ("tcp_epipe", s.tcp_epipe),
        ("tcp_delayed_segments", s.tcp_delayed_segments),
        ("udp_sent", s.udp_sent),
        ("udp_lost", s.udp_lost),
        ("udp_duplicated", s.udp_dup),
        ("udp_reordered", s.udp_reordered),
        ("udp_no_socket", s.udp_no_socket),
        ("udp_oversize", s.udp_oversize),
        ("udp_wrong_family", s.udp_wrong_family),
        ("udp_partitioned", s.udp_partitioned),
    ] {
        m.insert(k.to_owned(), v);
    }
    for (k, v) in &s.faults_fired {
        m.insert(format!("fault_{k}"), *v);
    }
    m
}

#[derive(Default, Serialize, Deserialize)]
pub struct Agg {
    pub property: String,
    pub evaluations: u64,
    pub nontrivial: u64,
    pub distinct_cases: BTreeSet<u64>,
    pub distinct_interleavings: BTreeSet<u64>,
    pub sim_ns: u64,
    pub polls: u64,
    pub events: u64,
    pub stats: BTreeMap<String, u64>,
    pub probes: BTreeMap<String, u64>,
    pub cells: BTreeMap<String, u64>,
    pub samples: Vec<serde_json::Value>,
    pub violations: Vec<ViolationRec>,
    pub wall_s: f64,
    /// (seed, ev_hash) pairs for determinism comparison
    pub hashes: Vec<(u64, u64, u64)>,
    pub exhaustive: bool,
}

impl Agg {
    pub fn add(&mut self, plan: &Plan, cell: &str, o: Outcome, keep_hashes: bool) {
        self.evaluations += 1 + o.extra_evaluations;
        self.nontrivial += o.extra_cases.len() as u64;
        for h in &o.extra_cases {
            self.distinct_cases.insert(*h);
        }
        if o.nontrivial {
            self.nontrivial += 1;
            self.distinct_cases.insert(o.case_hash);
            self.distinct_interleavings.insert(o.poll_hash);
        }
        self.sim_ns += o.sim_ns;
        self.polls += o.polls;
        self.events += o.ev_count;
        for (k, v) in o.stats {
            *self.stats.entry(k).or_insert(0) += v;
        }
        for (k, v) in o.probes {
            *self.probes.entry(k).or_insert(0) += v;
        }
        *self.cells.entry(cell.to_owned()).or_insert(0) += 1;
        if keep_hashes {
            self.hashes.push((plan.seed, o.ev_hash, o.poll_hash));
        }
        for v in o.violations {
            if let Some(r) = self.violations.iter_mut().find(|r| r.signature == v.signature) {
                r.count += 1;
            } else {
                let mut p = plan.clone();
                if let Some(serde_json::Value::Object(patch)) = v.patch {
                    if !p.extra.is_object() {
                        p.extra = serde_json::json!({});
                    }
                    for (k, val) in patch {
                        p.extra[k] = val;
                    }
                }
                self.violations.push(ViolationRec { property: v.property, signature: v.signature, detail: v.detail, count: 1, plan: p, ev_hash: o.ev_hash });
            }
        }
    }
}
