//! C05 / C02, in-path datagram attacker – the datagram half of C05 with the attacker *inside* the path.
//!
//! `scen_c05u` injects mutated copies next to the genuine datagrams; a copy that arrives after its original is refused
//! by the packet-id window whatever the decoder does with its bytes, which hides a decoder that no longer checks a part
//! of the datagram. Here the client <-> server datagram link is held by the simulator (`udp_hold_ports`): every
//! datagram of either direction is parked, the attacker first presents its mutated versions (a bit flipped at every
//! byte position, truncations, multi-byte edits, appended bytes, and for Shadowsocks 2022 the datagram reflected to its
//! sender) and only then lets the genuine datagram pass. Rounds alternate between an application whose session is
//! already known to the server and a fresh application (first datagram of a new session).
//!
//! Oracle (C05): no mutated datagram makes anything arrive at the target or at an application; the genuine one is
//! still relayed afterwards. Oracle (C02, "owner" part): after the genuine datagram the attacker replays it unchanged
//! from an address of its own; the replies of that session must keep going to the socket that owns it - never to the
//! replayer's address.

use std::collections::BTreeMap;
use std::net::IpAddr;
use std::net::Ipv4Addr;
use std::net::SocketAddr;
use std::sync::Arc;
use std::sync::Mutex;
use std::time::Duration;

use octo_squirrel::verif::net::UdpSocket;
use octo_squirrel::verif::net::inject_datagram;
use octo_squirrel::verif::world;

use crate::nodes::*;
use crate::plan::*;
use crate::report::Outcome;
use crate::report::Violation;
use crate::rnd::Gen;
use crate::rt;
use crate::scen_udp::*;

pub fn gen_c05i(prop: &str, seed: u64, thorough: bool) -> Plan {
    let mut g = Gen::new(seed, 57);
    let cells: Vec<(&str, usize)> = SS_CIPHERS.iter().flat_map(|c| if supports_eih(c) { vec![(*c, 0usize), (*c, 2), (*c, 3)] } else { vec![(*c, 0)] }).collect();
    let (cipher, n_users) = cells[seed as usize % cells.len()];
    let config = udp_config(&mut g, Proto::Shadowsocks, cipher, Transport::Tcp, n_users);
    let rounds = if thorough { g.range(3, 5) } else { g.range(2, 3) } as usize;
    let sizes: Vec<usize> = (0..rounds).map(|_| *g.pick(&[9usize, 10, 33, 64, 120])).collect();
    Plan {
        property: prop.into(),
        scenario: "dgram-inpath".into(),
        seed,
        net_seed: g.next(),
        config,
        knobs: KnobsPlan::simple(),
        flows: vec![],
        extra: serde_json::json!({ "sizes": sizes, "by_name": g.chance(30), "sub_seed": g.next(), "replay_from_other_address": true }),
    }
}

#[derive(Clone, Debug, serde::Serialize, serde::Deserialize)]
struct Mutation {
    round: usize,
    c2s: bool,
    flips: Vec<(usize, u8)>,
    truncate: Option<usize>,
    append: usize,
    reflect: bool,
}

struct MiniApp {
    sock: Arc<UdpSocket>,
    got: Arc<Mutex<Vec<Vec<u8>>>>,
    _reader: AbortOnDrop<()>,
}

async fn mini_app() -> Option<MiniApp> {
    let sock = Arc::new(UdpSocket::bind(SocketAddr::new(IpAddr::V4(Ipv4Addr::LOCALHOST), 0)).await.ok()?);
    let got = Arc::new(Mutex::new(Vec::new()));
    let (rs, rg) = (sock.clone(), got.clone());
    let reader = spawn_scoped(async move {
        let mut buf = vec![0u8; 65536];
        loop {
            let Ok((n, _)) = rs.recv_from(&mut buf).await else { return };
            rg.lock().unwrap().push(buf[..n].to_vec());
        }
    });
    Some(MiniApp { sock, got, _reader: reader })
}

fn mutations_of(g: &mut Gen, round: usize, c2s: bool, len: usize, legacy: bool) -> Vec<Mutation> {
    let mut muts = Vec::new();
    for k in 0..len {
        muts.push(Mutation { round, c2s, flips: vec![(k, 1 << g.below(8))], truncate: None, append: 0, reflect: false });
    }
    for k in (0..len).step_by(3) {
        muts.push(Mutation { round, c2s, flips: vec![], truncate: Some(k), append: 0, reflect: false });
    }
    for _ in 0..6 {
        let n = g.range(2, 5);
        let flips = (0..n).map(|_| (g.below(len as u64) as usize, 1u8 << g.below(8))).collect();
        muts.push(Mutation { round, c2s, flips, truncate: None, append: 0, reflect: false });
    }
    // a whole 16-byte block replaced (the separate header / an identity header of the 2022 AES layouts)
    for b in 0..(len / 16).min(4) {
        let flips = (0..16).map(|i| (b * 16 + i, (g.below(255) + 1) as u8)).collect();
        muts.push(Mutation { round, c2s, flips, truncate: None, append: 0, reflect: false });
    }
    muts.push(Mutation { round, c2s, flips: vec![], truncate: None, append: g.range(1, 20) as usize, reflect: false });
    if !legacy {
        muts.push(Mutation { round, c2s, flips: vec![], truncate: None, append: 0, reflect: true });
    }
    muts
}

fn apply(m: &Mutation, orig: &[u8]) -> Vec<u8> {
    let mut d = orig.to_vec();
    for (k, mask) in &m.flips {
        if *k < d.len() {
            d[*k] ^= mask;
        }
    }
    if let Some(t) = m.truncate {
        d.truncate(t);
    }
    d.extend(std::iter::repeat_n(0xA5u8, m.append));
    d
}

pub fn execute_c05i(plan: &Plan) -> Outcome {
    let sizes: Vec<usize> = serde_json::from_value(plan.extra["sizes"].clone()).unwrap_or_else(|_| vec![9, 33]);
    let by_name = plan.extra["by_name"].as_bool().unwrap_or(false);
    let replay_other = plan.extra["replay_from_other_address"].as_bool().unwrap_or(true);
    let only: Option<Vec<Mutation>> = plan.extra.get("only_mutations").and_then(|v| serde_json::from_value(v.clone()).ok());
    let cell = format!("{}{}", plan.config.family(), if plan.config.users.len() > 1 { "+users" } else { "" });
    let legacy = !is_2022(&plan.config.cipher);
    let mut g = Gen::new(plan.extra["sub_seed"].as_u64().unwrap_or(9), 58);
    let out = rt::run_sim(plan.seed, plan.net_seed, plan.knobs.to_knobs(), || async {
        // (property, oracle, detail, mutation)
        let mut findings: Vec<(&'static str, String, String, Option<Mutation>)> = Vec::new();
        let mut probes: BTreeMap<String, u64> = BTreeMap::new();
        let mut evals = 0u64;
        let target = UdpTarget { ip: [127, 0, 5, 2], port: 5006, name: by_name.then(|| "inpath-target.c05i.test".to_owned()), replies: 1, reply_size: 40 };
        world::with(|w| {
            w.udp_capture = Some(Vec::new());
            if let Some(n) = &target.name {
                w.zone.insert(n.clone(), Some(IpAddr::V4(Ipv4Addr::from(target.ip))));
            }
        });
        let mains = match start_system(&plan.config, "127.0.0.1", SERVER_PORT).await {
            Ok(m) => m,
            Err(e) => return (Some(e), findings, evals, probes),
        };
        if !settle(|| udp_bound(SERVER_PORT)).await {
            return (Some("server UDP socket is not bound".to_owned()), findings, evals, probes);
        }
        // the target: answers every datagram once, and can be made to send a further datagram to whoever it heard from last
        let Ok(tsock) = UdpSocket::bind(target_sockaddr(&target)).await else { return (Some("target socket".to_owned()), findings, evals, probes) };
        let tsock = Arc::new(tsock);
        let tlog: Arc<Mutex<Vec<(SocketAddr, Vec<u8>)>>> = Arc::new(Mutex::new(Vec::new()));
        let _t = {
            let (s, l, reply_size) = (tsock.clone(), tlog.clone(), target.reply_size);
            spawn_scoped(async move {
                let mut buf = vec![0u8; 65536];
                loop {
                    let Ok((n, from)) = s.recv_from(&mut buf).await else { return };
                    let data = buf[..n].to_vec();
                    if data.len() >= 8 {
                        let app = u16::from_be_bytes([data[0], data[1]]) as usize;
                        let seq = u32::from_be_bytes([data[4], data[5], data[6], data[7]]);
                        let _ = s.send_to(&dgram_payload(app, 0, seq, 1, reply_size.max(9)), from).await;
                    }
                    l.lock().unwrap().push((from, data));
                }
            })
        };
        tokio::task::yield_now().await;
        let at_target = || tlog.lock().unwrap().len();
        let srv = server_addr();
        let client = SocketAddr::new(IpAddr::V4(Ipv4Addr::LOCALHOST), CLIENT_PORT);
        // the replayer's own address, with a socket behind it so that a redirected reply is seen arriving
        let replayer_addr = SocketAddr::new(IpAddr::V4(Ipv4Addr::new(127, 0, 66, 6)), 6666);
        let replayer = UdpSocket::bind(replayer_addr).await.ok().map(Arc::new);
        let replayer_got = Arc::new(Mutex::new(0usize));
        let _rr = replayer.clone().map(|s| {
            let c = replayer_got.clone();
            spawn_scoped(async move {
                let mut buf = vec![0u8; 65536];
                while s.recv_from(&mut buf).await.is_ok() {
                    *c.lock().unwrap() += 1;
                }
            })
        });
        // a known session first: one undisturbed exchange of the long-lived application
        let Some(old_app) = mini_app().await else { return (Some("application socket".to_owned()), findings, evals, probes) };
        let mut seq = 0u32;
        seq += 1;
        let _ = old_app.sock.send_to(&socks5_udp_wrap(&target, &dgram_payload(0, 0, seq, 0, 24)), client).await;
        tokio::time::sleep(Duration::from_millis(300)).await;
        if at_target() != 1 || old_app.got.lock().unwrap().len() != 1 {
            return (Some(format!("baseline exchange incomplete: target received {}, application received {}", at_target(), old_app.got.lock().unwrap().len())), findings, evals, probes);
        }
        world::with(|w| w.udp_hold_ports = vec![SERVER_PORT]);
        let mut fresh_apps: Vec<MiniApp> = Vec::new();
        let mut owner_of_old: Option<SocketAddr> = None;
        for (round, size) in sizes.iter().enumerate() {
            // even rounds: the known session; odd rounds: a fresh application (new binding, new session)
            let app: &MiniApp = if round % 2 == 0 {
                &old_app
            } else {
                match mini_app().await {
                    Some(a) => {
                        fresh_apps.push(a);
                        fresh_apps.last().unwrap()
                    }
                    None => break,
                }
            };
            let app_before = app.got.lock().unwrap().len();
            seq += 1;
            let _ = app.sock.send_to(&socks5_udp_wrap(&target, &dgram_payload(round, 0, seq, 0, *size)), client).await;
            tokio::time::sleep(Duration::from_millis(50)).await;
            let held: Vec<(SocketAddr, SocketAddr, Vec<u8>)> = world::with(|w| std::mem::take(&mut w.udp_held));
            let Some((cfrom, _, orig)) = held.iter().find(|(_, to, _)| *to == srv).cloned() else {
                findings.push(("C05", "inpath-no-datagram-on-the-link".into(), format!("round {round}: the client put no datagram on the link for a {size}-byte local datagram"), None));
                break;
            };
            if round % 2 == 0 {
                if let Some(o) = owner_of_old {
                    if o != cfrom {
                        *probes.entry("client_outbound_socket_changed".into()).or_default() += 1;
                    }
                }
                owner_of_old = Some(cfrom);
            }
            // ---- client -> server: mutated versions first
            let t_before = at_target();
            let muts: Vec<Mutation> = match &only {
                Some(l) => l.iter().filter(|m| m.round == round && m.c2s).cloned().collect(),
                None => mutations_of(&mut g, round, true, orig.len(), legacy),
            };
            for m in muts {
                let d = apply(&m, &orig);
                if d == orig && !m.reflect {
                    continue;
                }
                let (from, to) = if m.reflect { (srv, cfrom) } else { (cfrom, srv) };
                inject_datagram(from, to, &d);
                evals += 1;
                tokio::time::sleep(Duration::from_millis(15)).await;
                let leaked_reply = world::with(|w| w.udp_held.iter().any(|(f, _, _)| *f == srv));
                if at_target() != t_before || app.got.lock().unwrap().len() != app_before || leaked_reply {
                    let what = if m.reflect { "reflected-accepted" } else { "tampered-accepted" };
                    let sig = format!("inpath-{what}/c2s/{}", if round % 2 == 0 { "known-session" } else { "new-session" });
                    if !findings.iter().any(|f| f.1 == sig) {
                        findings.push(("C05", sig, format!("{m:?} on a {}-byte datagram presented before the genuine one: datagrams at the target {} -> {}, at the application {} -> {}, server answered: {leaked_reply}", orig.len(), t_before, at_target(), app_before, app.got.lock().unwrap().len()), Some(m.clone())));
                    }
                    // what the mutated datagram set in motion must not be mistaken for the genuine exchange below
                    tokio::time::sleep(Duration::from_millis(100)).await;
                    world::with(|w| w.udp_held.clear());
                    break;
                }
            }
            let t_before = at_target();
            // ---- the genuine datagram
            inject_datagram(cfrom, srv, &orig);
            tokio::time::sleep(Duration::from_millis(60)).await;
            if at_target() != t_before + 1 {
                // the relay may legitimately have lost interest (e.g. a mutated copy that was accepted used the packet id up);
                // without a violation above this is only counted
                *probes.entry("genuine_not_relayed_after_mutations".into()).or_default() += 1;
                if !findings.iter().any(|f| f.0 == "C05") && !findings.iter().any(|f| f.1.starts_with("session-dead-after-undecodable-datagram")) {
                    findings.push(("C08", format!("session-dead-after-undecodable-datagram/{}", if round % 2 == 0 { "known-session" } else { "new-session" }), format!("round {round}: after the undecodable versions of a datagram (all refused) the genuine datagram of that application was no longer relayed"), None));
                }
                world::with(|w| w.udp_held.clear());
                continue;
            }
            *probes.entry("rounds_genuine_relayed".into()).or_default() += 1;
            // the server-side socket through which the owner's association talks to the target
            let owner_peer = tlog.lock().unwrap().last().map(|(f, _)| *f);
            let held: Vec<(SocketAddr, SocketAddr, Vec<u8>)> = world::with(|w| std::mem::take(&mut w.udp_held));
            let Some((_, rto, reply)) = held.iter().find(|(f, _, _)| *f == srv).cloned() else {
                findings.push(("C02", "inpath-no-reply-on-the-link".into(), format!("round {round}: the target answered but the server put no reply on the link"), None));
                continue;
            };
            if rto != cfrom {
                findings.push(("C02", "reply-sent-to-another-address".into(), format!("round {round}: the reply of the session owned by {cfrom} was sent to {rto}"), None));
            }
            // ---- server -> client: mutated versions first
            let muts: Vec<Mutation> = match &only {
                Some(l) => l.iter().filter(|m| m.round == round && !m.c2s).cloned().collect(),
                None => mutations_of(&mut g, round, false, reply.len(), legacy),
            };
            for m in muts {
                let d = apply(&m, &reply);
                if d == reply && !m.reflect {
                    continue;
                }
                let (from, to) = if m.reflect { (cfrom, srv) } else { (srv, cfrom) };
                let t_now = at_target();
                inject_datagram(from, to, &d);
                evals += 1;
                tokio::time::sleep(Duration::from_millis(15)).await;
                if app.got.lock().unwrap().len() != app_before || at_target() != t_now {
                    let what = if m.reflect { "reflected-accepted" } else { "tampered-accepted" };
                    let sig = format!("inpath-{what}/s2c/{}", if round % 2 == 0 { "known-session" } else { "new-session" });
                    if !findings.iter().any(|f| f.1 == sig) {
                        findings.push(("C05", sig, format!("{m:?} on a {}-byte reply presented before the genuine one: datagrams at the application {} -> {}, at the target {} -> {}", reply.len(), app_before, app.got.lock().unwrap().len(), t_now, at_target()), Some(m.clone())));
                    }
                    tokio::time::sleep(Duration::from_millis(100)).await;
                    world::with(|w| w.udp_held.clear());
                    break;
                }
            }
            let app_now = app.got.lock().unwrap().len();
            inject_datagram(srv, cfrom, &reply);
            tokio::time::sleep(Duration::from_millis(60)).await;
            if app.got.lock().unwrap().len() == app_now + 1 {
                *probes.entry("rounds_reply_delivered".into()).or_default() += 1;
            } else if app_now == app_before {
                *probes.entry("genuine_reply_not_delivered_after_mutations".into()).or_default() += 1;
                if !findings.iter().any(|f| f.0 == "C05") && !findings.iter().any(|f| f.1.starts_with("reply-path-dead-after-undecodable-reply")) {
                    findings.push(("C08", format!("reply-path-dead-after-undecodable-reply/{}", if round % 2 == 0 { "known-session" } else { "new-session" }), format!("round {round}: undecodable datagrams arrived at the client's outbound socket (all refused); the genuine reply that followed was no longer delivered to the application - one hostile datagram silences the binding until the application sends again"), None));
                }
            }
            // ---- the owner part: an unchanged copy of the genuine datagram from the replayer's own address
            if replay_other && only.is_none() {
                inject_datagram(replayer_addr, srv, &orig);
                evals += 1;
                *probes.entry("replays_from_another_address".into()).or_default() += 1;
                tokio::time::sleep(Duration::from_millis(60)).await;
                // (legacy Shadowsocks datagrams carry nothing that tells a copy from the original - a limit of the protocol)
                if !legacy && at_target() != t_before + 1 {
                    findings.push(("C11", "packet-id-accepted-twice-after-address-change".into(), format!("round {round}: the packet id of an already relayed datagram was accepted a second time when the same datagram arrived from another address"), None));
                    findings.push(("C05", "inpath-replay-from-another-address-relayed".into(), format!("round {round}: an unchanged copy of an already relayed datagram, sent from another address, was relayed again"), None));
                }
                // whatever the replay itself set in motion (legacy ciphers: it is relayed and answered to its sender) is not the owner's
                let stirred: Vec<(SocketAddr, SocketAddr, Vec<u8>)> = world::with(|w| std::mem::take(&mut w.udp_held));
                if !legacy && stirred.iter().any(|(f, _, _)| *f == srv) {
                    findings.push(("C05", "inpath-replay-from-another-address-answered".into(), format!("round {round}: the server answered an unchanged copy of an already relayed datagram that came from another address"), None));
                }
                // the target speaks again on its own (a streaming answer): that datagram belongs to the owner of the session
                if let Some(peer) = owner_peer {
                    let own_before = app.got.lock().unwrap().len();
                    let _ = tsock.send_to(&dgram_payload(round, 0, seq, 2, 31), peer).await;
                    tokio::time::sleep(Duration::from_millis(60)).await;
                    let held: Vec<(SocketAddr, SocketAddr, Vec<u8>)> = world::with(|w| std::mem::take(&mut w.udp_held));
                    let mut on_link = false;
                    for (f, t, d) in &held {
                        if *f == srv {
                            on_link = true;
                            if *t != cfrom {
                                findings.push(("C02", "unsolicited-reply-redirected".into(), format!("round {round}: after an unchanged copy of the session's datagram had arrived from {replayer_addr}, a further datagram of the target for the session owned by {cfrom} was sent to {t}"), None));
                            }
                            inject_datagram(*f, *t, d);
                        }
                    }
                    tokio::time::sleep(Duration::from_millis(60)).await;
                    if on_link {
                        *probes.entry("unsolicited_replies_after_replay".into()).or_default() += 1;
                        if app.got.lock().unwrap().len() != own_before + 1 && !findings.iter().any(|f| f.0 == "C02") {
                            findings.push(("C02", "owner-lost-unsolicited-reply-after-replay".into(), format!("round {round}: after the replay from another address a further datagram of the target was put on the link but did not reach the owning application"), None));
                        }
                    } else {
                        *probes.entry("unsolicited_reply_not_on_link".into()).or_default() += 1;
                    }
                }
                // the session's next exchange: the reply has to go to the owner
                let own_before = app.got.lock().unwrap().len();
                seq += 1;
                let _ = app.sock.send_to(&socks5_udp_wrap(&target, &dgram_payload(round, 0, seq, 0, 16)), client).await;
                tokio::time::sleep(Duration::from_millis(50)).await;
                let held: Vec<(SocketAddr, SocketAddr, Vec<u8>)> = world::with(|w| std::mem::take(&mut w.udp_held));
                for (f, t, d) in &held {
                    if *t == srv {
                        inject_datagram(*f, *t, d);
                    }
                }
                tokio::time::sleep(Duration::from_millis(60)).await;
                let held: Vec<(SocketAddr, SocketAddr, Vec<u8>)> = world::with(|w| std::mem::take(&mut w.udp_held));
                let mut saw_reply = false;
                for (f, t, d) in &held {
                    if *f == srv {
                        saw_reply = true;
                        if *t == replayer_addr {
                            findings.push(("C02", "reply-redirected-to-replayer".into(), format!("round {round}: after an unchanged copy of the session's datagram had arrived from {replayer_addr}, the reply to the owner's next datagram was sent to {t} instead of the owner {cfrom}"), None));
                        } else if *t != cfrom {
                            // the client may have re-made its binding (another socket of the same client): not a redirection
                            *probes.entry("reply_to_another_client_socket".into()).or_default() += 1;
                        }
                        inject_datagram(*f, *t, d);
                    }
                }
                tokio::time::sleep(Duration::from_millis(60)).await;
                let at_replayer = *replayer_got.lock().unwrap();
                if !legacy && at_replayer > 0 && !findings.iter().any(|f| f.1 == "reply-redirected-to-replayer") {
                    findings.push(("C02", "reply-redirected-to-replayer".into(), format!("round {round}: {at_replayer} datagram(s) arrived at the replayer's address {replayer_addr}"), None));
                }
                if saw_reply && app.got.lock().unwrap().len() != own_before + 1 && !findings.iter().any(|f| f.0 == "C02") {
                    findings.push(("C02", "owner-lost-its-reply-after-replay".into(), format!("round {round}: after the replay from another address the owner's next exchange was answered on the link but the reply did not reach the owning application"), None));
                }
                if !saw_reply {
                    *probes.entry("no_reply_after_replay".into()).or_default() += 1;
                }
            }
        }
        world::with(|w| {
            w.udp_hold_ports.clear();
            w.udp_held.clear();
        });
        // (C12) whatever the attacker's datagrams set in motion - an association rebuilt for another address, a session
        // restarted - the ids the server seals within one server session keep increasing: a repeated id is a repeated nonce
        if !legacy {
            let c = crate::refpeer::creds(&plan.config);
            let cap: Vec<(SocketAddr, SocketAddr, Vec<u8>)> = world::with(|w| w.udp_capture.clone().unwrap_or_default());
            let mut last: BTreeMap<u64, u64> = BTreeMap::new();
            let mut parsed = 0u64;
            for (from, _, data) in cap.iter().filter(|(f, _, _)| *f == srv) {
                let opened = if refimpl::ss2022::is_aes(&c.cipher) {
                    let mut keys = c.user_keys.clone();
                    keys.push(c.psk.clone());
                    keys.iter().find_map(|k| refimpl::ss2022::udp_open_aes(&c.cipher, k, &[k.clone()], 0, data, true).ok().map(|(b, _, _, _)| b))
                } else {
                    refimpl::ss2022::udp_open_chacha(&c.cipher, &c.psk, data, true).ok().map(|(b, _)| b)
                };
                let _ = from;
                if let Some(b) = opened {
                    parsed += 1;
                    let e = last.entry(b.session_id).or_insert(0);
                    if b.packet_id <= *e && !findings.iter().any(|f| f.0 == "C12") {
                        findings.push(("C12", "server-packet-id-reused".into(), format!("the server sealed packet id {} after {} in its session {:#x}: the same nonce under the same session key", b.packet_id, *e, b.session_id), None));
                    }
                    *e = (*e).max(b.packet_id);
                }
            }
            probes.insert("server_datagrams_parsed_for_packet_ids".into(), parsed);
        }
        // the relay still works, undisturbed
        if let Some(fresh) = mini_app().await {
            let before = at_target();
            let _ = fresh.sock.send_to(&socks5_udp_wrap(&target, &dgram_payload(9, 0, 1, 0, 21)), client).await;
            tokio::time::sleep(Duration::from_millis(500)).await;
            if at_target() != before + 1 || fresh.got.lock().unwrap().len() != 1 {
                findings.push(("C05", "service-down-after-inpath-tampering".into(), "after the tampered datagrams a fresh application's datagram was not relayed and answered".into(), None));
            }
        }
        drop(mains);
        (None, findings, evals, probes)
    });
    let (startup, findings, evals, mut probes) = out.result.clone();
    let mut v = Vec::new();
    if let Some(e) = startup {
        v.push(Violation::new(&plan.property, format!("{}/dgram-inpath-startup/{cell}", plan.property), e));
    }
    for (prop, oracle, detail, m) in &findings {
        let viol = Violation::new(prop, format!("{prop}/dgram-{oracle}/{cell}"), detail.clone());
        v.push(match m {
            Some(m) => viol.with_patch(serde_json::json!({ "only_mutations": [m] })),
            None => viol,
        });
    }
    for p in &out.panics {
        v.push(Violation::new(&plan.property, format!("{}/panic/{cell}/udp/{}", plan.property, p.frame), format!("panic in node {}: {} at {}", p.node, p.message, p.location)));
    }
    probes.insert("inpath_datagram_mutations".to_owned(), evals);
    Outcome {
        violations: v,
        ev_hash: out.world.ev_hash,
        ev_count: out.world.ev_count,
        poll_hash: out.poll_hash,
        polls: out.polls,
        sim_ns: out.sim_ns,
        stats: crate::report::world_stats(&out.world),
        nontrivial: evals > 0,
        case_hash: out.poll_hash ^ plan.seed.wrapping_mul(0x9E3779B97F4A7C15),
        probes,
        panics: out.panics,
        extra_evaluations: evals,
        extra_cases: (0..evals).map(|i| plan.seed.wrapping_mul(1_000_213).wrapping_add(i)).collect(),
    }
}
