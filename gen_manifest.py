#!/usr/bin/env python3
"""Regenerates MANIFEST.json from the table below (keeps it valid at all times)."""
import json, sys
sys.path.insert(0, '/verif')
from checks_table import CHECKS
props = [json.loads(l)['id'] for l in open('/verif/properties.jsonl')]
TEXT = {
 "C01": ("exploration", "seeded search over configurations x traffic scripts x network schedules with the real client and server mains on the simulated network; oracle over the recorded history (exactly-one dial to the requested address, prefix / exactly-once / in-order byte streams, completeness and EOF by ending). Sampling, not proof.", "DESIGN.md 4/C01"),
 "C04": ("fault_enumeration", "every single cut point of the observed client->server and server->client streams of every protocol/cipher cell (plus byte-at-a-time, seeded multi-cut and, thorough, sampled pairs), delivered by a man-in-the-middle node to the real server/client with quiescence after each piece; oracle = same address, same plaintext, no error, nothing withheld at quiescence. Exhaustive over single cuts of the sampled streams, sampled over streams.", "DESIGN.md 4/C04"),
 "C05": ("fault_enumeration", "a bit flip in every byte position, truncation, deletion, duplication, insertion, multi-byte edits and reflection applied by a man-in-the-middle node to the real streams between real client and server; oracle = released bytes are a prefix and (Shadowsocks) never exceed what an untampered stream cut at the tampered byte releases. Exhaustive over positions of the sampled streams.", "DESIGN.md 4/C05"),
}
TEXT["C13"] = ("fault_enumeration", "every single cut point (plus multi-cuts and byte-at-a-time) of generated SOCKS5 / HTTP CONNECT / absolute-URI handshakes, well-formed and malformed, against the real client with a real server and target behind it; oracle = exact dial, conformant replies, exact payload, refusal of malformed requests. Exhaustive over single cuts of the sampled handshakes, sampled over the grammar.", "DESIGN.md 4/C13")
TEXT["C15"] = ("fault_enumeration", "batches of concurrent flows through the real client and server, each ended by one fault of the catalogue (half-close, close, abandon, reset on either side, link cut at a byte offset, target refused / unresolvable / black-holed) at a seeded point of the transfer over tcp/tls/ws/wss; oracle on the history: closing side's data delivered, other side notified within 10 simulated seconds, sockets and tasks of both nodes back at the idle baseline.", "DESIGN.md 4/C15")
TEXT["C08"] = ("fault_enumeration", "each fault of the catalogue alone and seeded sequences of up to 5 (8) against the real client and server in every protocol/transport cell, stalled connections held open, followed by a fresh canary flow that must be served within 60 simulated seconds (bounded liveness once faults stop), listeners still bound, mains still running.", "DESIGN.md 4/C08")
TEXT["C02"] = ("exploration", "seeded histories of uniquely numbered datagrams from several local applications to several targets through the real client(s) and server over every UDP-capable configuration, with idle gaps across the table TTLs and, for Shadowsocks, loss / duplication / reordering on the link; oracle over the recorded history: exactly-once (clean) or at-most-once whole-or-nothing (lossy) delivery to the right target, replies to the owning application only, correctly labelled.", "DESIGN.md 4/C02")
TEXT["C11"] = ("model_checking", "the real packet-window filter is compared with a small executable reference model over every arrival order of length <= 5 drawn from the boundary alphabet (exhaustive) and over seeded long histories; the same arrival orders are then produced by the simulated network (duplication, reordering) between the real Shadowsocks-2022 client and server, where every datagram must be relayed exactly once and refusals must not end the session.", "DESIGN.md 4/C11")
TEXT["C16"] = ("fault_enumeration", "exhaustive enumeration of the documented cipher, protocol, mode names, of all 2022 key lengths 0..48 and of a list of undocumented strings; each case boots the real main() functions in the simulator, where the set of bound listeners / datagram sockets is observable and a canary flow is run. Exhaustive over the stated case list.", "DESIGN.md 4/C16")
TEXT["C14"] = ("exploration", "every name length 0..1024 x four protocol families with sampled contents, ports and payloads, requested through the real client (SOCKS5 / HTTP) with the real server behind a byte-counting link node; oracle = exact (name, port, payload) at the server and target, or nothing sent at all; plus direct round trips of both address codecs with a tail. The property has no schedule or fault dimension; the simulator supplies the observation points (what was dialled, what was put on the wire).", "DESIGN.md 4/C14")
TEXT["C03"] = ("exploration", "reference-model refinement inside the simulator: an independent implementation of the specifications is the peer of the real client and of the real server on the simulated wire (streams and Shadowsocks datagrams, both directions), strict as a receiver; seeded over credentials, addresses, payload scripts, ciphers, user tables and VMess option masks; plus the sender limits of the stream encoders.", "DESIGN.md 4/C03, appendix B")
TEXT["C10"] = ("fault_enumeration", "the reference implementation as a hostile peer: all timestamp offsets across both edges of the 30 s (2022 streams and datagrams) and 120 s (VMess) windows, type bytes, replay histories with the simulated clock advanced 0..70 s between the copies, and mis-typed / stale / unbound responses to the real client; accept must equal the reference predicate, with a control handshake after every probe.", "DESIGN.md 4/C10")
TEXT["C12"] = ("exploration", "everything the real encoders put on the simulated wire over many sessions and writes per run is parsed by the reference decoders, which recover (derived key, nonce) per sealed unit; oracle: all pairs distinct, per-session random values pairwise distinct, packet ids strictly increasing.", "DESIGN.md 4/C12")
TEXT["C06"] = ("exploration", "seeded attacks against the real server of every protocol (random data, reference handshakes under wrong / one-bit-wrong / unregistered credentials, missing identity headers, other protocols, truncations, forged datagrams); oracle on the simulated registry: no connect / send toward a target for an unauthenticated peer; user separation with two registered users sharing a datagram session id.", "DESIGN.md 4/C06")
TEXT["C07"] = ("exploration", "exhaustive short strings plus random, structure-aware, truncated and authenticated-but-malformed inputs (reference sender) against every network-facing decoder of the real client and server, with EOF and quiet after them; oracle = the process-wide panic monitor stays empty and the service carries on.", "DESIGN.md 4/C07")
TEXT["C09"] = ("exploration", "task level: batches of concurrent flows through the real client and server versus each flow alone, compared on their observable results, under seeded task interleavings; thread level: the shared salt cache and the real 2022 handshake decoder under shuttle's controlled thread scheduler (seeded random + PCT, replayable schedule files).", "DESIGN.md 4/C09, E3")
NOTE = {
 "C09": "two engines (simnet + shuttle); whole-relay parallelism on a multi-thread runtime and the UDP cipher cache at thread level are not covered",
 "C06": "trusted base as C03; attacks are sampled",
 "C07": "trusted base as C03; short strings exhaustive up to length 2, otherwise sampled; hostile-server replies to the client are sampled by C10 and the link checks",
 "C12": "trusted base as C03; detects missing / reused draws and counters, not weak randomness",
 "C10": "trusted base as C03 (reference implementation) plus the clock seam (hook H4) and the vendored lru_time_cache clock",
 "C03": "trusted base: the reference implementation (calibrated points listed in the evidence assumptions) and the third-party crypto crates both sides share",
 "C14": "trusted base as C01; contents of names sampled, lengths exhaustive",
 "C16": "trusted base as C01; QUIC endpoints are not simulated; algorithm identity is C03's",
 "C11": "reference model = the property's own predicate; exhaustive only over the stated alphabet and length; system half samples schedules",
 "C02": "trusted base as C01; QUIC rows not covered",
 "C08": "trusted base as C01; fault catalogue is the harness's; TCP side only in this check",
 "C15": "trusted base as C01; 'descriptors' = simulated sockets, 'tasks' = tokio tasks attributed to a node through the runtime's spawn hooks",
 "C13": "trusted base as C01; grammar of requests is the harness's; the application waits for each reply",
 "C01": "trusted base: the simulated kernel model (/verif/seam), harness applications/targets, tokio's scheduler; one thread per world; QUIC cells not covered",
 "C04": "trusted base as C01 plus the harness segmenter; plain tcp carrier; TLS/WebSocket re-segmentation is only sampled (C01 knobs), QUIC not covered",
 "C05": "trusted base as C01 plus the harness mutator; plain tcp carrier; VMess padding is unauthenticated by design (prefix oracle only); datagrams covered elsewhere",
}
hooks = ["b814c06", "5a9de8b", "57fdc10", "4aa1ab9", "ec40427"]
claimed = [p for p in props if p in CHECKS and p in TEXT]
m = {
 "version": 1,
 "setup_cmd": "cd /verif/sim && CARGO_NET_OFFLINE=true cargo build --release --offline && cd /verif/shuttle && CARGO_NET_OFFLINE=true cargo build --release --offline",
 "hooks": {"guard": "octo_squirrel_verif",
           "enable": "rustc --cfg octo_squirrel_verif (set in /verif/sim/.cargo/config.toml build.rustflags together with --cfg tokio_unstable and --cfg getrandom_backend=\"custom\"); the harness crate /verif/sim depends on /repo's three crates by path, so every check rebuilds from /repo's working tree",
           "baseline_off_cmd": "cd /repo && cargo test --workspace --no-fail-fast --offline", "source_commits": hooks, "add_only": True},
 "engines": [{"name": "E3-shuttle", "path": "/verif/shuttle", "serves_properties": ["C09"], "kind_free_text": "shuttle controlled thread scheduler over the real salt cache + 2022 handshake decoder (shadow manifest of /repo's library, hook H6)"},
             {"name": "E1-simnet", "path": "/verif/sim + /verif/seam", "serves_properties": claimed,
              "kind_free_text": "deterministic whole-system simulation: real client/server mains on a simulated network, paused clock, seeded scheduler and entropy, fault injection (segmentation, delay, partial writes, back-pressure, resets, link mutation), history oracles, plan-level shrinking and replay"}],
 "checks": [{
    "property_id": p, "quick_cmd": f"./check {p} --tier quick", "thorough_cmd": f"./check {p} --tier thorough",
    "evidence_file": f"/verif/evidence/{p}.json", "replay_cmd_template": f"./check {p} --replay {{path}}", "engine": "E1-simnet",
    "level_claimed": {"category": TEXT[p][0], "text": TEXT[p][1], "design_ref": TEXT[p][2]},
    "level_note": NOTE[p],
    "technique": "deterministic simulation with fault injection (seeded whole-system runs, history oracle, shrink + replay)"} for p in claimed],
 "not_applicable": [{"property_id": p, "reason": "check under construction in this session (see DESIGN.md); not claimed yet"} for p in props if p not in claimed],
 "notes": "work in progress: further properties are being added",
}
json.dump(m, open('/verif/MANIFEST.json', 'w'), indent=1)
print("claimed:", claimed)
