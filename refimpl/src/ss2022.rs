//! Shadowsocks 2022 (SIP022) with extensible identity headers (SIP023).

use crate::aes_ecb_decrypt_block;
use crate::aes_ecb_encrypt_block;
use crate::ss::StreamDec;
use crate::ss::StreamEnc;
use crate::Addr;
use crate::Aead;
use crate::KeyNonce;

pub const MAX_CHUNK: usize = 0xFFFF;

pub fn tcp_aead(cipher: &str) -> Option<Aead> {
    match cipher {
        "2022-blake3-aes-128-gcm" => Some(Aead::Aes128Gcm),
        "2022-blake3-aes-256-gcm" => Some(Aead::Aes256Gcm),
        "2022-blake3-chacha20-poly1305" => Some(Aead::ChaCha20Poly1305),
        "2022-blake3-chacha8-poly1305" => Some(Aead::ChaCha8Poly1305),
        _ => None,
    }
}

pub fn is_aes(cipher: &str) -> bool {
    cipher.contains("aes")
}

pub fn session_subkey(psk: &[u8], salt: &[u8], len: usize) -> Vec<u8> {
    let mut m = psk.to_vec();
    m.extend_from_slice(salt);
    blake3::derive_key("shadowsocks 2022 session subkey", &m)[..len].to_vec()
}

pub fn identity_subkey(ipsk: &[u8], salt: &[u8], len: usize) -> Vec<u8> {
    let mut m = ipsk.to_vec();
    m.extend_from_slice(salt);
    blake3::derive_key("shadowsocks 2022 identity subkey", &m)[..len].to_vec()
}

pub fn psk_hash(psk: &[u8]) -> [u8; 16] {
    let mut h = [0u8; 16];
    h.copy_from_slice(&blake3::hash(psk).as_bytes()[..16]);
    h
}

/// `keys` = [iPSK0, ..., uPSK] (a single element means no identity header)
pub fn tcp_eih(keys: &[Vec<u8>], salt: &[u8]) -> Vec<u8> {
    let mut out = Vec::new();
    for i in 0..keys.len().saturating_sub(1) {
        let sub = identity_subkey(&keys[i], salt, keys[i].len());
        let mut block = psk_hash(&keys[i + 1]);
        aes_ecb_encrypt_block(&sub, &mut block);
        out.extend_from_slice(&block);
    }
    out
}

#[derive(Clone, Debug)]
pub struct ReqOpts {
    pub stream_type: u8,
    pub timestamp: u64,
    pub padding: usize,
    /// put the first payload into the variable header (the usual case) – otherwise padding must be non-zero
    pub initial_payload: bool,
}

/// Request flight: salt | EIH* | AEAD(type, ts, len) | AEAD(addr, padlen, pad, payload). Returns (bytes, encoder for further chunks).
pub fn request(cipher: &str, keys: &[Vec<u8>], salt: &[u8], addr: &Addr, first: &[u8], o: &ReqOpts) -> (Vec<u8>, StreamEnc) {
    let aead = tcp_aead(cipher).expect("2022 cipher");
    let upsk = keys.last().unwrap();
    let mut enc = StreamEnc::with_key(aead, session_subkey(upsk, salt, aead.key_len()), MAX_CHUNK);
    let mut var = addr.socks();
    var.extend_from_slice(&(o.padding as u16).to_be_bytes());
    var.extend(std::iter::repeat(0x5au8).take(o.padding));
    // the variable-length header holds at most 0xFFFF bytes: what does not fit follows as ordinary chunks
    let room = MAX_CHUNK - var.len();
    let (head, tail) = if o.initial_payload { first.split_at(first.len().min(room)) } else { (&first[..0], first) };
    var.extend_from_slice(head);
    let mut fixed = vec![o.stream_type];
    fixed.extend_from_slice(&o.timestamp.to_be_bytes());
    fixed.extend_from_slice(&(var.len() as u16).to_be_bytes());
    let mut out = salt.to_vec();
    if is_aes(cipher) {
        out.extend(tcp_eih(keys, salt));
    }
    out.extend(enc.seal(&fixed));
    out.extend(enc.seal(&var));
    if !tail.is_empty() {
        out.extend(enc.write(tail));
    }
    (out, enc)
}

/// Request flight with arbitrary bytes in the identity-header slot and the body sealed under `body_psk` (what a peer
/// that holds the server key but no registered user key can produce).
pub fn request_with_identity_bytes(cipher: &str, eih: &[u8], body_psk: &[u8], salt: &[u8], addr: &Addr, first: &[u8], timestamp: u64) -> Vec<u8> {
    let aead = tcp_aead(cipher).expect("2022 cipher");
    let mut enc = StreamEnc::with_key(aead, session_subkey(body_psk, salt, aead.key_len()), MAX_CHUNK);
    let mut var = addr.socks();
    var.extend_from_slice(&0u16.to_be_bytes());
    var.extend_from_slice(first);
    let mut fixed = vec![0u8];
    fixed.extend_from_slice(&timestamp.to_be_bytes());
    fixed.extend_from_slice(&(var.len() as u16).to_be_bytes());
    let mut out = salt.to_vec();
    out.extend_from_slice(eih);
    out.extend(enc.seal(&fixed));
    out.extend(enc.seal(&var));
    out
}

/// Request whose variable header carries arbitrary (possibly malformed) content – for the "authenticated but malformed" cases.
pub fn request_raw_var(cipher: &str, keys: &[Vec<u8>], salt: &[u8], var: &[u8], stream_type: u8, timestamp: u64, declared_len: Option<u16>) -> Vec<u8> {
    let aead = tcp_aead(cipher).expect("2022 cipher");
    let upsk = keys.last().unwrap();
    let mut enc = StreamEnc::with_key(aead, session_subkey(upsk, salt, aead.key_len()), MAX_CHUNK);
    let mut fixed = vec![stream_type];
    fixed.extend_from_slice(&timestamp.to_be_bytes());
    fixed.extend_from_slice(&declared_len.unwrap_or(var.len() as u16).to_be_bytes());
    let mut out = salt.to_vec();
    if is_aes(cipher) {
        out.extend(tcp_eih(keys, salt));
    }
    out.extend(enc.seal(&fixed));
    out.extend(enc.seal(var));
    out
}

/// Response flight: salt | AEAD(type, ts, request salt, len) | AEAD(payload)
pub fn response(cipher: &str, key: &[u8], salt: &[u8], request_salt: &[u8], first: &[u8], stream_type: u8, timestamp: u64) -> (Vec<u8>, StreamEnc) {
    let aead = tcp_aead(cipher).expect("2022 cipher");
    let mut enc = StreamEnc::with_key(aead, session_subkey(key, salt, aead.key_len()), MAX_CHUNK);
    let first = &first[..first.len().min(MAX_CHUNK)];
    let mut fixed = vec![stream_type];
    fixed.extend_from_slice(&timestamp.to_be_bytes());
    fixed.extend_from_slice(request_salt);
    fixed.extend_from_slice(&(first.len() as u16).to_be_bytes());
    let mut out = salt.to_vec();
    out.extend(enc.seal(&fixed));
    out.extend(enc.seal(first));
    (out, enc)
}

#[derive(Debug, Default, Clone)]
pub struct ParsedRequest {
    pub salt: Vec<u8>,
    pub user_index: Option<usize>,
    pub stream_type: u8,
    pub timestamp: u64,
    pub addr: Option<Addr>,
    pub padding: usize,
    pub payload: Vec<u8>,
    pub header_len: usize,
}

/// Strict server-side parser of a client stream. `server_keys`: [PSK] or [iPSK]; `users`: uPSKs (EIH expected iff non-empty and AES).
pub struct RequestParser {
    pub cipher: String,
    pub psk: Vec<u8>,
    pub users: Vec<Vec<u8>>,
    pub buf: Vec<u8>,
    pub req: Option<ParsedRequest>,
    pub dec: Option<StreamDec>,
    pub now: u64,
}

impl RequestParser {
    pub fn new(cipher: &str, psk: &[u8], users: &[Vec<u8>], now: u64) -> Self {
        RequestParser { cipher: cipher.to_owned(), psk: psk.to_vec(), users: users.to_vec(), buf: Vec::new(), req: None, dec: None, now }
    }

    /// Feed bytes; `Ok(true)` once the header has been parsed. Payload accumulates in `req.payload`.
    pub fn feed(&mut self, data: &[u8]) -> Result<bool, String> {
        let aead = tcp_aead(&self.cipher).unwrap();
        let n = aead.key_len();
        if self.req.is_none() {
            self.buf.extend_from_slice(data);
            let eih = if is_aes(&self.cipher) && !self.users.is_empty() { 16 } else { 0 };
            let fixed_end = n + eih + 11 + 16;
            if self.buf.len() < fixed_end {
                return Ok(false);
            }
            let salt = self.buf[..n].to_vec();
            let mut user_index = None;
            let key = if eih > 0 {
                let sub = identity_subkey(&self.psk, &salt, n);
                let mut block = [0u8; 16];
                block.copy_from_slice(&self.buf[n..n + 16]);
                aes_ecb_decrypt_block(&sub, &mut block);
                let idx = self.users.iter().position(|u| psk_hash(u) == block).ok_or("identity header names no registered user")?;
                user_index = Some(idx);
                self.users[idx].clone()
            } else {
                self.psk.clone()
            };
            let mut dec = StreamDec::with_key(aead, session_subkey(&key, &salt, n), MAX_CHUNK);
            let fixed = dec.open(&self.buf[n + eih..fixed_end])?;
            let stream_type = fixed[0];
            let timestamp = u64::from_be_bytes(fixed[1..9].try_into().unwrap());
            let len = u16::from_be_bytes([fixed[9], fixed[10]]) as usize;
            if stream_type != 0 {
                return Err(format!("stream type {stream_type} in a request"));
            }
            if timestamp.abs_diff(self.now) > 30 {
                return Err(format!("timestamp {timestamp} is more than 30 s from {}", self.now));
            }
            if self.buf.len() < fixed_end + len + 16 {
                // keep waiting, but the fixed header has already used nonce 0: re-parse from scratch next time
                return Ok(false);
            }
            let var = dec.open(&self.buf[fixed_end..fixed_end + len + 16])?;
            let (addr, used) = Addr::parse_socks(&var)?;
            if var.len() < used + 2 {
                return Err("no padding length".into());
            }
            let padding = u16::from_be_bytes([var[used], var[used + 1]]) as usize;
            if var.len() < used + 2 + padding {
                return Err("padding exceeds the header".into());
            }
            let payload = var[used + 2 + padding..].to_vec();
            if payload.is_empty() && padding == 0 {
                return Err("neither payload nor padding in the request header".into());
            }
            let rest = self.buf.split_off(fixed_end + len + 16);
            self.req = Some(ParsedRequest { salt, user_index, stream_type, timestamp, addr: Some(addr), padding, payload, header_len: fixed_end + len + 16 });
            dec.consumed = 0;
            self.dec = Some(dec);
            let more = self.dec.as_mut().unwrap().feed(&rest)?;
            self.req.as_mut().unwrap().payload.extend(more);
            self.buf.clear();
            return Ok(true);
        }
        let more = self.dec.as_mut().unwrap().feed(data)?;
        self.req.as_mut().unwrap().payload.extend(more);
        Ok(true)
    }
}

#[derive(Debug, Default, Clone)]
pub struct ParsedResponse {
    pub salt: Vec<u8>,
    pub stream_type: u8,
    pub timestamp: u64,
    pub request_salt: Vec<u8>,
    pub payload: Vec<u8>,
}

/// Strict client-side parser of a server stream.
pub struct ResponseParser {
    pub cipher: String,
    pub key: Vec<u8>,
    pub request_salt: Vec<u8>,
    pub buf: Vec<u8>,
    pub resp: Option<ParsedResponse>,
    pub dec: Option<StreamDec>,
    pub now: u64,
}

impl ResponseParser {
    pub fn new(cipher: &str, key: &[u8], request_salt: &[u8], now: u64) -> Self {
        ResponseParser { cipher: cipher.to_owned(), key: key.to_vec(), request_salt: request_salt.to_vec(), buf: Vec::new(), resp: None, dec: None, now }
    }

    pub fn feed(&mut self, data: &[u8]) -> Result<bool, String> {
        let aead = tcp_aead(&self.cipher).unwrap();
        let n = aead.key_len();
        if self.resp.is_none() {
            self.buf.extend_from_slice(data);
            let fixed_end = n + 1 + 8 + n + 2 + 16;
            if self.buf.len() < fixed_end {
                return Ok(false);
            }
            let salt = self.buf[..n].to_vec();
            let mut dec = StreamDec::with_key(aead, session_subkey(&self.key, &salt, n), MAX_CHUNK);
            let fixed = dec.open(&self.buf[n..fixed_end])?;
            let stream_type = fixed[0];
            let timestamp = u64::from_be_bytes(fixed[1..9].try_into().unwrap());
            let request_salt = fixed[9..9 + n].to_vec();
            let len = u16::from_be_bytes([fixed[9 + n], fixed[10 + n]]) as usize;
            if stream_type != 1 {
                return Err(format!("stream type {stream_type} in a response"));
            }
            if timestamp.abs_diff(self.now) > 30 {
                return Err(format!("response timestamp {timestamp} is more than 30 s from {}", self.now));
            }
            if request_salt != self.request_salt {
                return Err("response is bound to another request salt".into());
            }
            if self.buf.len() < fixed_end + len + 16 {
                return Ok(false);
            }
            let payload = dec.open(&self.buf[fixed_end..fixed_end + len + 16])?;
            let rest = self.buf.split_off(fixed_end + len + 16);
            self.resp = Some(ParsedResponse { salt, stream_type, timestamp, request_salt, payload });
            dec.consumed = 0;
            self.dec = Some(dec);
            let more = self.dec.as_mut().unwrap().feed(&rest)?;
            self.resp.as_mut().unwrap().payload.extend(more);
            self.buf.clear();
            return Ok(true);
        }
        let more = self.dec.as_mut().unwrap().feed(data)?;
        self.resp.as_mut().unwrap().payload.extend(more);
        Ok(true)
    }
}

// ---------------------------------------------------------------- UDP

#[derive(Clone, Debug)]
pub struct UdpBody {
    pub session_id: u64,
    pub packet_id: u64,
    pub stream_type: u8,
    pub timestamp: u64,
    /// server -> client only
    pub client_session_id: Option<u64>,
    pub padding: usize,
    pub addr: Addr,
    pub payload: Vec<u8>,
}

fn udp_body_bytes(b: &UdpBody) -> Vec<u8> {
    let mut v = vec![b.stream_type];
    v.extend_from_slice(&b.timestamp.to_be_bytes());
    if let Some(c) = b.client_session_id {
        v.extend_from_slice(&c.to_be_bytes());
    }
    v.extend_from_slice(&(b.padding as u16).to_be_bytes());
    v.extend(std::iter::repeat(0u8).take(b.padding));
    v.extend(b.addr.socks());
    v.extend_from_slice(&b.payload);
    v
}

/// AES variants: `keys` = [iPSK0.., uPSK] for client packets; for server packets pass the single key that encrypts header and body.
pub fn udp_packet_aes(cipher: &str, keys: &[Vec<u8>], b: &UdpBody) -> Vec<u8> {
    udp_packet_aes_raw(cipher, keys, b.session_id, b.packet_id, &udp_body_bytes(b))
}

/// The same datagram layout around a caller-chosen (possibly malformed) body: well authenticated, wrong inside.
pub fn udp_packet_aes_raw(cipher: &str, keys: &[Vec<u8>], session_id: u64, packet_id: u64, body: &[u8]) -> Vec<u8> {
    let aead = tcp_aead(cipher).unwrap();
    let n = aead.key_len();
    let mut header = [0u8; 16];
    header[..8].copy_from_slice(&session_id.to_be_bytes());
    header[8..].copy_from_slice(&packet_id.to_be_bytes());
    let nonce = header[4..16].to_vec();
    let body_key = session_subkey(keys.last().unwrap(), &session_id.to_be_bytes(), n);
    let mut enc_header = header;
    aes_ecb_encrypt_block(&keys[0], &mut enc_header);
    let mut out = enc_header.to_vec();
    for i in 0..keys.len().saturating_sub(1) {
        let mut block = psk_hash(&keys[i + 1]);
        for (x, y) in block.iter_mut().zip(header.iter()) {
            *x ^= y;
        }
        aes_ecb_encrypt_block(&keys[i], &mut block);
        out.extend_from_slice(&block);
    }
    out.extend(aead.seal(&body_key, &nonce, &[], body));
    out
}

/// A client packet whose identity headers name the key chain `keys` while the body is sealed under the session
/// sub-key of `body_psk` (what a registered user who claims to be another registered user would send).
pub fn udp_packet_aes_mismatched(cipher: &str, keys: &[Vec<u8>], body_psk: &[u8], b: &UdpBody) -> Vec<u8> {
    let aead = tcp_aead(cipher).unwrap();
    let n = aead.key_len();
    let mut header = [0u8; 16];
    header[..8].copy_from_slice(&b.session_id.to_be_bytes());
    header[8..].copy_from_slice(&b.packet_id.to_be_bytes());
    let nonce = header[4..16].to_vec();
    let body_key = session_subkey(body_psk, &b.session_id.to_be_bytes(), n);
    let mut enc_header = header;
    aes_ecb_encrypt_block(&keys[0], &mut enc_header);
    let mut out = enc_header.to_vec();
    for i in 0..keys.len().saturating_sub(1) {
        let mut block = psk_hash(&keys[i + 1]);
        for (x, y) in block.iter_mut().zip(header.iter()) {
            *x ^= y;
        }
        aes_ecb_encrypt_block(&keys[i], &mut block);
        out.extend_from_slice(&block);
    }
    out.extend(aead.seal(&body_key, &nonce, &[], &udp_body_bytes(b)));
    out
}

pub fn udp_packet_chacha(cipher: &str, key: &[u8], nonce24: &[u8; 24], b: &UdpBody) -> Vec<u8> {
    udp_packet_chacha_raw(cipher, key, nonce24, b.session_id, b.packet_id, &udp_body_bytes(b))
}

pub fn udp_packet_chacha_raw(cipher: &str, key: &[u8], nonce24: &[u8; 24], session_id: u64, packet_id: u64, body: &[u8]) -> Vec<u8> {
    let aead = if cipher.contains("chacha8") { Aead::XChaCha8Poly1305 } else { Aead::XChaCha20Poly1305 };
    let mut pt = session_id.to_be_bytes().to_vec();
    pt.extend_from_slice(&packet_id.to_be_bytes());
    pt.extend_from_slice(body);
    let mut out = nonce24.to_vec();
    out.extend(aead.seal(key, nonce24, &[], &pt));
    out
}

fn parse_body(session_id: u64, packet_id: u64, pt: &[u8], from_server: bool) -> Result<UdpBody, String> {
    let need = 1 + 8 + if from_server { 8 } else { 0 } + 2;
    if pt.len() < need {
        return Err("short body".into());
    }
    let stream_type = pt[0];
    let timestamp = u64::from_be_bytes(pt[1..9].try_into().unwrap());
    let mut i = 9;
    let client_session_id = if from_server {
        i += 8;
        Some(u64::from_be_bytes(pt[9..17].try_into().unwrap()))
    } else {
        None
    };
    let padding = u16::from_be_bytes([pt[i], pt[i + 1]]) as usize;
    i += 2;
    if pt.len() < i + padding {
        return Err("padding exceeds the packet".into());
    }
    i += padding;
    let (addr, used) = Addr::parse_socks(&pt[i..])?;
    Ok(UdpBody { session_id, packet_id, stream_type, timestamp, client_session_id, padding, addr, payload: pt[i + used..].to_vec() })
}

/// Open an AES packet. `header_key`: key of the separate header; `body_keys`: candidates for the body (server: per-user keys or the PSK).
/// Returns (body, index of the body key that worked, key/nonce used, identity header blocks).
pub fn udp_open_aes(cipher: &str, header_key: &[u8], body_keys: &[Vec<u8>], eih_blocks: usize, packet: &[u8], from_server: bool) -> Result<(UdpBody, usize, KeyNonce, Vec<[u8; 16]>), String> {
    let aead = tcp_aead(cipher).unwrap();
    let n = aead.key_len();
    if packet.len() < 16 + 16 * eih_blocks + 16 {
        return Err("short packet".into());
    }
    let mut header = [0u8; 16];
    header.copy_from_slice(&packet[..16]);
    aes_ecb_decrypt_block(header_key, &mut header);
    let session_id = u64::from_be_bytes(header[..8].try_into().unwrap());
    let packet_id = u64::from_be_bytes(header[8..].try_into().unwrap());
    let mut eih = Vec::new();
    for i in 0..eih_blocks {
        let mut b = [0u8; 16];
        b.copy_from_slice(&packet[16 + 16 * i..32 + 16 * i]);
        aes_ecb_decrypt_block(header_key, &mut b);
        for (x, y) in b.iter_mut().zip(header.iter()) {
            *x ^= y;
        }
        eih.push(b);
    }
    let ct = &packet[16 + 16 * eih_blocks..];
    for (i, k) in body_keys.iter().enumerate() {
        let key = session_subkey(k, &session_id.to_be_bytes(), n);
        if let Ok(pt) = aead.open(&key, &header[4..16], &[], ct) {
            let body = parse_body(session_id, packet_id, &pt, from_server)?;
            return Ok((body, i, KeyNonce { key, nonce: header[4..16].to_vec() }, eih));
        }
    }
    Err("authentication failed under every candidate key".into())
}

pub fn udp_open_chacha(cipher: &str, key: &[u8], packet: &[u8], from_server: bool) -> Result<(UdpBody, KeyNonce), String> {
    let aead = if cipher.contains("chacha8") { Aead::XChaCha8Poly1305 } else { Aead::XChaCha20Poly1305 };
    if packet.len() < 24 + 16 + 16 {
        return Err("short packet".into());
    }
    let pt = aead.open(key, &packet[..24], &[], &packet[24..])?;
    let session_id = u64::from_be_bytes(pt[..8].try_into().unwrap());
    let packet_id = u64::from_be_bytes(pt[8..16].try_into().unwrap());
    let body = parse_body(session_id, packet_id, &pt[16..], from_server)?;
    Ok((body, KeyNonce { key: key.to_vec(), nonce: packet[..24].to_vec() }))
}
