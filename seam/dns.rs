//! Simulated resolver (hook H3 and the name branch of `TcpStream::connect`).
//! IP literals (including bracketed IPv6, which `"{host}:{port}".to_socket_addrs()`
//! also accepts) resolve to themselves without a query, exactly like getaddrinfo.

use std::io;
use std::net::SocketAddr;

use super::world;
use super::world::DnsRec;
use super::world::FaultKind;

pub fn resolve(host: &str, port: u16) -> io::Result<SocketAddr> {
    if let Ok(addr) = format!("{host}:{port}").parse::<SocketAddr>() {
        return Ok(addr);
    }
    let node = world::current_node();
    world::with(|w| {
        let t_ns = w.now_ns();
        let hit = w.zone.get(host).cloned().flatten();
        let failed = hit.is_some() && w.take_fault(FaultKind::DnsFail, 0, node);
        let res = if failed { None } else { hit };
        w.dns_queries.push(DnsRec { t_ns, node, name: host.to_owned(), ok: res.is_some() });
        w.log(15, host.len() as u64, res.is_some() as u64);
        match res {
            Some(ip) => Ok(SocketAddr::new(ip, port)),
            None => Err(io::Error::new(io::ErrorKind::Other, "failed to lookup address information: Name or service not known")),
        }
    })
}
