//! The plan: everything one run does, as data. A plan is generated from a seed,
//! executed, and – when it fails – shrunk and written out as the replay file.
//! Replay loads the plan verbatim; nothing is regenerated from the seed.

use serde::Deserialize;
use serde::Serialize;

use crate::rnd::Gen;

pub const CERT: &str = "/verif/certs/sim.crt";
pub const KEY: &str = "/verif/certs/sim.key";
pub const SERVER_PORT: u16 = 8388;
pub const CLIENT_PORT: u16 = 1080;

#[derive(Clone, Copy, Debug, Serialize, Deserialize, PartialEq, Eq, Hash, PartialOrd, Ord)]
#[serde(rename_all = "lowercase")]
pub enum Proto {
    Shadowsocks,
    Vmess,
    Trojan,
}

#[derive(Clone, Copy, Debug, Serialize, Deserialize, PartialEq, Eq, Hash, PartialOrd, Ord)]
#[serde(rename_all = "lowercase")]
pub enum Transport {
    Tcp,
    Tls,
    Ws,
    Wss,
    Quic,
}

pub const SS_CIPHERS: [&str; 7] = [
    "aes-128-gcm",
    "aes-256-gcm",
    "chacha20-poly1305",
    "2022-blake3-aes-128-gcm",
    "2022-blake3-aes-256-gcm",
    "2022-blake3-chacha8-poly1305",
    "2022-blake3-chacha20-poly1305",
];
pub const VMESS_CIPHERS: [&str; 2] = ["aes-128-gcm", "chacha20-poly1305"];

pub fn key_len(cipher: &str) -> usize {
    match cipher {
        "aes-128-gcm" | "2022-blake3-aes-128-gcm" => 16,
        _ => 32,
    }
}

pub fn is_2022(cipher: &str) -> bool {
    cipher.starts_with("2022-")
}

pub fn supports_eih(cipher: &str) -> bool {
    cipher == "2022-blake3-aes-128-gcm" || cipher == "2022-blake3-aes-256-gcm"
}

/// Proxy configuration shared by the real client and the real server.
#[derive(Clone, Debug, Serialize, Deserialize, PartialEq)]
pub struct Config {
    pub proto: Proto,
    pub cipher: String,
    pub transport: Transport,
    /// server-side `password` (PSK / iPSK for multi-user, Trojan password; unused for VMess)
    pub server_password: String,
    /// client-side `password` (PSK, "iPSK:uPSK", UUID, Trojan password)
    pub client_password: String,
    /// server `user` table: (name, password)
    pub users: Vec<(String, String)>,
    pub client_mode: String,
    pub server_mode: String,
}

impl Config {
    pub fn family(&self) -> String {
        match self.proto {
            Proto::Shadowsocks => {
                if is_2022(&self.cipher) {
                    format!("ss2022/{}", self.cipher)
                } else {
                    format!("ss-legacy/{}", self.cipher)
                }
            }
            Proto::Vmess => format!("vmess/{}", self.cipher),
            Proto::Trojan => "trojan".to_owned(),
        }
    }

    pub fn label(&self) -> String {
        format!("{}/{:?}", self.family(), self.transport).to_lowercase()
    }

    pub fn server_json(&self) -> String {
        let mut s = serde_json::json!({
            "host": "127.0.0.1",
            "port": SERVER_PORT,
            "password": self.server_password,
            "protocol": match self.proto { Proto::Shadowsocks => "shadowsocks", Proto::Vmess => "vmess", Proto::Trojan => "trojan" },
            "cipher": self.cipher,
            "mode": self.server_mode,
            "user": self.users.iter().map(|(n, p)| serde_json::json!({"name": n, "password": p})).collect::<Vec<_>>(),
        });
        let ssl = serde_json::json!({"certificateFile": CERT, "keyFile": KEY, "serverName": "sim.test"});
        match self.transport {
            Transport::Tcp => {}
            Transport::Tls => {
                s["ssl"] = ssl;
            }
            Transport::Ws => {
                s["ws"] = serde_json::json!({"header": {"Host": "sim.test"}, "path": "/ws"});
            }
            Transport::Wss => {
                s["ssl"] = ssl;
                s["ws"] = serde_json::json!({"header": {"Host": "sim.test"}, "path": "/ws"});
            }
            Transport::Quic => {
                s["quic"] = ssl;
            }
        }
        serde_json::Value::Array(vec![s]).to_string()
    }

    pub fn client_json(&self, server_host: &str, server_port: u16) -> String {
        let mut s = serde_json::json!({
            "host": server_host,
            "port": server_port,
            "password": self.client_password,
            "protocol": match self.proto { Proto::Shadowsocks => "shadowsocks", Proto::Vmess => "vmess", Proto::Trojan => "trojan" },
            "cipher": self.cipher,
        });
        let ssl = serde_json::json!({"certificateFile": CERT, "serverName": "sim.test"});
        match self.transport {
            Transport::Tcp => {}
            Transport::Tls => {
                s["ssl"] = ssl;
            }
            Transport::Ws => {
                s["ws"] = serde_json::json!({"header": {"Host": "sim.test"}, "path": "/ws"});
            }
            Transport::Wss => {
                s["ssl"] = ssl;
                s["ws"] = serde_json::json!({"header": {"Host": "sim.test"}, "path": "/ws"});
            }
            Transport::Quic => {
                s["quic"] = ssl;
            }
        }
        serde_json::json!({"port": CLIENT_PORT, "index": 0, "mode": self.client_mode, "servers": [s]}).to_string()
    }
}

pub fn b64(bytes: &[u8]) -> String {
    use base64ct::Encoding;
    base64ct::Base64::encode_string(bytes)
}

pub fn gen_uuid(g: &mut Gen) -> String {
    let mut b = [0u8; 16];
    g.fill(&mut b);
    let h: String = b.iter().map(|x| format!("{x:02x}")).collect();
    format!("{}-{}-{}-{}-{}", &h[0..8], &h[8..12], &h[12..16], &h[16..20], &h[20..32])
}

pub fn gen_password(g: &mut Gen) -> String {
    let n = g.range(1, 24) as usize;
    (0..n).map(|_| (b'!' + g.below(90) as u8) as char).filter(|c| *c != '"' && *c != '\\').collect::<String>() + "x"
}

/// A configuration drawn from the README table. `n_users` > 0 requests a multi-user Shadowsocks 2022 (EIH) set-up.
pub fn gen_config(g: &mut Gen, proto: Proto, cipher: &str, transport: Transport, n_users: usize) -> Config {
    let mut users = Vec::new();
    let (server_password, client_password) = match proto {
        Proto::Shadowsocks => {
            if is_2022(cipher) {
                let n = key_len(cipher);
                let mut k = vec![0u8; n];
                g.fill(&mut k);
                let psk = b64(&k);
                if n_users > 0 && supports_eih(cipher) {
                    let mut client = String::new();
                    for i in 0..n_users {
                        g.fill(&mut k);
                        let upsk = b64(&k);
                        if i == 0 {
                            client = format!("{psk}:{upsk}");
                        }
                        users.push((format!("user{i}"), upsk));
                    }
                    (psk, client)
                } else {
                    (psk.clone(), psk)
                }
            } else {
                let p = gen_password(g);
                (p.clone(), p)
            }
        }
        Proto::Vmess => {
            let id = gen_uuid(g);
            users.push(("u0".to_owned(), id.clone()));
            for i in 1..=n_users {
                users.push((format!("u{i}"), gen_uuid(g)));
            }
            ("unused".to_owned(), id)
        }
        Proto::Trojan => {
            let p = gen_password(g);
            (p.clone(), p)
        }
    };
    // a Shadowsocks server serves QUIC in the modes "quic" and "tcp_and_quic" (VMess and Trojan whenever a quic section exists)
    let server_mode = if transport == Transport::Quic && proto == Proto::Shadowsocks { *g.pick(&["quic", "tcp_and_quic"]) } else { "tcp" };
    Config {
        proto,
        cipher: cipher.to_owned(),
        transport,
        server_password,
        client_password,
        users,
        client_mode: "tcp".to_owned(),
        server_mode: server_mode.to_owned(),
    }
}

/// All (protocol, cipher) rows of the README.
pub fn all_proto_ciphers() -> Vec<(Proto, &'static str)> {
    let mut v = Vec::new();
    for c in SS_CIPHERS {
        v.push((Proto::Shadowsocks, c));
    }
    for c in VMESS_CIPHERS {
        v.push((Proto::Vmess, c));
    }
    v.push((Proto::Trojan, "aes-128-gcm"));
    v
}

#[derive(Clone, Debug, Serialize, Deserialize, PartialEq)]
pub struct KnobsPlan {
    pub latency_us: u64,
    pub jitter_us: u64,
    pub read_style: u8,
    pub write_style: u8,
    pub sndbuf: usize,
    pub pending_pm: u32,
    /// QUIC cells: per-mille loss / duplication / reordering of the datagrams between client and server (quinn recovers)
    #[serde(default)]
    pub dgram_loss_pm: u32,
    #[serde(default)]
    pub dgram_dup_pm: u32,
    #[serde(default)]
    pub dgram_reorder_pm: u32,
}

impl KnobsPlan {
    pub fn simple() -> Self {
        KnobsPlan { latency_us: 0, jitter_us: 0, read_style: 0, write_style: 0, sndbuf: 256 * 1024, pending_pm: 0, dgram_loss_pm: 0, dgram_dup_pm: 0, dgram_reorder_pm: 0 }
    }

    pub fn generate(g: &mut Gen) -> Self {
        // swarm: every run picks its own corner of the knob space
        let latency_us = *g.pick(&[0, 0, 50, 500, 5_000, 40_000]);
        let jitter_us = if latency_us == 0 { *g.pick(&[0, 0, 100]) } else { *g.pick(&[0, latency_us / 2, latency_us * 2]) };
        KnobsPlan {
            latency_us,
            jitter_us,
            read_style: *g.pick(&[0, 0, 1, 2, 3, 4, 255, 255]),
            write_style: *g.pick(&[0, 0, 1, 2, 255]),
            // a byte-sized window with a long round trip is not a fault, just a run that never ends
            sndbuf: if latency_us > 0 { *g.pick(&[16 * 1024, 256 * 1024]) } else { *g.pick(&[1, 7, 64, 1024, 16 * 1024, 256 * 1024, 256 * 1024]) },
            pending_pm: *g.pick(&[0, 0, 50, 300]),
            dgram_loss_pm: 0,
            dgram_dup_pm: 0,
            dgram_reorder_pm: 0,
        }
    }

    /// faults on the datagram link under QUIC, drawn for about half of the QUIC runs
    pub fn with_dgram_faults(mut self, g: &mut Gen, t: Transport) -> Self {
        if t == Transport::Quic && g.chance(50) {
            self.dgram_loss_pm = *g.pick(&[0, 10, 50, 150]);
            self.dgram_dup_pm = *g.pick(&[0, 0, 50, 300]);
            self.dgram_reorder_pm = *g.pick(&[0, 0, 100, 500]);
        }
        self
    }

    /// tokio-rustls + tokio-websockets handshakes assume a send buffer that holds a few hundred bytes (see
    /// `World::new_pipe`); real kernels never go below 4 KiB
    pub fn for_transport(mut self, t: Transport) -> Self {
        if matches!(t, Transport::Tls | Transport::Wss | Transport::Quic) && self.sndbuf < 4096 {
            self.sndbuf = 4096;
        }
        self
    }

    pub fn to_knobs(&self) -> octo_squirrel::verif::world::Knobs {
        octo_squirrel::verif::world::Knobs {
            latency_ns: self.latency_us * 1000,
            jitter_ns: self.jitter_us * 1000,
            read_style: self.read_style,
            write_style: self.write_style,
            sndbuf: self.sndbuf,
            pending_pm: self.pending_pm,
            udp_loss_pm: self.dgram_loss_pm,
            udp_dup_pm: self.dgram_dup_pm,
            udp_reorder_pm: self.dgram_reorder_pm,
            udp_reorder_max_ns: 20_000_000,
            udp_fault_ports: if self.dgram_loss_pm + self.dgram_dup_pm + self.dgram_reorder_pm > 0 { vec![SERVER_PORT] } else { Vec::new() },
            ..Default::default()
        }
    }
}

#[derive(Clone, Copy, Debug, Serialize, Deserialize, PartialEq, Eq)]
pub enum LocalHs {
    Socks5V4,
    Socks5Domain,
    HttpConnect,
    HttpPlain,
}

#[derive(Clone, Debug, Serialize, Deserialize, PartialEq, Eq)]
pub enum Op {
    /// write this many bytes in one `write_all`
    Write(usize),
    /// sleep this many simulated milliseconds
    Pause(u64),
}

#[derive(Clone, Copy, Debug, Serialize, Deserialize, PartialEq, Eq)]
pub enum Ending {
    /// nobody closes; the oracle looks at quiescence
    None,
    /// the application closes as soon as it has written everything
    AppAfterWrite,
    /// the application closes after it has written everything and received everything
    AppAfterAll,
    /// the target closes as soon as it has written everything
    TargetAfterWrite,
    /// the target closes after it has received everything and written everything
    TargetAfterAll,
    /// the application aborts (RST) at the end of its script
    AppReset,
    /// the target aborts (RST) at the end of its script
    TargetReset,
    /// the application closes its socket outright as soon as it has written everything (answers may be in flight)
    AppAbandon,
    /// the target closes its socket outright as soon as it has written everything
    TargetAbandon,
    /// the application writes everything and then aborts: the RST follows the data it has put on the wire (what a kernel
    /// sends when a socket is closed with unread input), so the proxy reads all of it and then ECONNRESET
    AppResetAfterWrite,
    /// the same for the target
    TargetResetAfterWrite,
}

#[derive(Clone, Debug, Serialize, Deserialize, PartialEq)]
pub struct TcpFlow {
    pub hs: LocalHs,
    /// `Some(name)`: the application asks for this domain name; `None`: for the IPv4 literal
    pub target_name: Option<String>,
    pub target_ip: [u8; 4],
    pub target_port: u16,
    pub start_ms: u64,
    pub up: Vec<Op>,
    pub down: Vec<Op>,
    /// the target starts answering once it has received this many bytes (≥ 1: the
    /// request header is created by the first payload, so a target-first banner
    /// is outside the property)
    pub target_waits_for: usize,
    pub ending: Ending,
    /// None: the target listens. "refused": nobody listens there. "unresolvable": the name is not in the zone.
    /// "blackhole": the dial never completes.
    #[serde(default)]
    pub target_fault: Option<String>,
}

impl TcpFlow {
    pub fn up_total(&self) -> usize {
        self.up.iter().map(|o| if let Op::Write(n) = o { *n } else { 0 }).sum()
    }

    pub fn down_total(&self) -> usize {
        self.down.iter().map(|o| if let Op::Write(n) = o { *n } else { 0 }).sum()
    }
}

pub fn gen_ops(g: &mut Gen, max_total: usize) -> Vec<Op> {
    let mut ops = Vec::new();
    let n = g.range(0, 6);
    let mut total = 0usize;
    for _ in 0..n {
        if g.chance(20) {
            ops.push(Op::Pause(*g.pick(&[0, 1, 10, 1000, 40_000])));
        } else {
            let sz = match g.below(8) {
                0 => 1,
                1 => g.range(1, 16),
                2 => g.range(1, 300),
                3 => g.range(1, 3000),
                4 => g.range(1000, 20_000),
                5 => *g.pick(&[2047, 2048, 2049, 16383, 16384, 16385, 32768, 65535, 65536, 65537]),
                6 => g.range(1, max_total as u64),
                _ => g.range(1, 64),
            } as usize;
            let sz = sz.min(max_total.saturating_sub(total)).max(1);
            total += sz;
            ops.push(Op::Write(sz));
        }
    }
    ops
}

/// A generic plan: scenario-specific parts live in `extra`.
#[derive(Clone, Debug, Serialize, Deserialize, PartialEq)]
pub struct Plan {
    pub property: String,
    pub scenario: String,
    pub seed: u64,
    pub net_seed: u64,
    pub config: Config,
    pub knobs: KnobsPlan,
    #[serde(default)]
    pub flows: Vec<TcpFlow>,
    #[serde(default)]
    pub extra: serde_json::Value,
}
