pub fn placeholder() {}
