//! Seeded generator for plans (separate from the network PRNG streams and from
//! the entropy the code under test draws).

#[derive(Clone, Debug)]
pub struct Gen(u64);

impl Gen {
    pub fn new(seed: u64, stream: u64) -> Self {
        let mut g = Gen(seed.wrapping_mul(0x9E37_79B9_7F4A_7C15) ^ stream.wrapping_mul(0xD6E8_FEB8_6659_FD93) ^ 0x5151_5151);
        g.next();
        g
    }

    pub fn next(&mut self) -> u64 {
        self.0 = self.0.wrapping_add(0x9E37_79B9_7F4A_7C15);
        let mut z = self.0;
        z = (z ^ (z >> 30)).wrapping_mul(0xBF58_476D_1CE4_E5B9);
        z = (z ^ (z >> 27)).wrapping_mul(0x94D0_49BB_1331_11EB);
        z ^ (z >> 31)
    }

    pub fn below(&mut self, n: u64) -> u64 {
        if n == 0 { 0 } else { self.next() % n }
    }

    pub fn range(&mut self, lo: u64, hi: u64) -> u64 {
        if hi <= lo { lo } else { lo + self.below(hi - lo + 1) }
    }

    /// true with probability pct/100
    pub fn chance(&mut self, pct: u64) -> bool {
        self.below(100) < pct
    }

    pub fn pick<'a, T>(&mut self, xs: &'a [T]) -> &'a T {
        &xs[self.below(xs.len() as u64) as usize]
    }

    pub fn fill(&mut self, buf: &mut [u8]) {
        for chunk in buf.chunks_mut(8) {
            let v = self.next().to_le_bytes();
            chunk.copy_from_slice(&v[..chunk.len()]);
        }
    }

    pub fn bytes(&mut self, n: usize) -> Vec<u8> {
        let mut v = vec![0; n];
        self.fill(&mut v);
        v
    }
}
