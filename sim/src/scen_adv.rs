//! Adversarial inputs.
//!
//! C06 – no relaying without the credential; users stay separated: an attacker
//!       (random bytes, reference handshakes under wrong / one-bit-wrong /
//!       unregistered keys, missing identity headers, other protocols'
//!       handshakes, every truncation of a valid one, forged datagrams) must
//!       never make the real server dial or send toward a target; replies to a
//!       user are sealed under that user's key only.
//! C07 – no network input can crash a task: exhaustive short strings, random
//!       and structure-aware strings, early closes, authenticated-but-malformed
//!       frames from the reference sender, hostile server replies and local
//!       datagrams; the process-wide panic monitor must stay empty and the
//!       service must carry on (control flow afterwards).

use std::collections::BTreeMap;
use std::net::IpAddr;
use std::net::Ipv4Addr;
use std::net::SocketAddr;
use std::sync::Arc;
use std::sync::Mutex;
use std::time::Duration;

use octo_squirrel::verif::clock::unix_now;
use octo_squirrel::verif::net::TcpListener;
use octo_squirrel::verif::net::TcpStream;
use octo_squirrel::verif::net::UdpSocket;
use octo_squirrel::verif::world;
use refimpl::Addr;
use tokio::io::AsyncReadExt;
use tokio::io::AsyncWriteExt;

use crate::nodes::*;
use crate::plan::*;
use crate::refpeer::*;
use crate::report::Outcome;
use crate::report::Violation;
use crate::rnd::Gen;
use crate::rt;

const T_IP: [u8; 4] = [127, 0, 66, 1];
const T_PORT: u16 = 6601;

fn target_sock() -> SocketAddr {
    SocketAddr::new(IpAddr::V4(Ipv4Addr::from(T_IP)), T_PORT)
}

#[derive(Default)]
struct TLog {
    tcp: Vec<Vec<u8>>,
    udp: Vec<(SocketAddr, Vec<u8>)>,
    /// the datagram target answers every datagram a second time, 45 simulated ms later ("late-reply:...")
    late_replies: bool,
    /// the datagram target never answers
    silent: bool,
}

async fn target(log: Arc<Mutex<TLog>>) {
    let Ok(l) = TcpListener::bind(target_sock()).await else { return };
    let Ok(u) = UdpSocket::bind(target_sock()).await else { return };
    let u = Arc::new(u);
    let ulog = log.clone();
    let _udp = spawn_scoped(async move {
        let mut buf = vec![0u8; 65536];
        let mut late = Vec::new();
        loop {
            let Ok((n, from)) = u.recv_from(&mut buf).await else { return };
            ulog.lock().unwrap().udp.push((from, buf[..n].to_vec()));
            if ulog.lock().unwrap().silent {
                continue;
            }
            let mut r = b"reply:".to_vec();
            r.extend_from_slice(&buf[..n.min(32)]);
            let _ = u.send_to(&r, from).await;
            if ulog.lock().unwrap().late_replies {
                let (u, mut r) = (u.clone(), b"late-".to_vec());
                r.extend_from_slice(b"reply:");
                r.extend_from_slice(&buf[..n.min(32)]);
                late.push(spawn_scoped(async move {
                    tokio::time::sleep(Duration::from_millis(45)).await;
                    let _ = u.send_to(&r, from).await;
                }));
            }
        }
    });
    let mut held = Vec::new();
    loop {
        let Ok((mut s, _)) = l.accept().await else { return };
        let ix = {
            let mut g = log.lock().unwrap();
            g.tcp.push(Vec::new());
            g.tcp.len() - 1
        };
        let log = log.clone();
        held.push(spawn_scoped(async move {
            let mut buf = vec![0u8; 4096];
            loop {
                match s.read(&mut buf).await {
                    Ok(0) | Err(_) => break,
                    Ok(n) => {
                        log.lock().unwrap().tcp[ix].extend_from_slice(&buf[..n]);
                        let _ = s.write_all(b"target-says-hello").await;
                    }
                }
            }
        }));
    }
}

/// Send `wire` to the server on a fresh connection, in `pieces` segments with quiet in between, then hold `hold_ms` and close.
async fn shoot(to: SocketAddr, wire: &[u8], pieces: usize, hold_ms: u64) {
    let Ok(mut s) = TcpStream::connect(to).await else { return };
    s.set_own_styles(0, 0);
    s.set_peer_read_style(0);
    let n = pieces.max(1);
    let step = (wire.len() + n - 1) / n;
    for chunk in wire.chunks(step.max(1)) {
        if s.write_all(chunk).await.is_err() {
            return;
        }
        if n > 1 {
            tokio::time::sleep(Duration::from_millis(20)).await;
        }
    }
    if hold_ms > 0 {
        tokio::time::sleep(Duration::from_millis(hold_ms)).await;
    }
    // read whatever the server may have answered (must not matter), then close
    let mut buf = [0u8; 512];
    let _ = tokio::time::timeout(Duration::from_millis(1), s.read(&mut buf)).await;
}

const WS_UPGRADE: &[u8] = b"GET /ws HTTP/1.1\r\nHost: sim.test\r\nUpgrade: websocket\r\nConnection: Upgrade\r\nSec-WebSocket-Key: dGhlIHNhbXBsZSBub25jZQ==\r\nSec-WebSocket-Version: 13\r\n\r\n";

/// minimal WebSocket client of the harness: upgrade, then every write is one masked binary message
async fn ws_open(to: SocketAddr) -> Option<TcpStream> {
    let mut s = TcpStream::connect(to).await.ok()?;
    s.set_own_styles(0, 0);
    s.set_peer_read_style(0);
    s.write_all(WS_UPGRADE).await.ok()?;
    let mut head = Vec::new();
    let mut b = [0u8; 1];
    while !head.ends_with(b"\r\n\r\n") {
        match tokio::time::timeout(Duration::from_secs(5), s.read(&mut b)).await {
            Ok(Ok(1)) => head.push(b[0]),
            _ => return None,
        }
    }
    head.starts_with(b"HTTP/1.1 101").then_some(s)
}

/// `wire` inside WebSocket binary messages (one per piece) on a fresh, correctly upgraded connection
async fn shoot_ws(to: SocketAddr, wire: &[u8], pieces: usize, hold_ms: u64) {
    let Some(mut s) = ws_open(to).await else { return };
    let n = pieces.max(1);
    let step = (wire.len() + n - 1) / n;
    for (i, chunk) in wire.chunks(step.max(1)).enumerate() {
        if s.write_all(&crate::proxy::ws_frame(chunk, 2, true, i as u64 + 1)).await.is_err() {
            return;
        }
        if n > 1 {
            tokio::time::sleep(Duration::from_millis(20)).await;
        }
    }
    if wire.is_empty() {
        let _ = s.write_all(&crate::proxy::ws_frame(&[], 2, true, 9)).await;
    }
    if hold_ms > 0 {
        tokio::time::sleep(Duration::from_millis(hold_ms)).await;
    }
    let mut buf = [0u8; 512];
    let _ = tokio::time::timeout(Duration::from_millis(1), s.read(&mut buf)).await;
}

/// harness-side TLS client (the simulated certificate is its own trust root)
async fn tls_open(to: SocketAddr) -> Option<tokio_rustls::client::TlsStream<TcpStream>> {
    use tokio_rustls::rustls;
    use tokio_rustls::rustls::pki_types::pem::PemObject;
    let _ = rustls::crypto::aws_lc_rs::default_provider().install_default();
    let mut roots = rustls::RootCertStore::empty();
    roots.add(rustls::pki_types::CertificateDer::from_pem_file(CERT).ok()?).ok()?;
    let cfg = rustls::ClientConfig::builder().with_root_certificates(roots).with_no_client_auth();
    let mut s = TcpStream::connect(to).await.ok()?;
    s.set_own_styles(0, 0);
    s.set_peer_read_style(0);
    let name = rustls::pki_types::ServerName::try_from("sim.test").ok()?;
    tokio::time::timeout(Duration::from_secs(10), tokio_rustls::TlsConnector::from(Arc::new(cfg)).connect(name, s)).await.ok()?.ok()
}

/// harness-side QUIC client: a connection with the ALPN the real client uses and one bidirectional stream
async fn quic_open(to: SocketAddr) -> Option<(quinn::Endpoint, quinn::Connection, tokio::io::Join<quinn::RecvStream, quinn::SendStream>)> {
    use tokio_rustls::rustls;
    use tokio_rustls::rustls::pki_types::pem::PemObject;
    let _ = rustls::crypto::aws_lc_rs::default_provider().install_default();
    let mut roots = rustls::RootCertStore::empty();
    roots.add(rustls::pki_types::CertificateDer::from_pem_file(CERT).ok()?).ok()?;
    let mut tls = rustls::ClientConfig::builder().with_root_certificates(roots).with_no_client_auth();
    tls.alpn_protocols = vec![b"http/1.1".to_vec()];
    let crypto = quinn::crypto::rustls::QuicClientConfig::try_from(tls).ok()?;
    let mut ep = octo_squirrel::verif::quic::client_endpoint(SocketAddr::new(IpAddr::V4(Ipv4Addr::UNSPECIFIED), 0)).ok()?;
    ep.set_default_client_config(quinn::ClientConfig::new(Arc::new(crypto)));
    let conn = tokio::time::timeout(Duration::from_secs(10), ep.connect(to, "sim.test").ok()?).await.ok()?.ok()?;
    let (send, recv) = conn.open_bi().await.ok()?;
    Some((ep, conn, tokio::io::join(recv, send)))
}

async fn shoot_stream<S: tokio::io::AsyncRead + tokio::io::AsyncWrite + Unpin>(s: &mut S, wire: &[u8], pieces: usize, hold_ms: u64) {
    let n = pieces.max(1);
    let step = (wire.len() + n - 1) / n;
    for chunk in wire.chunks(step.max(1)) {
        if s.write_all(chunk).await.is_err() || s.flush().await.is_err() {
            return;
        }
        if n > 1 {
            tokio::time::sleep(Duration::from_millis(20)).await;
        }
    }
    if hold_ms > 0 {
        tokio::time::sleep(Duration::from_millis(hold_ms)).await;
    }
    let mut buf = [0u8; 512];
    let _ = tokio::time::timeout(Duration::from_millis(1), s.read(&mut buf)).await;
}

/// `wire` to the server of this plan over its carrier (ws: inside binary messages), on a fresh connection
async fn shoot_over(t: Transport, wire: &[u8], pieces: usize, hold_ms: u64) {
    match t {
        Transport::Ws => shoot_ws(server_addr(), wire, pieces, hold_ms).await,
        Transport::Tls => {
            if let Some(mut s) = tls_open(server_addr()).await {
                shoot_stream(&mut s, wire, pieces, hold_ms).await;
            }
        }
        Transport::Quic => {
            if let Some((ep, conn, mut s)) = quic_open(server_addr()).await {
                shoot_stream(&mut s, wire, pieces, hold_ms).await;
                conn.close(0u32.into(), b"done");
                drop(ep);
            }
        }
        _ => shoot(server_addr(), wire, pieces, hold_ms).await,
    }
}

async fn control_stream<S: tokio::io::AsyncRead + tokio::io::AsyncWrite + Unpin>(s: &mut S, cl: &mut RefClient, wire: &[u8]) -> Result<(), String> {
    s.write_all(wire).await.map_err(|e| format!("write: {e}"))?;
    let _ = s.flush().await;
    let mut buf = vec![0u8; 4096];
    for _ in 0..20 {
        match tokio::time::timeout(Duration::from_millis(200), s.read(&mut buf)).await {
            Ok(Ok(0)) | Ok(Err(_)) => break,
            Ok(Ok(n)) => cl.feed(&buf[..n])?,
            Err(_) => {}
        }
        if cl.payload.len() >= 17 {
            break;
        }
    }
    Ok(())
}

/// the legitimate user's flow over the plan's carrier
async fn control_over(t: Transport, c: &Creds, g: &mut Gen, log: &Arc<Mutex<TLog>>, tag: &[u8]) -> Result<(), String> {
    match t {
        Transport::Tls | Transport::Quic => {
            let addr = Addr::V4(T_IP, T_PORT);
            let (mut cl, wire) = RefClient::start(c, g, unix_now(), &addr, tag, &ClientOpts::default());
            if t == Transport::Tls {
                let mut s = tls_open(server_addr()).await.ok_or("tls handshake of the control flow failed".to_owned())?;
                control_stream(&mut s, &mut cl, &wire).await?;
            } else {
                let (ep, conn, mut s) = quic_open(server_addr()).await.ok_or("quic handshake of the control flow failed".to_owned())?;
                control_stream(&mut s, &mut cl, &wire).await?;
                conn.close(0u32.into(), b"done");
                drop(ep);
            }
            let seen = log.lock().unwrap().tcp.iter().any(|c| c.windows(tag.len()).any(|w| w == tag));
            if !seen {
                return Err("the control request did not reach the target".into());
            }
            if cl.payload != b"target-says-hello" {
                return Err(format!("the control answer did not come back ({} bytes)", cl.payload.len()));
            }
            Ok(())
        }
        _ => control_tcp_via(t == Transport::Ws, c, g, log, tag).await,
    }
}

/// to the server of this plan: raw bytes on the port, or (WebSocket cells, every other call) inside WebSocket messages;
/// TLS and QUIC cells: inside the carrier, so that the bytes reach the protocol decoder behind it
async fn shoot_server(carrier: Transport, nth: u64, wire: &[u8], pieces: usize, hold_ms: u64) {
    match carrier {
        Transport::Ws if nth % 2 == 0 => shoot_ws(server_addr(), wire, pieces, hold_ms).await,
        Transport::Tls | Transport::Quic => shoot_over(carrier, wire, pieces, hold_ms).await,
        _ => shoot(server_addr(), wire, pieces, hold_ms).await,
    }
}

/// A correct flow from the reference client: true if the target saw `tag` and the strict reference accepted the answer.
async fn control_tcp(c: &Creds, g: &mut Gen, log: &Arc<Mutex<TLog>>, tag: &[u8]) -> Result<(), String> {
    control_tcp_via(false, c, g, log, tag).await
}

async fn control_tcp_via(ws: bool, c: &Creds, g: &mut Gen, log: &Arc<Mutex<TLog>>, tag: &[u8]) -> Result<(), String> {
    let addr = Addr::V4(T_IP, T_PORT);
    let (mut cl, wire) = RefClient::start(c, g, unix_now(), &addr, tag, &ClientOpts::default());
    let mut s = if ws {
        ws_open(server_addr()).await.ok_or("websocket upgrade of the control flow failed".to_owned())?
    } else {
        TcpStream::connect(server_addr()).await.map_err(|e| format!("connect: {e}"))?
    };
    s.set_own_styles(0, 0);
    let wire = if ws { crate::proxy::ws_frame(&wire, 2, true, 77) } else { wire };
    s.write_all(&wire).await.map_err(|e| format!("write: {e}"))?;
    let mut buf = vec![0u8; 4096];
    let mut inb: Vec<u8> = Vec::new();
    for _ in 0..20 {
        match tokio::time::timeout(Duration::from_millis(200), s.read(&mut buf)).await {
            Ok(Ok(0)) | Ok(Err(_)) => break,
            Ok(Ok(n)) if ws => {
                inb.extend_from_slice(&buf[..n]);
                while let Some((used, opcode, _, payload)) = crate::proxy::ws_parse(&inb) {
                    inb.drain(..used);
                    if opcode <= 2 {
                        cl.feed(&payload)?;
                    }
                }
            }
            Ok(Ok(n)) => cl.feed(&buf[..n])?,
            Err(_) => {}
        }
        if cl.payload.len() >= 17 {
            break;
        }
    }
    let seen = log.lock().unwrap().tcp.iter().any(|c| c.windows(tag.len()).any(|w| w == tag));
    if !seen {
        return Err("the control request did not reach the target".into());
    }
    if cl.payload != b"target-says-hello" {
        return Err(format!("the control answer did not come back ({} bytes)", cl.payload.len()));
    }
    Ok(())
}

fn wrong_creds(c: &Creds, g: &mut Gen, how: u64) -> (Creds, &'static str) {
    let mut w = c.clone();
    match c.proto {
        Proto::Shadowsocks if is_2022(&c.cipher) => {
            let n = key_len(&c.cipher);
            let users = !c.user_keys.is_empty() && supports_eih(&c.cipher);
            match (how % 6, users) {
                (0, _) => {
                    let k = g.bytes(n);
                    w.client_keys = if users { vec![c.psk.clone(), k] } else { vec![k] };
                    (w, if users { "unregistered-user-key" } else { "random-key" })
                }
                (1, _) => {
                    let last = w.client_keys.len() - 1;
                    let bit = g.below(n as u64 * 8) as usize;
                    w.client_keys[last][bit / 8] ^= 1 << (bit % 8);
                    (w, "one-bit-wrong-key")
                }
                (2, true) => {
                    // registered user key behind a wrong server key
                    w.client_keys[0] = g.bytes(n);
                    (w, "wrong-server-key-registered-user")
                }
                (3, true) => {
                    // no identity header at all: the server key used as the only key
                    w.client_keys = vec![c.psk.clone()];
                    (w, "no-identity-header-server-key")
                }
                (4, true) => {
                    w.client_keys = vec![c.user_keys[0].clone()];
                    (w, "no-identity-header-user-key")
                }
                _ => {
                    let k = g.bytes(n);
                    w.client_keys = vec![k];
                    (w, "random-key")
                }
            }
        }
        Proto::Shadowsocks | Proto::Trojan => {
            if how % 2 == 0 {
                w.password = g.bytes(12);
                (w, "random-password")
            } else {
                let i = g.below(w.password.len() as u64) as usize;
                w.password[i] ^= 1 << g.below(7);
                (w, "one-bit-wrong-password")
            }
        }
        Proto::Vmess => {
            if how % 2 == 0 {
                let mut k = [0u8; 16];
                g.fill(&mut k);
                w.client_cmd_key = k;
                (w, "unregistered-user-id")
            } else {
                w.client_cmd_key[g.below(16) as usize] ^= 1 << g.below(8);
                (w, "one-bit-wrong-user-id")
            }
        }
    }
}

fn other_protocol_handshake(c: &Creds, g: &mut Gen) -> Vec<u8> {
    let addr = Addr::V4(T_IP, T_PORT);
    match c.proto {
        Proto::Trojan => {
            let mut k = [0u8; 16];
            g.fill(&mut k);
            let o = Creds { proto: Proto::Vmess, cipher: "aes-128-gcm".into(), client_cmd_key: k, ..c.clone() };
            RefClient::start(&o, g, unix_now(), &addr, b"cross-protocol", &ClientOpts::default()).1
        }
        _ => refimpl::trojan::request(&c.password, 1, &addr, b"cross-protocol"),
    }
}

pub fn adv_cells() -> Vec<(Proto, &'static str, usize)> {
    let mut v = Vec::new();
    for (p, c) in all_proto_ciphers() {
        v.push((p, c, 0));
        if p == Proto::Shadowsocks && supports_eih(c) {
            v.push((p, c, 2));
        }
        if p == Proto::Vmess {
            v.push((p, c, 3));
        }
    }
    v
}

pub fn gen_adv(prop: &str, seed: u64, thorough: bool) -> Plan {
    let mut g = Gen::new(seed, if prop == "C06" { 6 } else { 7 });
    let cells = adv_cells();
    let (proto, cipher, n_users) = cells[seed as usize % cells.len()];
    // C07: every third round runs the cell over the WebSocket carrier (raw bytes hit the upgrade parser, wrapped ones the
    // WebSocketFramed adapter in front of the same decoders)
    // C06: the carrier cycles over tcp / ws / tls / quic - the credential check sits behind every one of them
    let transport = if prop == "C07" {
        // three plain rounds (the exhaustive short strings need 16 of them per cell), then ws, tls, quic
        [Transport::Tcp, Transport::Tcp, Transport::Ws, Transport::Tcp, Transport::Tls, Transport::Quic][(seed / cells.len() as u64 % 6) as usize]
    } else {
        [Transport::Tcp, Transport::Ws, Transport::Tls, Transport::Quic][(seed / cells.len() as u64 % 4) as usize]
    };
    let mut config = gen_config(&mut g, proto, cipher, transport, n_users);
    // user names are free-form labels: now and then two registered users (different keys) carry the same one
    if prop == "C06" && config.users.len() >= 2 && (seed / cells.len() as u64) % 3 == 1 {
        let n0 = config.users[0].0.clone();
        config.users[1].0 = n0;
    }
    // a user table none of whose keys fits the cipher (keys left over from the other key size): the server may refuse to start;
    // if it serves, it still is a multi-user server - a peer that holds the server key alone is nobody
    let unusable_users = prop == "C06" && proto == Proto::Shadowsocks && config.users.len() >= 2 && (seed / cells.len() as u64) % 5 == 2;
    if unusable_users {
        let other = if key_len(cipher) == 16 { 32 } else { 16 };
        for u in config.users.iter_mut() {
            u.1 = b64(&g.bytes(other));
        }
    }
    if proto == Proto::Shadowsocks && transport == Transport::Quic {
        // (the QUIC endpoint of a Shadowsocks server takes the place of its datagram service)
        config.client_mode = "tcp".into();
    } else if proto == Proto::Shadowsocks {
        config.server_mode = "tcp_and_udp".into();
        config.client_mode = "tcp_and_udp".into();
    } else {
        config.client_mode = "tcp_and_udp".into();
    }
    Plan {
        property: prop.into(),
        scenario: if prop == "C06" { "unauthenticated".into() } else { "crash-inputs".into() },
        seed,
        net_seed: g.next(),
        config,
        knobs: KnobsPlan::simple(),
        flows: vec![],
        extra: serde_json::json!({ "sub_seed": g.next(), "round": seed / cells.len() as u64, "attacks": if thorough { 400 } else { 80 }, "unusable_users": unusable_users }),
    }
}

// ---------------------------------------------------------------- C06

pub fn execute_c06(plan: &Plan) -> Outcome {
    let c = creds(&plan.config);
    let carrier = plan.config.transport;
    let cell = format!("{}{}{}", plan.config.family(), if c.user_keys.is_empty() { "" } else { "+users" }, match carrier { Transport::Ws => "/ws", Transport::Tls => "/tls", Transport::Quic => "/quic", _ => "" });
    let mut g = Gen::new(plan.extra["sub_seed"].as_u64().unwrap_or(1), 61);
    let attacks = plan.extra["attacks"].as_u64().unwrap_or(40);
    let out = rt::run_sim(plan.seed, plan.net_seed, plan.knobs.to_knobs(), || async {
        let mut findings: Vec<(String, String)> = Vec::new();
        let mut n_attacks = BTreeMap::<String, u64>::new();
        let log = Arc::new(Mutex::new(TLog::default()));
        let _t = spawn_scoped(target(log.clone()));
        tokio::task::yield_now().await;
        if is_2022(&plan.config.cipher) {
            world::with(|w| w.first_atomic_ports.push(SERVER_PORT));
        }
        let server = start_server_json(plan.config.server_json());
        tokio::task::yield_now().await;
        let unusable_users = plan.extra["unusable_users"].as_bool().unwrap_or(false);
        if !settle(|| if carrier == Transport::Quic { udp_bound(SERVER_PORT) } else { tcp_listening(SERVER_PORT) }).await {
            if unusable_users {
                // refusing to start with a user table that cannot be used is the documented behaviour (C16): nothing is relayed
                *n_attacks.entry("unusable-user-table-refused-at-startup".into()).or_insert(0) += 1;
                return (None, findings, n_attacks);
            }
            return (Some(format!("server did not come up (finished={})", server.is_finished())), findings, n_attacks);
        }
        let addr = Addr::V4(T_IP, T_PORT);
        let dials = || world::with(|w| w.connects.iter().filter(|c| c.node == rt::NODE_SERVER).count());
        let udp_to_target = || world::with(|w| w.udp_sends.iter().filter(|s| s.node == rt::NODE_SERVER && s.to == target_sock()).count());
        if unusable_users {
            // the server serves although none of its users can ever authenticate: the holder of the server key alone (no identity
            // header, or a made-up one) must still not be relayed, as a stream or as a datagram
            let mut w = c.clone();
            w.user_keys.clear();
            w.client_keys = vec![c.psk.clone()];
            for i in 0..6u64 {
                let before = (dials(), udp_to_target());
                if i % 2 == 0 {
                    let wire = RefClient::start(&w, &mut g, unix_now(), &addr, b"server-key-alone", &ClientOpts::default()).1;
                    shoot_over(carrier, &wire, 1, 50).await;
                } else if carrier != Transport::Quic {
                    let sock = UdpSocket::bind(SocketAddr::new(IpAddr::V4(Ipv4Addr::LOCALHOST), 0)).await.unwrap();
                    let _ = sock.send_to(&forge_datagram(&w, &mut g, &addr, b"server-key-alone-dgram", None), server_addr()).await;
                }
                tokio::time::sleep(Duration::from_millis(50)).await;
                *n_attacks.entry("server-key-alone-against-unusable-user-table".into()).or_insert(0) += 1;
                if (dials(), udp_to_target()) != before {
                    findings.push(("relayed-without-credential/server-key-alone-against-unusable-user-table".into(), format!("the user table holds {} users none of whose keys fits the cipher; a peer that proves the server key alone was relayed ({})", plan.config.users.len(), if i % 2 == 0 { "stream" } else { "datagram" })));
                    break;
                }
            }
            return (None, findings, n_attacks);
        }
        for i in 0..attacks {
            let kind = i % 6;
            let (name, wire): (String, Vec<u8>) = match kind {
                0 => {
                    let n = g.range(0, 600) as usize;
                    ("random-bytes".into(), g.bytes(n))
                }
                1 | 2 => {
                    let how_n = g.next();
                    let (w, how) = wrong_creds(&c, &mut g, how_n);
                    (how.to_owned(), RefClient::start(&w, &mut g, unix_now(), &addr, b"attack-payload-1", &ClientOpts::default()).1)
                }
                3 if i % 12 == 9 && !c.user_keys.is_empty() && supports_eih(&c.cipher) => {
                    // multi-user server: the peer holds the server key only. Whatever sits in the identity-header slot (random
                    // bytes, or the hash of the server key itself), the body is sealed under the server key.
                    let salt = g.bytes(key_len(&c.cipher));
                    let eih = if g.chance(50) {
                        g.bytes(16)
                    } else {
                        refimpl::ss2022::tcp_eih(&[c.psk.clone(), c.psk.clone()], &salt)
                    };
                    ("server-key-alone-with-bogus-identity".into(), refimpl::ss2022::request_with_identity_bytes(&c.cipher, &eih, &c.psk, &salt, &addr, b"attack-payload-4", unix_now()))
                }
                3 if i % 12 == 3 => {
                    // a valid handshake with its credential proof shortened: the first k bytes of the Trojan hash line
                    // (k = 0 is an empty line), a shorter salt, a shorter auth id - the rest of the request intact
                    let full = RefClient::start(&c, &mut g, unix_now(), &addr, b"attack-payload-3", &ClientOpts::default()).1;
                    let proof = match c.proto {
                        Proto::Trojan => 56,
                        Proto::Vmess => 16,
                        Proto::Shadowsocks => key_len(&c.cipher),
                    };
                    let keep = g.below(proof as u64) as usize;
                    let mut w = full[..keep].to_vec();
                    w.extend_from_slice(&full[proof.min(full.len())..]);
                    ("shortened-credential-proof".into(), w)
                }
                3 => ("other-protocol".into(), other_protocol_handshake(&c, &mut g)),
                4 => {
                    // a valid handshake cut short at a drawn point, then silence
                    let full = RefClient::start(&c, &mut g, unix_now(), &addr, b"never-complete", &ClientOpts::default()).1;
                    // cut inside the part that precedes the payload's last authenticated unit
                    let cut = g.range(0, full.len() as u64 - 1) as usize;
                    ("truncated-valid-handshake".into(), full[..cut].to_vec())
                }
                _ => {
                    // valid-looking prefix with a corrupted tail
                    let mut full = RefClient::start(&c, &mut g, unix_now(), &addr, b"attack-payload-2", &ClientOpts::default()).1;
                    // the flip lands in the part that proves the credential (password hash / auth-id / salt + first sealed unit):
                    // a flip further back is tampering with an authenticated stream, which is C05's subject
                    let proof = match c.proto {
                        Proto::Trojan => 56,
                        Proto::Vmess => 16,
                        Proto::Shadowsocks => key_len(&c.cipher) + 18,
                    };
                    let at = g.below(proof.min(full.len()) as u64) as usize;
                    // (Trojan's proof is hex text: bit 5 only changes the case of a letter, which is the same value)
                    full[at] ^= 1 << g.below(if c.proto == Proto::Trojan { 4 } else { 8 });
                    ("one-bit-flipped-credential-proof".into(), full)
                }
            };
            *n_attacks.entry(name.clone()).or_insert(0) += 1;
            let before = (dials(), udp_to_target(), log.lock().unwrap().tcp.len());
            // (a Shadowsocks 2022 server may refuse a first flight that does not arrive in one read, whatever it carries: an attack
            // that is always cut into pieces would be refused for that reason alone - two thirds of them arrive whole)
            let pieces = if is_2022(&plan.config.cipher) && g.chance(67) { 1 } else { 1 + (i % 3) as usize };
            shoot_over(carrier, &wire, pieces, 50).await;
            tokio::time::sleep(Duration::from_millis(50)).await;
            let after = (dials(), udp_to_target(), log.lock().unwrap().tcp.len());
            // a truncated valid handshake may legitimately have delivered complete units before the cut (it *is* authenticated);
            // what must not happen is a dial for any of the others
            if after != before && name != "truncated-valid-handshake" {
                findings.push((format!("relayed-without-credential/{name}"), format!("attack {i} ({name}, {} bytes): the server dialled / sent toward the target (dials {} -> {}, target connections {} -> {})", wire.len(), before.0, after.0, before.2, after.2)));
            }
            if kind == 4 && after != before {
                // truncation: fine only if what arrived at the target is a prefix of the attacker's own (authenticated) payload
                let ok = log.lock().unwrap().tcp.last().is_some_and(|d| b"never-complete".starts_with(d));
                if !ok {
                    findings.push(("relayed-garbage/truncated-valid-handshake".into(), format!("attack {i}: a truncated handshake made the server relay bytes that were never sent")));
                }
            }
            if plan.config.proto == Proto::Shadowsocks && i % 2 == 0 && carrier != Transport::Quic {
                // the same idea as datagrams
                let sock = UdpSocket::bind(SocketAddr::new(IpAddr::V4(Ipv4Addr::LOCALHOST), 0)).await.unwrap();
                let how_n = g.next();
                let (w, how) = wrong_creds(&c, &mut g, how_n);
                let cut = if i % 4 == 0 { Some(g.range(0, 40) as usize) } else { None };
                let dg = forge_datagram(&w, &mut g, &addr, b"udp-attack", cut);
                *n_attacks.entry(format!("udp-{how}")).or_insert(0) += 1;
                let before = udp_to_target();
                let _ = sock.send_to(&dg, server_addr()).await;
                tokio::time::sleep(Duration::from_millis(30)).await;
                if udp_to_target() != before {
                    findings.push((format!("datagram-relayed-without-credential/{how}"), format!("attack {i}: a datagram under {how} was forwarded to the target")));
                }
            }
        }
        // the service still works for the legitimate user, and answers under that user's key only
        if let Err(e) = control_over(carrier, &c, &mut g, &log, b"legitimate-user-tag").await {
            findings.push(("control-failed".into(), e));
        }
        // user separation
        if c.user_keys.len() >= 2 && plan.config.proto == Proto::Shadowsocks && carrier != Transport::Quic {
            user_separation_udp(&c, &mut g, &mut findings).await;
        }
        (None, findings, n_attacks)
    });
    let (startup, findings, n_attacks) = out.result.clone();
    let mut v = Vec::new();
    if let Some(e) = startup {
        v.push(Violation::new("C06", format!("C06/startup/{cell}"), e));
    }
    for (oracle, detail) in &findings {
        if !v.iter().any(|x: &Violation| x.signature == format!("C06/{oracle}/{cell}")) {
            v.push(Violation::new("C06", format!("C06/{oracle}/{cell}"), detail.clone()));
        }
    }
    for p in &out.panics {
        v.push(Violation::new("C06", format!("C06/panic/{cell}/{}", p.frame), format!("panic in node {}: {} at {}", p.node, p.message, p.location)));
    }
    let total: u64 = n_attacks.values().sum();
    let mut probes: BTreeMap<String, u64> = n_attacks.iter().map(|(k, v)| (format!("attack_{k}"), *v)).collect();
    probes.insert("attacks".to_owned(), total);
    Outcome {
        violations: v,
        ev_hash: out.world.ev_hash,
        ev_count: out.world.ev_count,
        poll_hash: out.poll_hash,
        polls: out.polls,
        sim_ns: out.sim_ns,
        stats: crate::report::world_stats(&out.world),
        nontrivial: total > 0,
        case_hash: out.poll_hash ^ plan.seed.wrapping_mul(0x9E3779B97F4A7C15),
        probes,
        panics: out.panics,
        extra_evaluations: total,
        extra_cases: (0..total).map(|i| plan.seed.wrapping_mul(1_000_003).wrapping_add(i)).collect(),
    }
}

/// A Shadowsocks datagram built with `w`'s keys; `truncate`: keep only that many bytes.
fn forge_datagram(w: &Creds, g: &mut Gen, addr: &Addr, payload: &[u8], truncate: Option<usize>) -> Vec<u8> {
    let mut d = if !is_2022(&w.cipher) {
        refimpl::ss::udp_packet(&w.cipher, &w.password, &g.bytes(key_len(&w.cipher)), addr, payload)
    } else {
        let body = refimpl::ss2022::UdpBody { session_id: g.next(), packet_id: 1, stream_type: 0, timestamp: unix_now(), client_session_id: None, padding: 0, addr: addr.clone(), payload: payload.to_vec() };
        if refimpl::ss2022::is_aes(&w.cipher) {
            refimpl::ss2022::udp_packet_aes(&w.cipher, &w.client_keys, &body)
        } else {
            let mut n = [0u8; 24];
            g.fill(&mut n);
            refimpl::ss2022::udp_packet_chacha(&w.cipher, w.client_keys.last().unwrap(), &n, &body)
        }
    };
    if let Some(t) = truncate {
        d.truncate(t);
    }
    d
}

/// Two registered users on one server, over datagrams: B presents A's session id. Every reply that reaches A's socket
/// must open under A's key, every reply at B's socket under B's key.
async fn user_separation_udp(c: &Creds, g: &mut Gen, findings: &mut Vec<(String, String)>) {
    let addr = Addr::V4(T_IP, T_PORT);
    let (ka, kb) = (c.user_keys[0].clone(), c.user_keys[1].clone());
    let a = UdpSocket::bind(SocketAddr::new(IpAddr::V4(Ipv4Addr::LOCALHOST), 0)).await.unwrap();
    let b = UdpSocket::bind(SocketAddr::new(IpAddr::V4(Ipv4Addr::LOCALHOST), 0)).await.unwrap();
    let sid_a: u64 = g.next();
    let mk = |key: &Vec<u8>, sid: u64, pid: u64, payload: &[u8]| {
        let body = refimpl::ss2022::UdpBody { session_id: sid, packet_id: pid, stream_type: 0, timestamp: unix_now(), client_session_id: None, padding: 0, addr: addr.clone(), payload: payload.to_vec() };
        refimpl::ss2022::udp_packet_aes(&c.cipher, &[c.psk.clone(), key.clone()], &body)
    };
    let opens = |key: &Vec<u8>, pkt: &[u8]| refimpl::ss2022::udp_open_aes(&c.cipher, key, &[key.clone()], 0, pkt, true).is_ok();
    let _ = a.send_to(&mk(&ka, sid_a, 1, b"from-user-a-1"), server_addr()).await;
    tokio::time::sleep(Duration::from_millis(50)).await;
    // B reuses A's session id
    let _ = b.send_to(&mk(&kb, sid_a, 2, b"from-user-b-with-a-session"), server_addr()).await;
    tokio::time::sleep(Duration::from_millis(50)).await;
    let _ = a.send_to(&mk(&ka, sid_a, 3, b"from-user-a-2"), server_addr()).await;
    tokio::time::sleep(Duration::from_millis(100)).await;
    // B's datagram may be refused or relayed through an association of its own, but it must not travel on A's: not leave
    // through the socket that carries A's datagrams (whatever the two users are called in the configuration)
    {
        let rides = world::with(|w| {
            let to_target: Vec<_> = w.udp_sends.iter().filter(|s| s.node == rt::NODE_SERVER && s.to == target_sock()).collect();
            let from_a: Vec<SocketAddr> = to_target.iter().filter(|s| s.len == b"from-user-a-1".len()).map(|s| s.from).collect();
            to_target.iter().any(|s| s.len == b"from-user-b-with-a-session".len() && from_a.contains(&s.from))
        });
        if rides {
            findings.push((
                "datagram-rides-on-another-users-association".into(),
                format!("user B's datagram, sealed with B's key but carrying user A's session id {sid_a:#x}, left the server through the socket of user A's association"),
            ));
            return;
        }
    }
    // B presents session ids *related* to A's - A's id combined with what B can read off the wire or knows (the identity
    // hashes of both users, halves and byte orders of them): a server that folds the user into its session key, or compares
    // only part of it, may put B's datagram into A's association. B's datagrams may be relayed (B is a registered user),
    // but through an association of their own, and nothing of them may come back to A.
    {
        let (ha, hb) = (refimpl::ss2022::psk_hash(&ka), refimpl::ss2022::psk_hash(&kb));
        let words = |h: &[u8; 16]| [u64::from_be_bytes(h[..8].try_into().unwrap()), u64::from_be_bytes(h[8..].try_into().unwrap()), u64::from_le_bytes(h[..8].try_into().unwrap()), u64::from_le_bytes(h[8..].try_into().unwrap())];
        let mut related: Vec<u64> = vec![sid_a.swap_bytes(), !sid_a, sid_a.rotate_left(32), sid_a.wrapping_add(1), sid_a ^ 1, sid_a & 0xffff_ffff, sid_a >> 32];
        for (x, y) in words(&ha).into_iter().zip(words(&hb)) {
            related.extend([sid_a ^ x, sid_a ^ y, sid_a ^ x ^ y, sid_a.wrapping_add(x), sid_a.wrapping_add(y), sid_a.wrapping_sub(x), sid_a.wrapping_sub(y), sid_a.wrapping_add(x).wrapping_sub(y), sid_a.wrapping_sub(x).wrapping_add(y)]);
        }
        related.retain(|r| *r != sid_a);
        let marker = |k: usize| 100 + k;
        for (k, r) in related.iter().enumerate() {
            let mut payload = b"from-b-related-session-id".to_vec();
            payload.resize(marker(k), b'.');
            let _ = b.send_to(&mk(&kb, *r, 4 + k as u64, &payload), server_addr()).await;
            tokio::time::sleep(Duration::from_millis(10)).await;
        }
        tokio::time::sleep(Duration::from_millis(100)).await;
        let (from_a, shared): (Vec<SocketAddr>, Vec<usize>) = world::with(|w| {
            let to_target: Vec<_> = w.udp_sends.iter().filter(|s| s.node == rt::NODE_SERVER && s.to == target_sock()).collect();
            let from_a: Vec<SocketAddr> = to_target.iter().filter(|s| s.len == 13).map(|s| s.from).collect();
            let shared = (0..related.len()).filter(|k| to_target.iter().any(|s| s.len == marker(*k) && from_a.contains(&s.from))).collect();
            (from_a, shared)
        });
        if let Some(k) = shared.first() {
            findings.push((
                "datagram-rides-on-another-users-association".into(),
                format!("user B's datagram with session id {:#x} (user A's session is {sid_a:#x}; related id number {k}) left the server through the socket of user A's association {from_a:?}", related[*k]),
            ));
            return;
        }
    }
    // B claims to be A: on a session id B has just used under its own identity (so that whatever the server remembers
    // about that session was made with B's key), and on a fresh one, B sends a datagram whose identity header names A
    // while the body is sealed with B's key. Nothing of it may reach the target.
    let target_got = || world::with(|w| w.udp_sends.iter().filter(|s| s.node == rt::NODE_SERVER && s.to == target_sock()).count());
    for (round, reuse) in [(0u64, true), (1, false), (2, true)] {
        let sid_b: u64 = g.next();
        if reuse {
            let ts = if round == 2 { unix_now() - 3600 } else { unix_now() };
            let body = refimpl::ss2022::UdpBody { session_id: sid_b, packet_id: 1, stream_type: 0, timestamp: ts, client_session_id: None, padding: 0, addr: addr.clone(), payload: b"from-user-b-own-session".to_vec() };
            let _ = b.send_to(&refimpl::ss2022::udp_packet_aes(&c.cipher, &[c.psk.clone(), kb.clone()], &body), server_addr()).await;
            tokio::time::sleep(Duration::from_millis(30)).await;
        }
        let before = target_got();
        let body = refimpl::ss2022::UdpBody { session_id: sid_b, packet_id: 2, stream_type: 0, timestamp: unix_now(), client_session_id: None, padding: 0, addr: addr.clone(), payload: b"sealed-by-b-claiming-to-be-a".to_vec() };
        let forged = refimpl::ss2022::udp_packet_aes_mismatched(&c.cipher, &[c.psk.clone(), ka.clone()], &kb, &body);
        let _ = b.send_to(&forged, server_addr()).await;
        tokio::time::sleep(Duration::from_millis(50)).await;
        if target_got() != before {
            findings.push((
                "attributed-to-another-user".into(),
                format!("a datagram whose identity header names user A but whose body is sealed with user B's key was relayed to the target (session id {} by B: {reuse}, round {round})", if reuse { "used before" } else { "not used before" }),
            ));
            return;
        }
    }
    let mut buf = vec![0u8; 65536];
    for (sock, mine, other, who) in [(&a, &ka, &kb, "A"), (&b, &kb, &ka, "B")] {
        while let Ok(Ok((n, _))) = tokio::time::timeout(Duration::from_millis(5), sock.recv_from(&mut buf)).await {
            let pkt = &buf[..n];
            if let Ok((body, _, _, _)) = refimpl::ss2022::udp_open_aes(&c.cipher, mine, &[mine.clone()], 0, pkt, true) {
                if who == "A" && body.payload.starts_with(b"reply:from-b-related") {
                    findings.push(("reply-delivered-to-another-user".into(), "the answer to a datagram of user B (sent under B's key, with a session id related to user A's) was sealed under user A's key and delivered to user A".into()));
                    return;
                }
            }
            if !opens(mine, pkt) {
                let under_other = opens(other, pkt);
                findings.push((
                    "reply-under-another-users-key".into(),
                    format!("a reply delivered to user {who}'s address does not open under {who}'s key (opens under the other user's key: {under_other}) after the other user presented {who}'s session id"),
                ));
                return;
            }
        }
    }
}

// ---------------------------------------------------------------- C07

fn malformed_authenticated(c: &Creds, g: &mut Gen, which: u64) -> (String, Vec<u8>) {
    let now = unix_now();
    let addr = Addr::V4(T_IP, T_PORT);
    match c.proto {
        Proto::Shadowsocks if is_2022(&c.cipher) => {
            let salt = g.bytes(key_len(&c.cipher));
            if which % 5 == 4 {
                // a correct request whose authenticated timestamp is an extreme of the 64-bit field
                let ts = *g.pick(&[0u64, 1, 1 << 31, 1 << 32, 1 << 62, i64::MAX as u64, 1 << 63, (1 << 63) + 1, u64::MAX - 1, u64::MAX]);
                let var = [addr.socks(), vec![0, 0], b"payload-under-an-extreme-timestamp".to_vec()].concat();
                return ("2022-extreme-timestamp".to_owned(), refimpl::ss2022::request_raw_var(&c.cipher, &c.client_keys, &salt, &var, 0, ts, None));
            }
            let (name, var, declared): (&str, Vec<u8>, Option<u16>) = match which % 8 {
                0 => ("2022-bad-address-type", vec![9, 1, 2, 3, 4, 0, 80, 0, 0, b'x'], None),
                1 => ("2022-truncated-address", vec![1, 127, 0], None),
                2 => ("2022-padding-beyond-header", [addr.socks(), vec![0xff, 0xff, 1, 2, 3]].concat(), None),
                3 => ("2022-no-padding-length", addr.socks(), None),
                4 => ("2022-empty-variable-header", vec![], None),
                5 => ("2022-domain-length-beyond-header", vec![3, 200, b'a', b'b', 0, 80], None),
                6 => ("2022-declared-length-beyond-frame", [addr.socks(), vec![0, 0, b'p']].concat(), Some(2000)),
                _ => ("2022-non-utf8-domain", vec![3, 4, 0xff, 0xfe, 0xc0, 0x80, 0, 80, 0, 0, b'x'], None),
            };
            (name.to_owned(), refimpl::ss2022::request_raw_var(&c.cipher, &c.client_keys, &salt, &var, 0, now, declared))
        }
        Proto::Shadowsocks => {
            let aead = refimpl::ss::aead_of(&c.cipher).unwrap();
            let salt = g.bytes(aead.key_len());
            let master = refimpl::ss::evp_bytes_to_key(&c.password, aead.key_len());
            let mut enc = refimpl::ss::StreamEnc::new(aead, &master, &salt);
            let (name, first): (&str, Vec<u8>) = match which % 5 {
                0 => ("legacy-bad-address-type", vec![7, 1, 2, 3]),
                1 => ("legacy-truncated-address", vec![1, 127]),
                2 => ("legacy-domain-length-beyond-chunk", vec![3, 250, b'a']),
                3 => ("legacy-single-byte", vec![3]),
                _ => ("legacy-non-utf8-domain", vec![3, 3, 0xff, 0xc0, 0x80, 0, 80, b'x']),
            };
            let mut w = salt.clone();
            w.extend(enc.write(&first));
            (name.to_owned(), w)
        }
        Proto::Vmess => {
            let mut r = refimpl::vmess::Request { body_iv: [1; 16], body_key: [2; 16], resp_auth: 3, options: 1 | 4 | 8 | 16, security: refimpl::vmess::SEC_AES128GCM, command: 1, addr: addr.clone(), padding: 2 };
            g.fill(&mut r.body_iv);
            g.fill(&mut r.body_key);
            // well-sealed header, correct first chunk, then a chunk that is wrong inside (size field below the padding, below
            // padding + tag, zero, far beyond what follows) - under every length encoding (plain, masked, authenticated)
            if which % 7 == 6 {
                let time = *g.pick(&[i64::MIN, i64::MIN + 1, -1, 0, 1 << 40, i64::MAX - 1, i64::MAX]);
                let h = refimpl::vmess::header_bytes(&r);
                let mut rnd = [0u8; 12];
                g.fill(&mut rnd);
                let mut w = refimpl::vmess::seal_header(&c.client_cmd_key, time, rnd[..4].try_into().unwrap(), rnd[4..].try_into().unwrap(), &h);
                let mut body = refimpl::vmess::request_body(&r);
                w.extend(body.write(b"payload-under-an-extreme-auth-time", 1900));
                return ("vmess-extreme-auth-time".to_owned(), w);
            }
            let sel = if which % 3 == 2 { g.below(20) } else { 99 };
            if sel < 12 {
                let variant = sel % 6;
                r.options = *g.pick(&[1u8, 1 | 4, 1 | 4 | 8, 1 | 8, 1 | 4 | 8 | 16, 1 | 8 | 16]);
                r.security = *g.pick(&[refimpl::vmess::SEC_AES128GCM, refimpl::vmess::SEC_CHACHA20]);
                let h = refimpl::vmess::header_bytes(&r);
                let mut rnd = [0u8; 12];
                g.fill(&mut rnd);
                let mut w = refimpl::vmess::seal_header(&c.client_cmd_key, now as i64, rnd[..4].try_into().unwrap(), rnd[4..].try_into().unwrap(), &h);
                let mut body = refimpl::vmess::request_body(&r);
                w.extend(body.write(b"first-chunk-is-fine", 1900));
                let junk = g.bytes(40);
                let (name, chunk) = match variant {
                    0 => ("vmess-chunk-size-below-padding", body.encode_chunk_declared(|p| p.saturating_sub(1) as u16, &junk)),
                    1 => ("vmess-chunk-size-below-padding-plus-tag", body.encode_chunk_declared(|p| (p + 7) as u16, &junk)),
                    2 => ("vmess-chunk-size-zero", body.encode_chunk_declared(|_| 0, &junk)),
                    3 => ("vmess-chunk-size-one", body.encode_chunk_declared(|_| 1, &junk)),
                    4 => ("vmess-chunk-size-equals-padding", body.encode_chunk_declared(|p| p as u16, &junk)),
                    _ => ("vmess-chunk-size-beyond-stream", body.encode_chunk_declared(|_| 0xffff, &junk)),
                };
                w.extend(chunk);
                w.extend(body.write(b"a-chunk-after-the-malformed-one", 1900));
                return (name.to_owned(), w);
            }
            let mut h = refimpl::vmess::header_bytes(&r);
            let hv = if sel < 20 { 8 + g.below(6) } else { 0 };
            if hv >= 8 {
                // odd but well-formed option masks and security values
                let name = match hv {
                    8 => {
                        r.options = 0;
                        "vmess-option-mask-zero"
                    }
                    9 => {
                        r.options = 16;
                        "vmess-authenticated-length-without-chunk-stream"
                    }
                    10 => {
                        r.options = 0xff;
                        "vmess-option-mask-all-ones"
                    }
                    11 => {
                        r.security = *g.pick(&[0u8, 1, 2, 7, 15]);
                        "vmess-unknown-security"
                    }
                    12 => {
                        r.security = 5;
                        "vmess-security-none"
                    }
                    _ => {
                        r.security = 6;
                        "vmess-security-zero"
                    }
                };
                let h = refimpl::vmess::header_bytes(&r);
                let mut rnd = [0u8; 12];
                g.fill(&mut rnd);
                let mut w = refimpl::vmess::seal_header(&c.client_cmd_key, now as i64, rnd[..4].try_into().unwrap(), rnd[4..].try_into().unwrap(), &h);
                let mut body = refimpl::vmess::Body::new(refimpl::vmess::SEC_AES128GCM, r.options | 1, &r.body_key, &r.body_iv, &r.body_key, &r.body_iv);
                w.extend(body.write(b"payload-after-an-odd-header", 1900));
                return (name.to_owned(), w);
            }
            let name = match which % 8 {
                0 => {
                    h[40] = 9; // address type
                    "vmess-bad-address-type"
                }
                1 => {
                    h[37] = 7; // command
                    "vmess-bad-command"
                }
                2 => {
                    h.truncate(20);
                    "vmess-short-header"
                }
                3 => {
                    h.truncate(39);
                    "vmess-header-ends-in-address"
                }
                4 => {
                    h[35] = 0xf0 | (h[35] & 0x0f); // padding 15 with only 2 bytes present
                    "vmess-padding-beyond-header"
                }
                5 => {
                    let l = h.len();
                    h[l - 1] ^= 1;
                    "vmess-bad-checksum"
                }
                6 => {
                    h.clear();
                    "vmess-empty-header"
                }
                _ => {
                    // domain with a length that runs past the header
                    let mut hh = h[..38].to_vec();
                    hh.extend_from_slice(&[0, 80, 2, 200, b'a']);
                    h = hh;
                    "vmess-domain-length-beyond-header"
                }
            };
            // keep the checksum valid unless it is the point
            if name != "vmess-bad-checksum" && h.len() >= 4 {
                let l = h.len() - 4;
                let f = refimpl::vmess::fnv1a32(&h[..l]);
                h[l..].copy_from_slice(&f.to_be_bytes());
            }
            let mut rnd = [0u8; 12];
            g.fill(&mut rnd);
            let mut w = refimpl::vmess::seal_header(&c.client_cmd_key, now as i64, rnd[..4].try_into().unwrap(), rnd[4..].try_into().unwrap(), &h);
            let mut body = refimpl::vmess::request_body(&r);
            w.extend(body.write(b"payload-after-malformed-header", 1900));
            (name.to_owned(), w)
        }
        Proto::Trojan => {
            let mut w = refimpl::trojan::key_hex(&c.password);
            let name = match which % 6 {
                0 => {
                    w.extend_from_slice(b"\r\n\x01\x09abcdef\r\n");
                    "trojan-bad-address-type"
                }
                1 => {
                    w.extend_from_slice(b"\r\n\x09");
                    w.extend(addr.socks());
                    w.extend_from_slice(b"\r\nx");
                    "trojan-bad-command"
                }
                2 => {
                    w.extend_from_slice(b"\r\n\x03");
                    w.extend(addr.socks());
                    w.extend_from_slice(b"\r\n\x09\x01\x02");
                    "trojan-udp-bad-address-type"
                }
                3 => {
                    w.extend_from_slice(b"\r\n\x03");
                    w.extend(addr.socks());
                    w.extend_from_slice(b"\r\n");
                    w.extend(addr.socks());
                    w.extend_from_slice(&[0xff, 0xff, b'\r', b'\n', 1, 2, 3]);
                    "trojan-udp-length-beyond-stream"
                }
                4 => {
                    w.extend_from_slice(b"XX\x01");
                    w.extend(addr.socks());
                    w.extend_from_slice(b"\r\nx");
                    "trojan-no-crlf"
                }
                _ => {
                    w.extend_from_slice(b"\r\n\x01\x03\x05\xff\xfe\xc0\x80\x41\x00\x50\r\nx");
                    "trojan-non-utf8-domain"
                }
            };
            (name.to_owned(), w)
        }
    }
}

fn structured_garbage(c: &Creds, g: &mut Gen) -> Vec<u8> {
    match c.proto {
        Proto::Trojan => {
            // 56 bytes, CR at the right place, anything around
            let mut v = g.bytes(56);
            if g.chance(30) {
                // 56 bytes of *valid* UTF-8 with multi-byte characters at odd and even offsets (the key is handled as a str)
                let pool: [&str; 8] = ["0", "a", "F", "\u{e9}", "\u{4e2d}", "\u{1f600}", "9", "\u{df}"];
                let mut t: Vec<u8> = Vec::new();
                while t.len() < 56 {
                    let ch = *g.pick(&pool);
                    if t.len() + ch.len() <= 56 {
                        t.extend_from_slice(ch.as_bytes());
                    }
                }
                v = t;
            } else if g.chance(50) {
                for b in v.iter_mut() {
                    *b = *g.pick(b"0123456789abcdefABCDEFg\x80\xc3\xa9\xff ");
                }
            }
            v.extend_from_slice(b"\r\n");
            if g.chance(60) {
                // a well-formed rest (command, address, CRLF): the key field is then actually looked at
                v.extend_from_slice(&[*g.pick(&[1u8, 3, 1, 9]), 1, 127, 0, 7, 1, 0x27, 0x75, b'\r', b'\n', b'x']);
            } else {
                let n = g.range(0, 40) as usize;
                v.extend(g.bytes(n));
            }
            v
        }
        Proto::Vmess => {
            let n = g.range(0, 120) as usize;
            g.bytes(n)
        }
        _ => {
            let n = *g.pick(&[0usize, 1, 15, 16, 17, 31, 32, 33, 42, 43, 44, 58, 59, 60, 100, 300]);
            g.bytes(n)
        }
    }
}

/// An HTTP/1.x request assembled from grammar pieces: the shapes a proxy's request parser has to take apart
/// (origin / absolute / authority / asterisk form; schemes, user-info, bracketed literals, ports, paths and queries that
/// contain ':', '/', '?', '#', '@' and "://" in every order), mostly well-formed up to the blank line.
fn http_grammar(g: &mut Gen) -> Vec<u8> {
    let method = *g.pick(&["GET", "POST", "CONNECT", "HEAD", "OPTIONS", "PUT", "get", "G"]);
    let host = *g.pick(&["example.com", "a", "127.0.0.1", "[::1]", "[::1", "::1]", "", "a.b.c.", "\u{e9}.test", "a b", "%41", "xn--a"]);
    let port = *g.pick(&["", ":80", ":", ":0", ":65535", ":65536", ":99999999999", ":8o", ":-1", ":80:81"]);
    let piece = |g: &mut Gen| *g.pick(&["/", "?", "#", ":", "@", "://", "http://", "https://", "a", "b=c", "&", "%", "%zz", ".", "..", "//", " ", "\t", "next=http://x/y", "[", "]"]);
    let tail: String = (0..g.below(6)).map(|_| piece(g)).collect();
    let target = match g.below(7) {
        0 => format!("http://{host}{port}{tail}"),
        1 => format!("{host}{port}"),
        2 => format!("/{tail}"),
        3 => "*".to_owned(),
        4 => format!("https://{host}{port}/{tail}"),
        5 => format!("{tail}"),
        _ => format!("http://user:pw@{host}{port}/{tail}"),
    };
    let version = *g.pick(&["HTTP/1.1", "HTTP/1.1", "HTTP/1.0", "HTTP/2", "HTTP/1.", "http/1.1", ""]);
    let mut req = format!("{method} {target} {version}\r\n");
    for _ in 0..g.below(4) {
        req.push_str(*g.pick(&["Host: example.com\r\n", "Host: [::1]:8080\r\n", "Host:\r\n", "Proxy-Connection: keep-alive\r\n", "X: \u{e9}\r\n", ": empty-name\r\n", "Content-Length: 5\r\n"]));
    }
    if g.chance(85) {
        req.push_str("\r\n");
    }
    if g.chance(30) {
        req.push_str("hello");
    }
    req.into_bytes()
}

/// WebSocket upgrade requests: the correct one with its parts varied or missing
fn upgrade_grammar(g: &mut Gen) -> Vec<u8> {
    let target = *g.pick(&["/ws", "/", "/other", "?ws", "*", "ws", "http://sim.test/ws", "/ws?a=b#c", "//", "/w s", "", "/\u{e9}"]);
    let mut req = format!("{} {target} {}\r\n", g.pick(&["GET", "GET", "POST", "get"]), g.pick(&["HTTP/1.1", "HTTP/1.1", "HTTP/1.0", "HTTP/2"]));
    let headers: [&str; 9] = [
        "Host: sim.test\r\n",
        "Upgrade: websocket\r\n",
        "Connection: Upgrade\r\n",
        "Sec-WebSocket-Key: dGhlIHNhbXBsZSBub25jZQ==\r\n",
        "Sec-WebSocket-Version: 13\r\n",
        "Sec-WebSocket-Key: short\r\n",
        "Sec-WebSocket-Key: dGhlIHNhbXBsZSBub25jZQ==dGhlIHNhbXBsZSBub25jZQ==\r\n",
        "Sec-WebSocket-Version: 8\r\n",
        "Upgrade: h2c\r\n",
    ];
    for (i, h) in headers.iter().enumerate() {
        if (i < 5 && g.chance(85)) || (i >= 5 && g.chance(15)) {
            req.push_str(h);
        }
    }
    if g.chance(90) {
        req.push_str("\r\n");
    }
    req.into_bytes()
}

pub fn execute_c07(plan: &Plan) -> Outcome {
    let c = creds(&plan.config);
    let carrier = plan.config.transport;
    let cell = format!("{}{}{}", plan.config.family(), if c.user_keys.is_empty() { "" } else { "+users" }, match carrier { Transport::Ws => "/ws", Transport::Tls => "/tls", Transport::Quic => "/quic", _ => "" });
    let round = plan.extra["round"].as_u64().unwrap_or(0);
    let mut g = Gen::new(plan.extra["sub_seed"].as_u64().unwrap_or(1), 71);
    let attacks = plan.extra["attacks"].as_u64().unwrap_or(40);
    let ws = carrier == Transport::Ws;
    let datagrams = plan.config.proto == Proto::Shadowsocks && carrier != Transport::Quic;
    // (every input of a tls / quic cell costs a real TLS 1.3 handshake: fewer of them per plan)
    let attacks = if matches!(carrier, Transport::Tls | Transport::Quic) { attacks.min(30) } else { attacks };
    let out = rt::run_sim(plan.seed, plan.net_seed, plan.knobs.to_knobs(), || async {
        let mut notes: Vec<(String, String)> = Vec::new();
        let mut counts = BTreeMap::<String, u64>::new();
        let log = Arc::new(Mutex::new(TLog::default()));
        let _t = spawn_scoped(target(log.clone()));
        tokio::task::yield_now().await;
        if is_2022(&plan.config.cipher) {
            world::with(|w| w.first_atomic_ports.push(SERVER_PORT));
        }
        let mains = match start_system(&plan.config, "127.0.0.1", SERVER_PORT).await {
            Ok(m) => m,
            Err(e) => return (Some(e), notes, counts),
        };
        let mut bump = |k: &str, n: u64| *counts.entry(k.to_owned()).or_insert(0) += n;
        // (a) short strings, exhaustively: the block of first bytes this plan covers depends on the round
        let first_bytes: Vec<u8> = (0..16u32).map(|i| ((round as u32 * 16 + i) % 256) as u8).collect();
        // (tls / quic cells: the exhaustive strings go to the client's local port only - the server's port speaks TLS or is a
        // datagram socket there, which is C08's ground)
        let dsts = if matches!(carrier, Transport::Tls | Transport::Quic) { vec![client_addr()] } else { vec![server_addr(), client_addr()] };
        for dst in dsts {
            shoot(dst, &[], 1, 0).await;
            for a in &first_bytes {
                shoot(dst, &[*a], 1, if *a % 2 == 0 { 5 } else { 0 }).await;
                for b in 0..=255u8 {
                    shoot(dst, &[*a, b], 1, 0).await;
                }
                for b in [0u8, 1, 3, 5, 13, 0x7f, 0xff] {
                    for cc in [0u8, 1, 4, 10, 0x80, 0xff] {
                        shoot(dst, &[*a, b, cc], 1, 0).await;
                        shoot(dst, &[*a, b, cc, 0], 2, 3).await;
                    }
                }
            }
            bump("short_strings", 1 + first_bytes.len() as u64 * (1 + 256 + 84));
        }
        // (b) random and structure-aware strings under drawn segmentation, (c) early closes of valid handshakes, (d) authenticated but malformed
        let addr = Addr::V4(T_IP, T_PORT);
        for i in 0..attacks {
            match i % 5 {
                0 => {
                    let w = structured_garbage(&c, &mut g);
                    shoot_server(carrier, i / 5, &w, g.range(1, 4) as usize, 10).await;
                    bump("structured_garbage_to_server", 1);
                }
                1 => {
                    let full = RefClient::start(&c, &mut g, unix_now(), &addr, b"early-close-payload", &ClientOpts::default()).1;
                    let cut = g.range(0, full.len() as u64) as usize;
                    shoot_server(carrier, i / 5, &full[..cut], g.range(1, 3) as usize, 0).await;
                    bump("early_close_of_valid_handshake", 1);
                }
                2 | 3 => {
                    let (name, w) = malformed_authenticated(&c, &mut g, i / 5 + round);
                    let before = out_panics();
                    // (WebSocket cells: always inside messages - the malformed content has to reach the protocol decoder)
                    shoot_server(carrier, 0, &w, 1 + (i % 2) as usize, 20).await;
                    if out_panics() != before {
                        notes.push((format!("panic-on/{name}"), format!("the server panicked on an authenticated but malformed frame: {name}")));
                    }
                    bump(&format!("malformed_{name}"), 1);
                }
                _ => {
                    // local inbound of the client: HTTP-ish and SOCKS-ish garbage
                    let w: Vec<u8> = match g.below(9) {
                        6 | 7 | 8 => http_grammar(&mut g),
                        0 => b"GET ".iter().copied().chain(g.bytes(30)).collect(),
                        1 => [&[5u8, g.below(5) as u8][..], &g.bytes(6)].concat(),
                        2 => {
                            let (t, n) = (g.below(6) as u8, g.below(12) as usize);
                            [&[5u8, 1, 0, 5, 1, 0, t][..], &g.bytes(n)].concat()
                        }
                        3 => format!("CONNECT {}:{} HTTP/1.1\r\n\r\n", "x".repeat(g.range(0, 300) as usize), g.next()).into_bytes(),
                        4 => b"GET http://[::1 HTTP/1.1\r\n\r\n".to_vec(),
                        _ => {
                            let n = g.range(0, 1500) as usize;
                            g.bytes(n)
                        }
                    };
                    shoot(client_addr(), &w, g.range(1, 3) as usize, 5).await;
                    bump("garbage_to_local_inbound", 1);
                }
            }
        }
        // (f) datagrams: to the server's UDP port (Shadowsocks) and to the client's local SOCKS5-UDP port
        let sock = UdpSocket::bind(SocketAddr::new(IpAddr::V4(Ipv4Addr::LOCALHOST), 0)).await.unwrap();
        for i in 0..attacks {
            if datagrams {
                let d = match i % 5 {
                    4 if is_2022(&c.cipher) => {
                        // well-formed, well-authenticated datagrams of one session whose packet ids are legal but sparse: a start near a
                        // boundary of the replay window's ring, then forward jumps of every size class (inside a block, a few blocks,
                        // most of the ring, more than the ring) and stragglers behind them
                        let sid = g.next();
                        let mut pid: u64 = *g.pick(&[0u64, 60, 8000, 8100, 8190, 16290, 24500, 1 << 20, 1 << 40, u64::MAX - 30000]);
                        pid += g.below(130);
                        let steps = g.range(2, 6);
                        let mut last = Vec::new();
                        for s in 0..steps {
                            let back = s > 0 && g.chance(20);
                            let step = *g.pick(&[1u64, 2, 63, 64, 65, 100, 129, 200, 1000, 4000, 8064, 8127, 8128, 8191, 8192, 8193, 9000, 20000]);
                            let id = if back { pid.saturating_sub(step % 8200) } else { pid = pid.saturating_add(step).min(u64::MAX - 2); pid };
                            let body = refimpl::ss2022::UdpBody { session_id: sid, packet_id: id, stream_type: 0, timestamp: unix_now(), client_session_id: None, padding: 0, addr: addr.clone(), payload: format!("sparse-id-{id}").into_bytes() };
                            let mut n24 = [0u8; 24];
                            g.fill(&mut n24);
                            let pkt = if refimpl::ss2022::is_aes(&c.cipher) { refimpl::ss2022::udp_packet_aes(&c.cipher, &c.client_keys, &body) } else { refimpl::ss2022::udp_packet_chacha(&c.cipher, &c.psk, &n24, &body) };
                            if s + 1 < steps {
                                let _ = sock.send_to(&pkt, server_addr()).await;
                                tokio::time::sleep(Duration::from_millis(5)).await;
                            }
                            last = pkt;
                        }
                        bump("sparse_packet_id_histories", 1);
                        last
                    }
                    0 | 4 => {
                        let n = g.range(0, 120) as usize;
                        g.bytes(n)
                    }
                    1 => {
                        let cut = g.range(0, 80) as usize;
                        forge_datagram(&c, &mut g, &addr, b"valid-then-cut", Some(cut))
                    }
                    2 => {
                        // authenticated, malformed inside
                        if is_2022(&c.cipher) && g.chance(50) {
                            // raw bodies: padding length beyond the datagram, nothing after the fixed part, address cut short
                            let mut body = vec![0u8];
                            let ts = if g.chance(30) { *g.pick(&[0u64, 1 << 32, i64::MAX as u64, 1 << 63, u64::MAX]) } else { unix_now() };
                            body.extend_from_slice(&ts.to_be_bytes());
                            match g.below(6) {
                                5 => body.extend_from_slice(&[0, 0, 1, 127, 0, 66, 1, 0x19, 0xc9, b'x']),
                                0 => body.extend_from_slice(&[0xff, 0xff, 1, 2, 3]),
                                1 => body.extend_from_slice(&[0, 9, 1]),
                                2 => body.extend_from_slice(&[0, 0]),
                                3 => body.extend_from_slice(&[0, 0, 3, 200, b'a']),
                                _ => body.extend_from_slice(&[0, 2, 0, 0, 1, 127]),
                            }
                            bump("malformed_2022-datagram-raw-body", 1);
                            let sid = g.next();
                            if refimpl::ss2022::is_aes(&c.cipher) { refimpl::ss2022::udp_packet_aes_raw(&c.cipher, &c.client_keys, sid, 1, &body) } else { refimpl::ss2022::udp_packet_chacha_raw(&c.cipher, &c.psk, &[9u8; 24], sid, 1, &body) }
                        } else if is_2022(&c.cipher) {
                            let bad = g.pick(&[Addr::Name(vec![0xff, 0xfe], 1), Addr::Name(vec![], 1)]).clone();
                            let mut body = refimpl::ss2022::UdpBody { session_id: g.next(), packet_id: 1, stream_type: 0, timestamp: unix_now(), client_session_id: None, padding: 0, addr: bad, payload: vec![] };
                            if g.chance(50) {
                                body.padding = 0;
                            }
                            let mut pkt = if refimpl::ss2022::is_aes(&c.cipher) { refimpl::ss2022::udp_packet_aes(&c.cipher, &c.client_keys, &body) } else { refimpl::ss2022::udp_packet_chacha(&c.cipher, &c.psk, &[7u8; 24], &body) };
                            if g.chance(30) {
                                pkt.truncate(pkt.len().saturating_sub(3));
                            }
                            pkt
                        } else {
                            let aead = refimpl::ss::aead_of(&c.cipher).unwrap();
                            let salt = g.bytes(aead.key_len());
                            let key = refimpl::ss::subkey(&refimpl::ss::evp_bytes_to_key(&c.password, aead.key_len()), &salt);
                            let pt: Vec<u8> = g.pick(&[vec![], vec![9u8], vec![3, 200, b'a'], vec![1, 2], vec![3, 2, 0xff, 0xfe, 0, 80]]).clone();
                            let mut pkt = salt;
                            pkt.extend(aead.seal(&key, &[0u8; 12], &[], &pt));
                            pkt
                        }
                    }
                    _ => forge_datagram(&c, &mut g, &addr, b"", None),
                };
                let _ = sock.send_to(&d, server_addr()).await;
                bump("datagrams_to_server", 1);
            }
            // well-formed SOCKS5-UDP datagrams from this one socket to a spread of targets - addresses and names, ports above and
            // below one another: whatever the client keys its tables with has to cope with any mix
            if i % 3 == 0 && plan.config.proto != Proto::Trojan {
                let spread: Vec<u8> = match g.below(3) {
                    0 => {
                        let mut d = vec![0u8, 0, 0, 1, 127, 0, 30 + g.below(4) as u8, 1 + g.below(200) as u8];
                        d.extend_from_slice(&(g.range(1, 65535) as u16).to_be_bytes());
                        d
                    }
                    1 => {
                        let name = format!("{}.spread.test", g.pick(&["a", "m", "z", "example", "0"]));
                        let mut d = vec![0u8, 0, 0, 3, name.len() as u8];
                        d.extend_from_slice(name.as_bytes());
                        d.extend_from_slice(&(g.range(1, 65535) as u16).to_be_bytes());
                        d
                    }
                    _ => {
                        let mut d = vec![0u8, 0, 0, 1, 10 + g.below(200) as u8, g.below(256) as u8, 0, 1];
                        d.extend_from_slice(&[*g.pick(&[0u8, 1, 0x7f, 0xff]), g.below(256) as u8]);
                        d
                    }
                };
                let mut d = spread;
                d.extend_from_slice(b"spread-datagram");
                let _ = sock.send_to(&d, SocketAddr::new(IpAddr::V4(Ipv4Addr::LOCALHOST), CLIENT_PORT)).await;
                bump("wellformed_datagrams_to_a_spread_of_targets", 1);
            }
            // malformed SOCKS5-UDP requests to the client's local port
            let d: Vec<u8> = match i % 6 {
                0 => {
                    let n = g.below(5) as usize;
                    g.bytes(n)
                }
                1 => vec![0, 0, 1, 1, 127, 0, 0, 1, 0, 80, b'x'],
                2 => vec![0, 0, 0, 9, 1, 2, 3, 4, 5, 6],
                3 => vec![0, 0, 0, 3, 200, b'a', b'b'],
                4 => vec![0, 0, 0, 1, 127, 0],
                _ => vec![0, 0, 0, 3, 2, 0xff, 0xfe, 0, 80, b'x'],
            };
            let _ = sock.send_to(&d, SocketAddr::new(IpAddr::V4(Ipv4Addr::LOCALHOST), CLIENT_PORT)).await;
            bump("datagrams_to_local_udp", 1);
        }
        tokio::time::sleep(Duration::from_millis(200)).await;
        // the service carries on: a correct TCP flow, and a correct local datagram after the malformed ones
        if ws {
            // the upgrade parser of a WebSocket server is network-facing too: well-formed and odd upgrade requests
            for _ in 0..attacks / 2 {
                let w = upgrade_grammar(&mut g);
                shoot(server_addr(), &w, g.range(1, 3) as usize, 5).await;
                bump("upgrade_requests_to_server", 1);
            }
        }
        if let Err(e) = control_over(carrier, &c, &mut g, &log, b"after-the-barrage").await {
            notes.push(("service-down-after-inputs/tcp".into(), e));
        }
        if plan.config.proto != Proto::Trojan && !(plan.config.proto == Proto::Shadowsocks && carrier == Transport::Quic) {
            let before = log.lock().unwrap().udp.len();
            let t = crate::scen_udp::UdpTarget { ip: T_IP, port: T_PORT, name: None, replies: 0, reply_size: 0 };
            let _ = sock.send_to(&crate::scen_udp::socks5_udp_wrap(&t, b"udp-control-after-barrage"), SocketAddr::new(IpAddr::V4(Ipv4Addr::LOCALHOST), CLIENT_PORT)).await;
            tokio::time::sleep(Duration::from_secs(2)).await;
            if log.lock().unwrap().udp.len() == before {
                notes.push(("service-down-after-inputs/local-udp".into(), "after malformed SOCKS5-UDP datagrams a well-formed one was no longer relayed within 2 simulated seconds".into()));
            }
        }
        if mains.client.is_finished() || mains.server.is_finished() {
            notes.push(("main-returned".into(), format!("client finished={}, server finished={}", mains.client.is_finished(), mains.server.is_finished())));
        }
        (None, notes, counts)
    });
    let (startup, notes, counts) = out.result.clone();
    let mut v = Vec::new();
    if let Some(e) = startup {
        v.push(Violation::new("C07", format!("C07/startup/{cell}"), e));
    }
    for p in &out.panics {
        let sig = format!("C07/panic/{cell}/{}", p.frame);
        if !v.iter().any(|x: &Violation| x.signature == sig) {
            v.push(Violation::new("C07", sig, format!("panic in node {}: {} at {}", p.node, p.message, p.location)));
        }
    }
    for (oracle, detail) in &notes {
        if oracle.starts_with("panic-on/") {
            continue; // already reported through the monitor; the note only names the frame
        }
        v.push(Violation::new("C07", format!("C07/{oracle}/{cell}"), detail.clone()));
    }
    let total: u64 = counts.values().sum();
    let mut probes: BTreeMap<String, u64> = counts.clone();
    probes.insert("inputs".to_owned(), total);
    Outcome {
        violations: v,
        ev_hash: out.world.ev_hash,
        ev_count: out.world.ev_count,
        poll_hash: out.poll_hash,
        polls: out.polls,
        sim_ns: out.sim_ns,
        stats: crate::report::world_stats(&out.world),
        nontrivial: total > 0,
        case_hash: out.poll_hash ^ plan.seed.wrapping_mul(0x9E3779B97F4A7C15),
        probes,
        panics: out.panics,
        extra_evaluations: total,
        extra_cases: (0..total.min(5000)).map(|i| plan.seed.wrapping_mul(1_000_003).wrapping_add(i)).collect(),
    }
}

fn out_panics() -> usize {
    crate::rt::peek_panics()
}

// ---------------------------------------------------------------- C09: two users, one datagram session id

/// C09 for state keyed by a datagram session id: user A's session must come to the same result whether or not another
/// registered user B sends under the same session id (at the same time, or after A's entries in the shared caches have
/// expired). The reference client plays both users against the real server.
pub fn gen_c09_sid(seed: u64, _thorough: bool) -> Plan {
    let mut g = Gen::new(seed, 96);
    let cipher = ["2022-blake3-aes-128-gcm", "2022-blake3-aes-256-gcm"][seed as usize % 2];
    let mut config = gen_config(&mut g, Proto::Shadowsocks, cipher, Transport::Tcp, 2);
    config.server_mode = if g.chance(50) { "udp" } else { "tcp_and_udp" }.into();
    Plan {
        property: "C09".into(),
        scenario: "shared-session-id".into(),
        seed,
        net_seed: g.next(),
        config,
        knobs: KnobsPlan::simple(),
        flows: vec![],
        // (user B numbers its datagrams from a drawn start: just ahead of A's, beyond A's replay window, far beyond it)
        extra: serde_json::json!({ "variant": (seed / 2) % 4, "gap_s": *g.pick(&[0u64, 1, 29, 31, 40, 65]), "sub_seed": g.next(), "pid_b0": *g.pick(&[1000u64, 1000, 9000, 20_000, 1 << 33, u64::MAX - 10_000]) }),
    }
}

/// C11, copies that arrive late: a reference client's datagram session (ids 1..k) to a target that answers or stays silent;
/// `delay_s` simulated seconds later (0.3 .. 29 s: the timestamps are still acceptable) the very same datagrams arrive again,
/// then a fresh id. No id is relayed twice - whatever the relay did with the session in the quiet time - and the fresh one is.
pub fn gen_c11_late(seed: u64, _thorough: bool) -> Plan {
    let mut g = Gen::new(seed, 113);
    let ciphers: Vec<&str> = SS_CIPHERS.iter().copied().filter(|c| is_2022(c)).collect();
    let cipher = ciphers[seed as usize % ciphers.len()];
    let n_users = if supports_eih(cipher) && g.chance(40) { 2 } else { 0 };
    let mut config = gen_config(&mut g, Proto::Shadowsocks, cipher, Transport::Tcp, n_users);
    config.server_mode = if g.chance(50) { "udp" } else { "tcp_and_udp" }.into();
    Plan {
        property: "C11".into(),
        scenario: "late-copies".into(),
        seed,
        net_seed: g.next(),
        config,
        knobs: KnobsPlan::simple(),
        flows: vec![],
        // (one plan in eight: the session is a burst of 1100-2500 datagrams sent back to back - more than any queue between the
        // server's listener and the session's task holds - before the copies of its first datagrams arrive)
        extra: serde_json::json!({ "delay_ms": *g.pick(&[300u64, 2_000, 5_000, 9_000, 11_000, 12_000, 15_000, 20_000, 25_000, 28_000]), "silent": g.chance(50), "k": if seed % 8 == 5 { g.range(1100, 2500) } else { g.range(1, 4) }, "other_source": g.chance(30), "sub_seed": g.next() }),
    }
}

pub fn execute_c11_late(plan: &Plan) -> Outcome {
    let c = creds(&plan.config);
    let cell = format!("{}{}", plan.config.family(), if c.user_keys.is_empty() { "" } else { "+users" });
    let delay_ms = plan.extra["delay_ms"].as_u64().unwrap_or(12_000);
    let silent = plan.extra["silent"].as_bool().unwrap_or(true);
    let k = plan.extra["k"].as_u64().unwrap_or(3);
    let other_source = plan.extra["other_source"].as_bool().unwrap_or(false);
    let mut g = Gen::new(plan.extra["sub_seed"].as_u64().unwrap_or(1), 114);
    let out = rt::run_sim(plan.seed, plan.net_seed, plan.knobs.to_knobs(), || async {
        let mut findings: Vec<(String, String)> = Vec::new();
        let log = Arc::new(Mutex::new(TLog { silent, ..Default::default() }));
        let _t = spawn_scoped(target(log.clone()));
        tokio::task::yield_now().await;
        let server = start_server_json(plan.config.server_json());
        tokio::task::yield_now().await;
        if !settle(|| udp_bound(SERVER_PORT)).await {
            return (Some(format!("server did not come up (finished={})", server.is_finished())), findings);
        }
        let addr = Addr::V4(T_IP, T_PORT);
        let a = UdpSocket::bind(SocketAddr::new(IpAddr::V4(Ipv4Addr::LOCALHOST), 0)).await.unwrap();
        let a2 = UdpSocket::bind(SocketAddr::new(IpAddr::V4(Ipv4Addr::LOCALHOST), 0)).await.unwrap();
        let sid: u64 = g.next();
        let mut mk = |g: &mut Gen, pid: u64, payload: &[u8]| {
            let body = refimpl::ss2022::UdpBody { session_id: sid, packet_id: pid, stream_type: 0, timestamp: unix_now(), client_session_id: None, padding: 0, addr: addr.clone(), payload: payload.to_vec() };
            if refimpl::ss2022::is_aes(&c.cipher) {
                refimpl::ss2022::udp_packet_aes(&c.cipher, &c.client_keys, &body)
            } else {
                let mut n24 = [0u8; 24];
                g.fill(&mut n24);
                refimpl::ss2022::udp_packet_chacha(&c.cipher, &c.psk, &n24, &body)
            }
        };
        let mut wires = Vec::new();
        for pid in 1..=k {
            let w = mk(&mut g, pid, format!("late-copy-session-datagram-{pid}").as_bytes());
            let _ = a.send_to(&w, server_addr()).await;
            if wires.len() < 4 {
                wires.push(w);
            }
            if k <= 4 {
                tokio::time::sleep(Duration::from_millis(20)).await;
            }
        }
        tokio::time::sleep(Duration::from_millis(delay_ms)).await;
        for w in &wires {
            let _ = if other_source { a2.send_to(w, server_addr()).await } else { a.send_to(w, server_addr()).await };
            tokio::time::sleep(Duration::from_millis(20)).await;
        }
        let fresh = mk(&mut g, k + 1, b"late-copy-session-fresh-datagram");
        let _ = a.send_to(&fresh, server_addr()).await;
        tokio::time::sleep(Duration::from_millis(300)).await;
        let at_target: Vec<Vec<u8>> = log.lock().unwrap().udp.iter().map(|(_, d)| d.clone()).collect();
        for pid in (1..=k).filter(|p| *p <= 4 || p % 97 == 0 || *p == k) {
            let p = format!("late-copy-session-datagram-{pid}").into_bytes();
            let n = at_target.iter().filter(|d| **d == p).count();
            if n > 1 {
                findings.push(("packet-id-accepted-twice-after-a-quiet-time".into(), format!("packet id {pid} reached the target {n} times: the copy arrived {delay_ms} ms after the original ({}; target {}; {k} datagrams in the session)", if other_source { "from another source address" } else { "from the same address" }, if silent { "never answers" } else { "answers" })));
                break;
            }
            if n == 0 {
                findings.push(("datagram-lost".into(), format!("packet id {pid} never reached the target")));
                break;
            }
        }
        if !at_target.iter().any(|d| d == b"late-copy-session-fresh-datagram") {
            findings.push(("fresh-id-refused-after-copies".into(), format!("after the late copies a fresh packet id ({}) was not relayed (delay {delay_ms} ms, target {})", k + 1, if silent { "never answers" } else { "answers" })));
        }
        (None, findings)
    });
    let (startup, findings) = out.result.clone();
    let mut v = Vec::new();
    if let Some(e) = startup {
        v.push(Violation::new("C11", format!("C11/late-copies-startup/{cell}"), e));
    }
    for (oracle, detail) in &findings {
        v.push(Violation::new("C11", format!("C11/{oracle}/{cell}"), detail.clone()));
    }
    for p in &out.panics {
        v.push(Violation::new("C11", format!("C11/panic/{cell}/{}", p.frame), format!("panic in node {}: {} at {}", p.node, p.message, p.location)));
    }
    let mut probes = BTreeMap::new();
    probes.insert(format!("late_copies_after_{}_s", delay_ms / 1000), 1);
    probes.insert(format!("late_copies_target_{}", if silent { "silent" } else { "answering" }), 1);
    Outcome {
        violations: v,
        ev_hash: out.world.ev_hash,
        ev_count: out.world.ev_count,
        poll_hash: out.poll_hash,
        polls: out.polls,
        sim_ns: out.sim_ns,
        stats: crate::report::world_stats(&out.world),
        nontrivial: true,
        case_hash: out.poll_hash ^ plan.seed.wrapping_mul(0x9E3779B97F4A7C15),
        probes,
        panics: out.panics,
        extra_evaluations: 0,
        extra_cases: Vec::new(),
    }
}

/// C11, several users: the same histories, judged for the packet-id rule - a datagram of user B that carries A's session
/// id is refused (it is not A's), and a refused datagram leaves A's window where it was: A's next ids, never seen before and
/// not behind the highest id *accepted*, are all relayed, whatever packet id B's datagram carried.
pub fn gen_c11_users(seed: u64, thorough: bool) -> Plan {
    let mut p = gen_c09_sid(seed, thorough);
    p.property = "C11".into();
    p
}

pub fn execute_c09_sid(plan: &Plan) -> Outcome {
    let c = creds(&plan.config);
    let prop = plan.property.clone();
    let cell = plan.config.family();
    let variant = plan.extra["variant"].as_u64().unwrap_or(0);
    let gap_s = plan.extra["gap_s"].as_u64().unwrap_or(31);
    let mut g = Gen::new(plan.extra["sub_seed"].as_u64().unwrap_or(1), 97);
    let out = rt::run_sim(plan.seed, plan.net_seed, plan.knobs.to_knobs(), || async {
        let mut findings: Vec<(String, String)> = Vec::new();
        // (the target answers every datagram twice: at once and 45 ms later - after the other user's next datagram, which is
        // sent 30 ms after this one, and before this user's next one)
        let log = Arc::new(Mutex::new(TLog { late_replies: true, ..Default::default() }));
        let _t = spawn_scoped(target(log.clone()));
        tokio::task::yield_now().await;
        let server = start_server_json(plan.config.server_json());
        tokio::task::yield_now().await;
        if !settle(|| udp_bound(SERVER_PORT)).await {
            return (Some(format!("server did not come up (finished={})", server.is_finished())), findings, 0u64);
        }
        let addr = Addr::V4(T_IP, T_PORT);
        let (ka, kb) = (c.user_keys[0].clone(), c.user_keys[1].clone());
        let a = UdpSocket::bind(SocketAddr::new(IpAddr::V4(Ipv4Addr::LOCALHOST), 0)).await.unwrap();
        let b = UdpSocket::bind(SocketAddr::new(IpAddr::V4(Ipv4Addr::LOCALHOST), 0)).await.unwrap();
        let sid_a: u64 = g.next();
        let sid_b: u64 = if variant == 3 { g.next() } else { sid_a };
        let mk = |key: &Vec<u8>, sid: u64, pid: u64, payload: &[u8]| {
            let body = refimpl::ss2022::UdpBody { session_id: sid, packet_id: pid, stream_type: 0, timestamp: unix_now(), client_session_id: None, padding: 0, addr: addr.clone(), payload: payload.to_vec() };
            refimpl::ss2022::udp_packet_aes(&c.cipher, &[c.psk.clone(), key.clone()], &body)
        };
        // the history: A's datagrams are what is judged; B's are the neighbour
        let mut sent_a: Vec<Vec<u8>> = Vec::new();
        let mut pid_a = 0u64;
        let mut pid_b = plan.extra["pid_b0"].as_u64().unwrap_or(1000);
        let mut steps: Vec<(&str, u64)> = match variant {
            0 => vec![("a", 0), ("b", 0), ("a", 0), ("b", 0), ("a", 0)],
            1 => vec![("a", 0), ("gap", gap_s), ("b", 0), ("a", 0), ("gap", gap_s), ("b", 0), ("b", 0), ("a", 0)],
            2 => vec![("a", 0), ("a", 0), ("gap", gap_s), ("b", 0), ("gap", 1), ("a", 0), ("a", 0)],
            _ => vec![("a", 0), ("b", 0), ("a", 0), ("gap", gap_s), ("b", 0), ("a", 0)],
        };
        steps.push(("a", 0));
        for (who, arg) in steps {
            match who {
                "gap" => tokio::time::sleep(Duration::from_secs(arg)).await,
                "a" => {
                    pid_a += 1;
                    let p = format!("user-a-datagram-{pid_a}").into_bytes();
                    let _ = a.send_to(&mk(&ka, sid_a, pid_a, &p), server_addr()).await;
                    sent_a.push(p);
                    tokio::time::sleep(Duration::from_millis(30)).await;
                }
                _ => {
                    pid_b += 1;
                    let p = format!("user-b-datagram-{pid_b}").into_bytes();
                    let _ = b.send_to(&mk(&kb, sid_b, pid_b, &p), server_addr()).await;
                    tokio::time::sleep(Duration::from_millis(30)).await;
                }
            }
        }
        tokio::time::sleep(Duration::from_millis(200)).await;
        let at_target: Vec<Vec<u8>> = log.lock().unwrap().udp.iter().map(|(_, d)| d.clone()).collect();
        for (i, p) in sent_a.iter().enumerate() {
            let n = at_target.iter().filter(|d| *d == p).count();
            if n != 1 {
                findings.push(("session-of-user-a-disturbed".into(), format!("datagram {} of user A's session reached the target {n} times (variant {variant}, gap {gap_s} s; user B {} A's session id)", i + 1, if sid_a == sid_b { "sends under" } else { "does not share" })));
                break;
            }
        }
        // A's replies open under A's key
        let mut buf = vec![0u8; 65536];
        let mut replies = 0;
        let mut late_for_a = 0;
        while let Ok(Ok((n, _))) = tokio::time::timeout(Duration::from_millis(5), a.recv_from(&mut buf)).await {
            replies += 1;
            match refimpl::ss2022::udp_open_aes(&c.cipher, &ka, &[ka.clone()], 0, &buf[..n], true) {
                Err(_) => {
                    findings.push(("reply-to-user-a-under-another-key".into(), format!("a reply delivered to user A does not open under A's key (variant {variant})")));
                    break;
                }
                Ok((body, _, _, _)) => {
                    if body.payload.starts_with(b"late-reply:user-a-") {
                        late_for_a += 1;
                    }
                }
            }
        }
        if replies == 0 {
            findings.push(("session-of-user-a-disturbed".into(), format!("user A received no reply at all (variant {variant}, gap {gap_s} s)")));
        } else if late_for_a != sent_a.len() && findings.is_empty() {
            // every datagram of A's was relayed (checked above), so the target answered each of them twice; the second answer
            // travels while the other user's datagram - refused or served under its own session - has just passed the server
            findings.push(("late-reply-of-user-a-lost".into(), format!("user A received {late_for_a} of the {} late replies to its datagrams (variant {variant}, gap {gap_s} s; user B {} A's session id)", sent_a.len(), if sid_b == sid_a { "uses" } else { "does not use" })));
        }
        // nothing of A's comes to B: not under A's key, and no answer to a datagram of A's under B's key either
        while let Ok(Ok((n, _))) = tokio::time::timeout(Duration::from_millis(5), b.recv_from(&mut buf)).await {
            let as_a = refimpl::ss2022::udp_open_aes(&c.cipher, &ka, &[ka.clone()], 0, &buf[..n], true).is_ok();
            let a_content = refimpl::ss2022::udp_open_aes(&c.cipher, &kb, &[kb.clone()], 0, &buf[..n], true).is_ok_and(|(b, _, _, _)| b.payload.windows(7).any(|w| w == b"user-a-"));
            if as_a || a_content {
                findings.push(("reply-of-user-a-delivered-to-user-b".into(), format!("a reply that belongs to user A's session arrived at user B's address (sealed under A's key: {as_a}; variant {variant}, gap {gap_s} s)")));
                break;
            }
        }
        (None, findings, sent_a.len() as u64)
    });
    let (startup, findings, n) = out.result.clone();
    let mut v = Vec::new();
    if let Some(e) = startup {
        v.push(Violation::new(&prop, format!("{prop}/shared-session-id-startup/{cell}"), e));
    }
    for (oracle, detail) in &findings {
        if !v.iter().any(|x: &Violation| x.signature.contains(oracle.as_str())) {
            v.push(Violation::new(&prop, format!("{prop}/{oracle}/{cell}"), detail.clone()));
        }
    }
    for p in &out.panics {
        v.push(Violation::new(&prop, format!("{prop}/panic/{cell}/{}", p.frame), format!("panic in node {}: {} at {}", p.node, p.message, p.location)));
    }
    let mut probes = BTreeMap::new();
    probes.insert(format!("shared_session_id_variant_{variant}"), 1);
    Outcome {
        violations: v,
        ev_hash: out.world.ev_hash,
        ev_count: out.world.ev_count,
        poll_hash: out.poll_hash,
        polls: out.polls,
        sim_ns: out.sim_ns,
        stats: crate::report::world_stats(&out.world),
        nontrivial: n > 0,
        case_hash: out.poll_hash ^ plan.seed.wrapping_mul(0x9E3779B97F4A7C15),
        probes,
        panics: out.panics,
        extra_evaluations: 0,
        extra_cases: Vec::new(),
    }
}
