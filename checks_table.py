"""Per-property description of the registered checks (used by ./check)."""

REAL_SYSTEM = [
    "octo-squirrel-client client::main() (accept loop, local SOCKS5/HTTP handshake, relay templates, codecs)",
    "octo-squirrel-server server::main() (accept loops, relay templates, codecs, user manager)",
    "octo-squirrel library (all codecs, WebSocketFramed, packet window, address codecs)",
    "tokio current-thread scheduler, timers and mpsc; tokio-util Framed/codec",
    "tokio-rustls + rustls + aws-lc-rs (tls, wss)", "tokio-websockets (ws, wss)", "httparse",
]
STUB_SYSTEM = [
    "kernel TCP/UDP sockets and listeners (simulated: /verif/seam/net.rs)",
    "DNS (simulated zone)", "wall clock (simulated epoch + paused tokio clock)",
    "monotonic clock source of lru_time_cache (vendored copy, tokio::time::Instant)",
    "OS entropy (seeded getrandom backend)", "config file / logger (handed over by the harness)",
    "multi-thread parallelism (one thread per world; thread-level sharing is covered by the shuttle engine only)",
    "QUIC transport (not simulated)",
    "local applications, targets, attackers (harness scripts)",
]
ASSUME_SYSTEM = [
    "the simulated kernel only does what a real kernel may do (any positive read size, writes refused only when the buffer is full, finite delays, FIN after data, RST only when injected or after a write to a closed peer)",
    "sampling: a clean batch is evidence, not proof",
    "task interleavings are explored on one thread (tokio current_thread with a seeded scheduler)",
    "rustls/aws-lc randomness is not seeded; only record sizes (fixed) can influence a schedule",
]

CHECKS = {
    "C01": {
        "level": "exploration",
        "parts": [{"gen": "C01", "quick": 1920, "thorough": 48000, "quick_deadline_s": 420, "thorough_deadline_s": 3000}],
        "rule": "one run = real client + real server mains on the simulated network, 1-4 (thorough 1-12) concurrent scripted flows; the configuration cell "
                "(protocol x cipher x tcp/tls/ws/wss) cycles with the seed, local handshake kind, traffic scripts, endings and network knobs are drawn from the seed; "
                "non-trivial = at least one byte relayed end to end; distinct = distinct (plan shape, task-poll order) hashes",
        "real": REAL_SYSTEM, "stub": STUB_SYSTEM, "assumptions": ASSUME_SYSTEM + [
            "local handshakes are delivered atomically in this check (their segmentation is C13's subject)",
            "Shadowsocks 2022 first flight is delivered in one read (the boundary the properties exempt)",
            "an application or target that stops writing half-closes; an abortive close with answers in flight belongs to C15",
        ],
    },
    "C04": {
        "level": "fault_enumeration",
        "parts": [{"gen": "C04", "quick": 144, "thorough": 1440}],
        "exhaustive_claim": False,
        "rule": "one plan = one (protocol, cipher, single/multi-user) cell x direction (client->server or server->client) x segmentation family; the real client and server run with a "
                "man-in-the-middle node on their link that forwards the byte stream in exact pieces and lets the receiver go quiet after each piece (no EOF at the end). Families: "
                "every single cut point 1..n-1 of the observed stream (exhaustive per plan; thorough adds 1500 sampled pairs), byte-at-a-time, and seeded multi-cut segmentations. "
                "Each segmentation is one evaluation; non-trivial = the stream had the same length as in the unsegmented baseline, so the cut fell where intended; distinct = distinct (plan, cut set, poll order) hashes. "
                "Oracle: same target address, same plaintext both ways, no error, everything delivered at quiescence. Cuts inside the Shadowsocks-2022 first flight (salt + fixed header) are exempt from 'no error' only.",
        "real": REAL_SYSTEM, "stub": STUB_SYSTEM + ["man-in-the-middle segmenter on the client<->server link (harness)"],
        "assumptions": ASSUME_SYSTEM + ["plain tcp carrier only in this check: TLS records and WebSocket frames are re-segmented by C01's network knobs, message-level re-chunking of WebSocket payloads is not enumerated here"],
    },
    "C05": {
        "level": "fault_enumeration",
        "parts": [{"gen": "C05", "quick": 66, "thorough": 660}],
        "rule": "one plan = one encrypted (protocol, cipher, single/multi-user) cell x direction; the man-in-the-middle node mutates the real byte stream between the real client and server: "
                "one bit flipped in every byte position 0..n-1 (exhaustive over positions, bit drawn), truncation+close at every third offset, seeded deletions, duplications, insertions and multi-byte edits, "
                "and full reflection of a sender's stream (Shadowsocks 2022, VMess). Each mutation is one evaluation. Oracle: everything released to the far side is a prefix of what was written; "
                "for Shadowsocks additionally no more is released than an untampered stream cut at the first tampered byte releases (release curve measured by a byte-at-a-time reference run); "
                "a reflected stream releases nothing; the opposite direction stays a prefix too.",
        "real": REAL_SYSTEM, "stub": STUB_SYSTEM + ["man-in-the-middle mutator on the client<->server link (harness)"],
        "assumptions": ASSUME_SYSTEM + ["plain tcp carrier (under tls/wss the outer TLS layer, third-party code, rejects every mutation first)",
                                        "VMess leaves chunk padding unauthenticated by design, so VMess is held to the prefix oracle only",
                                        "Trojan has no encryption of its own and is outside this property; datagram tampering is covered by the UDP checks"],
    },
}
