//! C07, the client's side: whatever a (hostile) server answers, the client's decoders neither panic nor stop serving.
//!
//! The real client talks to a harness server that speaks the protocol through the reference implementation and
//! answers each flow from a menu: garbage, a correct answer cut short at a swept offset (then EOF), the correct
//! answer delivered in two segments with the cut swept over every offset of its first 120 bytes, one flipped bit at a
//! swept offset, a correct answer followed by garbage, mis-typed / stale / unbound response headers, an immediate
//! close, empty and very large writes. Shadowsocks cells do the same for datagram replies (random, truncated,
//! flipped, authenticated with a malformed source address, duplicated). Oracle: the process-wide panic monitor stays
//! empty, and after the barrage a correct answer is still relayed to the application (stream and datagram).

use std::collections::BTreeMap;
use std::net::IpAddr;
use std::net::Ipv4Addr;
use std::net::SocketAddr;
use std::time::Duration;

use octo_squirrel::verif::clock::unix_now;
use octo_squirrel::verif::net::TcpListener;
use octo_squirrel::verif::net::TcpStream;
use octo_squirrel::verif::net::UdpSocket;
use refimpl::Addr;
use tokio::io::AsyncReadExt;
use tokio::io::AsyncWriteExt;

use crate::nodes::*;
use crate::plan::*;
use crate::refpeer::*;
use crate::report::Outcome;
use crate::report::Violation;
use crate::rnd::Gen;
use crate::rt;

const T_IP: [u8; 4] = [127, 0, 7, 7];
const T_PORT: u16 = 7070;

pub fn gen_hsrv(seed: u64, thorough: bool) -> Plan {
    let mut g = Gen::new(seed, 77);
    let cells = crate::scen_adv::adv_cells();
    let (proto, cipher, n_users) = cells[seed as usize % cells.len()];
    let mut config = gen_config(&mut g, proto, cipher, Transport::Tcp, n_users);
    config.client_mode = "tcp_and_udp".into();
    Plan {
        property: "C07".into(),
        scenario: "hostile-server".into(),
        seed,
        net_seed: g.next(),
        config,
        knobs: KnobsPlan::simple(),
        flows: vec![],
        extra: serde_json::json!({ "sub_seed": g.next(), "round": seed / cells.len() as u64, "flows": if thorough { 240 } else { 64 } }),
    }
}

/// one application flow through the client: SOCKS5 handshake, one write, then everything that comes back until the end
async fn app_flow(tag: Vec<u8>) -> Vec<u8> {
    let Ok(mut s) = TcpStream::connect(client_addr()).await else { return Vec::new() };
    s.set_own_styles(0, 0);
    s.set_peer_read_style(0);
    let mut r = [0u8; 10];
    if s.write_all(&[5, 1, 0]).await.is_err() || s.read_exact(&mut r[..2]).await.is_err() {
        return Vec::new();
    }
    let mut req = vec![5, 1, 0, 1];
    req.extend_from_slice(&T_IP);
    req.extend_from_slice(&T_PORT.to_be_bytes());
    if s.write_all(&req).await.is_err() || s.read_exact(&mut r).await.is_err() {
        return Vec::new();
    }
    let _ = s.write_all(&tag).await;
    let mut got = Vec::new();
    let mut buf = [0u8; 4096];
    while let Ok(Ok(n)) = tokio::time::timeout(Duration::from_secs(2), s.read(&mut buf)).await {
        if n == 0 {
            break;
        }
        got.extend_from_slice(&buf[..n]);
    }
    got
}

pub fn execute_hsrv(plan: &Plan) -> Outcome {
    let c = creds(&plan.config);
    let cell = format!("{}{}", plan.config.family(), if c.user_keys.is_empty() { "" } else { "+users" });
    let round = plan.extra["round"].as_u64().unwrap_or(0);
    let flows = plan.extra["flows"].as_u64().unwrap_or(32);
    let mut g = Gen::new(plan.extra["sub_seed"].as_u64().unwrap_or(1), 78);
    let out = rt::run_sim(plan.seed, plan.net_seed, plan.knobs.to_knobs(), || async {
        let mut notes: Vec<(String, String)> = Vec::new();
        let mut counts = BTreeMap::<String, u64>::new();
        let listener = match TcpListener::bind(server_addr()).await {
            Ok(l) => l,
            Err(e) => return (Some(format!("harness server bind: {e}")), notes, counts),
        };
        let usock = UdpSocket::bind(server_addr()).await.ok();
        let client = start_client_json(rt::NODE_CLIENT, plan.config.client_json("127.0.0.1", SERVER_PORT));
        tokio::task::yield_now().await;
        if !settle(|| tcp_listening(CLIENT_PORT)).await {
            return (Some(format!("client did not come up (finished={})", client.is_finished())), notes, counts);
        }
        let mut bump = |k: &str| *counts.entry(k.to_owned()).or_insert(0) += 1;
        let answer: &[u8] = b"the-correct-answer-of-the-reference-server/0123456789abcdefghijklmnopqrstuvwxyz";
        // ---- streams
        for i in 0..=flows {
            let control = i == flows;
            let kind = if control { 99 } else { i % 9 };
            let sweep = (round * flows + i) / 9;
            let mut app = spawn_scoped(app_flow(format!("request-{i:04}-from-the-application").into_bytes()));
            let accepted = tokio::time::timeout(Duration::from_secs(5), listener.accept()).await;
            let Ok(Ok((mut s, _))) = accepted else {
                if control {
                    notes.push(("service-down-after-replies/tcp".into(), "after the hostile replies the client no longer dials its server for a new flow".into()));
                }
                let _ = (&mut app.0).await;
                continue;
            };
            s.set_own_styles(0, 0);
            s.set_peer_read_style(0);
            let mut srv = RefServer::new(&c, unix_now());
            let mut buf = vec![0u8; 65536];
            for _ in 0..10 {
                if srv.payload.len() >= 20 {
                    break;
                }
                match tokio::time::timeout(Duration::from_millis(300), s.read(&mut buf)).await {
                    Ok(Ok(n)) if n > 0 => {
                        let _ = srv.feed(&buf[..n]);
                    }
                    _ => break,
                }
            }
            let opts = match (kind, sweep % 6) {
                (5, 0) => ServerOpts { stream_type: Some(*g.pick(&[0u8, 2, 0x7f, 0xff])), ..Default::default() },
                // (stale, ahead, and the extremes of the 64-bit field: 0, 2^63 - 1, 2^63, 2^64 - 1)
                (5, 1) => ServerOpts { ts_offset: *g.pick(&[-100_000i64, -31, 31, 100_000, -(unix_now() as i64), i64::MAX - unix_now() as i64, (i64::MAX - unix_now() as i64).wrapping_add(1), -(unix_now() as i64) - 1]), ..Default::default() },
                (5, 2) => ServerOpts { wrong_request_salt: true, ..Default::default() },
                (5, 3) => ServerOpts { vmess_wrong_auth: true, ..Default::default() },
                (5, 4) => ServerOpts { vmess_wrong_keys: true, ..Default::default() },
                (5, 5) if plan.config.proto == Proto::Vmess => match g.below(3) {
                    0 => ServerOpts { vmess_resp_header_raw: Some(g.pick(&[vec![], vec![7u8], vec![0u8; 3], vec![0xffu8; 300]]).clone()), ..Default::default() },
                    _ => ServerOpts { vmess_bad_chunk: Some(g.below(6) as u8), ..Default::default() },
                },
                (7, _) => ServerOpts { max_chunk: Some(*g.pick(&[1usize, 2, 0x3fff, 0xffff])), ..Default::default() },
                _ => ServerOpts::default(),
            };
            let mut valid = srv.write(&mut g, answer, &opts).unwrap_or_default();
            if let Some(w) = srv.write(&mut g, b"/second-write", &opts) {
                valid.extend(w);
            }
            let n = valid.len().max(1);
            let name = match kind {
                0 => {
                    let len = *g.pick(&[0usize, 1, 2, 15, 16, 17, 18, 33, 34, 35, 50, 100, 400]);
                    let junk = g.bytes(len);
                    let _ = s.write_all(&junk).await;
                    "garbage"
                }
                1 => {
                    let k = (sweep as usize * 3) % n;
                    let _ = s.write_all(&valid[..k]).await;
                    "truncated-answer"
                }
                2 | 8 => {
                    // two segments, the cut swept over the first 120 bytes (response headers live there)
                    let k = 1 + (sweep as usize) % n.min(120).max(2).saturating_sub(1);
                    let _ = s.write_all(&valid[..k.min(valid.len())]).await;
                    tokio::time::sleep(Duration::from_millis(200)).await;
                    let _ = s.write_all(&valid[k.min(valid.len())..]).await;
                    "answer-in-two-segments"
                }
                3 => {
                    let mut v = valid.clone();
                    if !v.is_empty() {
                        let k = (sweep as usize * 5) % v.len();
                        v[k] ^= 1 << g.below(8);
                    }
                    let _ = s.write_all(&v).await;
                    "one-flipped-bit"
                }
                4 => {
                    let _ = s.write_all(&valid).await;
                    let len = g.range(1, 200) as usize;
                    let junk = g.bytes(len);
                    let _ = s.write_all(&junk).await;
                    "answer-then-garbage"
                }
                5 => {
                    let _ = s.write_all(&valid).await;
                    "odd-response-header"
                }
                6 => "immediate-close",
                7 => {
                    let _ = s.write_all(&valid).await;
                    if let Some(w) = srv.write(&mut g, b"", &opts) {
                        let _ = s.write_all(&w).await;
                    }
                    if let Some(w) = srv.write(&mut g, &vec![0x5a; 70_000], &opts) {
                        let _ = s.write_all(&w).await;
                    }
                    "empty-and-huge-writes"
                }
                _ => {
                    let _ = s.write_all(&valid).await;
                    "control"
                }
            };
            bump(&format!("reply_{name}"));
            tokio::time::sleep(Duration::from_millis(100)).await;
            let _ = s.shutdown().await;
            let got = (&mut app.0).await.unwrap_or_default();
            drop(s);
            if control && !got.starts_with(answer) {
                notes.push(("service-down-after-replies/tcp".into(), format!("after the hostile replies a correct answer was not relayed to the application ({} bytes arrived)", got.len())));
            }
            if kind == 2 || kind == 8 {
                // a correct answer in two segments is a correct answer
                if plan.config.proto != Proto::Shadowsocks || !is_2022(&plan.config.cipher) {
                    if !got.starts_with(answer) {
                        notes.push(("segmented-answer-lost".into(), format!("a correct answer delivered in two segments was not relayed ({} of {} bytes arrived)", got.len(), answer.len() + 13)));
                    }
                }
            }
        }
        // ---- datagram replies (Shadowsocks)
        if let (Some(usock), true) = (usock.as_ref(), plan.config.proto == Proto::Shadowsocks) {
            let app = UdpSocket::bind(SocketAddr::new(IpAddr::V4(Ipv4Addr::LOCALHOST), 0)).await.unwrap();
            let target = crate::scen_udp::UdpTarget { ip: T_IP, port: T_PORT, name: None, replies: 1, reply_size: 0 };
            let cipher = plan.config.cipher.clone();
            let mut buf = vec![0u8; 65536];
            let mut server_pid = 0u64;
            // a server may restart (or let its association expire) any number of times while a binding of the client lives:
            // the session id of its replies changes now and then - back to an earlier one, or to one not used before
            let sessions: Vec<u64> = (0..5).map(|_| g.next()).collect();
            let mut server_session: u64 = sessions[0];
            let n_dgrams = flows / 2;
            for i in 0..=n_dgrams {
                let control = i == n_dgrams;
                let _ = app.send_to(&crate::scen_udp::socks5_udp_wrap(&target, format!("dgram-{i}").as_bytes()), SocketAddr::new(IpAddr::V4(Ipv4Addr::LOCALHOST), CLIENT_PORT)).await;
                let Ok(Ok((n, from))) = tokio::time::timeout(Duration::from_secs(2), usock.recv_from(&mut buf)).await else {
                    if control {
                        notes.push(("service-down-after-replies/udp".into(), "after the hostile datagram replies the client no longer forwards datagrams".into()));
                    }
                    continue;
                };
                let pkt = buf[..n].to_vec();
                let ids: Option<(u64, Option<usize>)> = if !is_2022(&cipher) {
                    None
                } else if refimpl::ss2022::is_aes(&cipher) {
                    let eih = if c.user_keys.is_empty() { 0 } else { 1 };
                    let body_keys = if c.user_keys.is_empty() { vec![c.psk.clone()] } else { c.user_keys.clone() };
                    refimpl::ss2022::udp_open_aes(&cipher, &c.psk, &body_keys, eih, &pkt, false).ok().map(|(b, idx, _, _)| (b.session_id, if eih == 1 { Some(idx) } else { None }))
                } else {
                    refimpl::ss2022::udp_open_chacha(&cipher, &c.psk, &pkt, false).ok().map(|(b, _)| (b.session_id, None))
                };
                let kind = if control { 99 } else { i % 7 };
                let from_addr = match kind {
                    3 => g.pick(&[Addr::Name(vec![0xff, 0xfe, 0xc0], 53), Addr::Name(vec![], 53), Addr::Name(vec![b'a'; 255], 53)]).clone(),
                    _ => Addr::V4(T_IP, T_PORT),
                };
                let reply = format!("reply-{i}").into_bytes();
                if g.chance(35) {
                    server_session = *g.pick(&sessions);
                    bump("dgram_reply_server_session_changed");
                }
                // ids only ever have to be fresh: the hostile server numbers sparsely (starts near a boundary of the replay window's
                // ring, jumps of every size class)
                if i == 0 {
                    server_pid = *g.pick(&[0u64, 0, 60, 8000, 8100, 8190, 16290, 1 << 40]) + g.below(130);
                }
                server_pid += *g.pick(&[1u64, 1, 2, 63, 64, 65, 100, 129, 200, 1000, 4000, 8064, 8128, 8191, 8192, 8193, 9000]);
                let mut build = |g: &mut Gen, pid: u64, ty: u8| -> Vec<u8> {
                    if !is_2022(&cipher) {
                        refimpl::ss::udp_packet(&cipher, &c.password, &g.bytes(key_len(&cipher)), &from_addr, &reply)
                    } else {
                        let (csid, user) = ids.unwrap_or((0, None));
                        let body = refimpl::ss2022::UdpBody { session_id: server_session, packet_id: pid, stream_type: ty, timestamp: unix_now(), client_session_id: Some(csid), padding: 3, addr: from_addr.clone(), payload: reply.clone() };
                        if refimpl::ss2022::is_aes(&cipher) {
                            let key = match user {
                                Some(u) => c.user_keys[u].clone(),
                                None => c.psk.clone(),
                            };
                            refimpl::ss2022::udp_packet_aes(&cipher, &[key], &body)
                        } else {
                            let mut n24 = [0u8; 24];
                            g.fill(&mut n24);
                            refimpl::ss2022::udp_packet_chacha(&cipher, &c.psk, &n24, &body)
                        }
                    }
                };
                let valid = build(&mut g, server_pid, 1);
                let (name, wires): (&str, Vec<Vec<u8>>) = match kind {
                    0 => {
                        let len = g.range(0, 120) as usize;
                        ("random", vec![g.bytes(len)])
                    }
                    1 => ("truncated", vec![valid[..g.below(valid.len() as u64) as usize].to_vec()]),
                    2 => {
                        let mut v = valid.clone();
                        let k = g.below(v.len() as u64) as usize;
                        v[k] ^= 1 << g.below(8);
                        ("one-flipped-bit", vec![v])
                    }
                    3 => ("malformed-source-address", vec![valid.clone()]),
                    4 => ("duplicated", vec![valid.clone(), valid.clone(), valid.clone()]),
                    5 => ("typed-as-request", vec![build(&mut g, server_pid, 0)]),
                    6 if is_2022(&cipher) => {
                        // well authenticated, wrong inside: padding length beyond the datagram, nothing after the fixed part, ...
                        let (csid, user) = ids.unwrap_or((0, None));
                        let mut body = vec![1u8];
                        body.extend_from_slice(&unix_now().to_be_bytes());
                        body.extend_from_slice(&csid.to_be_bytes());
                        match g.below(5) {
                            0 => body.extend_from_slice(&[0xff, 0xff, 1, 2, 3]),
                            1 => body.extend_from_slice(&[0, 9, 1]),
                            2 => body.extend_from_slice(&[0, 0]),
                            3 => body.extend_from_slice(&[0, 0, 3, 200, b'a']),
                            _ => body.extend_from_slice(&[0, 2, 0, 0, 1, 127]),
                        }
                        let w = if refimpl::ss2022::is_aes(&cipher) {
                            let key = match user {
                                Some(u) => c.user_keys[u].clone(),
                                None => c.psk.clone(),
                            };
                            refimpl::ss2022::udp_packet_aes_raw(&cipher, &[key], server_session, server_pid, &body)
                        } else {
                            let mut n24 = [0u8; 24];
                            g.fill(&mut n24);
                            refimpl::ss2022::udp_packet_chacha_raw(&cipher, &c.psk, &n24, server_session, server_pid, &body)
                        };
                        ("authenticated-malformed-body", vec![w])
                    }
                    6 => ("random", vec![g.bytes(33)]),
                    _ => ("control", vec![valid.clone()]),
                };
                bump(&format!("dgram_reply_{name}"));
                for w in wires {
                    let _ = usock.send_to(&w, from).await;
                }
                let mut got = Vec::new();
                while let Ok(Ok((n, _))) = tokio::time::timeout(Duration::from_millis(100), app.recv_from(&mut buf)).await {
                    got.push(buf[..n].to_vec());
                }
                if control && !got.iter().any(|d| d.ends_with(&reply)) {
                    notes.push(("service-down-after-replies/udp".into(), format!("after the hostile datagram replies a correct reply was not relayed to the application ({} datagrams arrived)", got.len())));
                }
            }
        }
        if client.is_finished() || !tcp_listening(CLIENT_PORT) {
            notes.push(("main-returned".into(), format!("client main finished={}, local listener bound={}", client.is_finished(), tcp_listening(CLIENT_PORT))));
        }
        (None, notes, counts)
    });
    let (startup, notes, counts) = out.result.clone();
    let mut v = Vec::new();
    if let Some(e) = startup {
        v.push(Violation::new("C07", format!("C07/hostile-server-startup/{cell}"), e));
    }
    for p in &out.panics {
        let sig = format!("C07/panic/{cell}/server-reply/{}", p.frame);
        if !v.iter().any(|x: &Violation| x.signature == sig) {
            v.push(Violation::new("C07", sig, format!("a reply of the server made the client panic (node {}): {} at {}", p.node, p.message, p.location)));
        }
    }
    for (oracle, detail) in &notes {
        if !v.iter().any(|x: &Violation| x.signature.contains(oracle.as_str())) {
            v.push(Violation::new("C07", format!("C07/{oracle}/{cell}"), detail.clone()));
        }
    }
    let total: u64 = counts.values().sum();
    let mut probes = counts.clone();
    probes.insert("hostile_replies".to_owned(), total);
    Outcome {
        violations: v,
        ev_hash: out.world.ev_hash,
        ev_count: out.world.ev_count,
        poll_hash: out.poll_hash,
        polls: out.polls,
        sim_ns: out.sim_ns,
        stats: crate::report::world_stats(&out.world),
        nontrivial: total > 0,
        case_hash: out.poll_hash ^ plan.seed.wrapping_mul(0x9E3779B97F4A7C15),
        probes,
        panics: out.panics,
        extra_evaluations: total,
        extra_cases: (0..total).map(|i| plan.seed.wrapping_mul(1_000_303).wrapping_add(i)).collect(),
    }
}

// ---------------------------------------------------------------- C11: the client's side of the packet-id rule

/// C11, "all sessions on client and server side": a reference *server* answers the real client's datagram session with
/// a scripted arrival order of (server session, packet id) pairs - two server sessions interleaved (a server that
/// restarted or whose association expired while stragglers of the old session are still in flight), duplicates, ids
/// behind the window, jumps. What reaches the application is compared, step by step, with the property's own
/// predicate kept per server session.
pub fn gen_c11_srv(seed: u64, thorough: bool) -> Plan {
    let mut g = Gen::new(seed, 111);
    let ss22: Vec<&str> = SS_CIPHERS.iter().copied().filter(|c| is_2022(c)).collect();
    let cipher = ss22[seed as usize % ss22.len()];
    let n_users = if supports_eih(cipher) && (seed / 4) % 2 == 1 { 2 } else { 0 };
    let mut config = gen_config(&mut g, Proto::Shadowsocks, cipher, Transport::Tcp, n_users);
    config.client_mode = "tcp_and_udp".into();
    // arrival order: (session 0/1, packet id)
    let n = if thorough { g.range(20, 120) } else { g.range(8, 40) } as usize;
    let mut next = [1u64, 1u64];
    let mut sent: [Vec<u64>; 2] = [Vec::new(), Vec::new()];
    let mut steps: Vec<(u8, u64)> = Vec::new();
    let mut cur = 0usize;
    for i in 0..n {
        // the second session appears after a while; then both interleave, the old one thinning out
        if i > 2 && g.chance(if next[1] == 1 { 20 } else { 35 }) {
            cur = 1 - cur;
        }
        let s = cur;
        let id = match g.below(10) {
            0 | 1 if !sent[s].is_empty() => *g.pick(&sent[s]),                   // duplicate
            2 if next[s] > 3 => next[s] - g.range(2, (next[s] - 1).min(40)),     // late, maybe new, maybe seen
            3 => {
                next[s] += g.range(2, 70);                                         // gap
                next[s]
            }
            4 if g.chance(20) => {
                next[s] += 8128 + g.range(0, 200);                                 // jump beyond the window
                next[s]
            }
            5 if next[s] > 8200 => next[s] - 8128 - g.range(0, 3),               // around the window edge
            _ => {
                next[s] += 1;
                next[s] - 1
            }
        };
        sent[s].push(id);
        steps.push((s as u8, id));
    }
    Plan {
        property: "C11".into(),
        scenario: "client-window".into(),
        seed,
        net_seed: g.next(),
        config,
        knobs: KnobsPlan::simple(),
        flows: vec![],
        extra: serde_json::json!({ "steps": steps, "sub_seed": g.next() }),
    }
}

pub fn execute_c11_srv(plan: &Plan) -> Outcome {
    let c = creds(&plan.config);
    let cell = format!("{}{}", plan.config.family(), if c.user_keys.is_empty() { "" } else { "+users" });
    let steps: Vec<(u8, u64)> = serde_json::from_value(plan.extra["steps"].clone()).unwrap_or_default();
    let mut g = Gen::new(plan.extra["sub_seed"].as_u64().unwrap_or(1), 112);
    let out = rt::run_sim(plan.seed, plan.net_seed, plan.knobs.to_knobs(), || async {
        let mut notes: Vec<(String, String)> = Vec::new();
        let Ok(usock) = UdpSocket::bind(server_addr()).await else { return (Some("harness server bind".to_owned()), notes, 0u64) };
        let _tcp = TcpListener::bind(server_addr()).await;
        let client = start_client_json(rt::NODE_CLIENT, plan.config.client_json("127.0.0.1", SERVER_PORT));
        tokio::task::yield_now().await;
        if !settle(|| crate::nodes::udp_bound(CLIENT_PORT)).await {
            return (Some(format!("client did not come up (finished={})", client.is_finished())), notes, 0);
        }
        let app = UdpSocket::bind(SocketAddr::new(IpAddr::V4(Ipv4Addr::LOCALHOST), 0)).await.unwrap();
        let target = crate::scen_udp::UdpTarget { ip: T_IP, port: T_PORT, name: None, replies: 1, reply_size: 0 };
        let cipher = plan.config.cipher.clone();
        let mut buf = vec![0u8; 65536];
        let _ = app.send_to(&crate::scen_udp::socks5_udp_wrap(&target, b"open-the-session"), SocketAddr::new(IpAddr::V4(Ipv4Addr::LOCALHOST), CLIENT_PORT)).await;
        let Ok(Ok((n, from))) = tokio::time::timeout(Duration::from_secs(2), usock.recv_from(&mut buf)).await else {
            return (Some("the client forwarded no datagram".to_owned()), notes, 0);
        };
        let pkt = buf[..n].to_vec();
        let ids: Option<(u64, Option<usize>)> = if refimpl::ss2022::is_aes(&cipher) {
            let eih = if c.user_keys.is_empty() { 0 } else { 1 };
            let body_keys = if c.user_keys.is_empty() { vec![c.psk.clone()] } else { c.user_keys.clone() };
            refimpl::ss2022::udp_open_aes(&cipher, &c.psk, &body_keys, eih, &pkt, false).ok().map(|(b, idx, _, _)| (b.session_id, if eih == 1 { Some(idx) } else { None }))
        } else {
            refimpl::ss2022::udp_open_chacha(&cipher, &c.psk, &pkt, false).ok().map(|(b, _)| (b.session_id, None))
        };
        let Some((csid, user)) = ids else { return (Some("the reference cannot open the client's datagram".to_owned()), notes, 0) };
        let sessions = [g.next() | 1, g.next() | 2];
        // the property's predicate, per server session
        let mut model: [(u64, std::collections::BTreeSet<u64>); 2] = [(0, Default::default()), (0, Default::default())];
        let mut compared = 0u64;
        for (k, (s, id)) in steps.iter().enumerate() {
            let s = (*s as usize).min(1);
            let payload = format!("step-{k}-session-{s}-id-{id}").into_bytes();
            let body = refimpl::ss2022::UdpBody { session_id: sessions[s], packet_id: *id, stream_type: 1, timestamp: unix_now(), client_session_id: Some(csid), padding: 0, addr: refimpl::Addr::V4(T_IP, T_PORT), payload: payload.clone() };
            let wire = if refimpl::ss2022::is_aes(&cipher) {
                let key = match user {
                    Some(u) => c.user_keys[u].clone(),
                    None => c.psk.clone(),
                };
                refimpl::ss2022::udp_packet_aes(&cipher, &[key], &body)
            } else {
                let mut n24 = [0u8; 24];
                g.fill(&mut n24);
                refimpl::ss2022::udp_packet_chacha(&cipher, &c.psk, &n24, &body)
            };
            let _ = usock.send_to(&wire, from).await;
            let mut got = 0;
            while let Ok(Ok((n, _))) = tokio::time::timeout(Duration::from_millis(50), app.recv_from(&mut buf)).await {
                if buf[..n].ends_with(&payload) {
                    got += 1;
                }
            }
            let (max, seen) = &mut model[s];
            let accept = *id < u64::MAX && (*id > *max || (*max - *id <= 8128 && !seen.contains(id)));
            if accept {
                seen.insert(*id);
                *max = (*max).max(*id);
            }
            compared += 1;
            if (got > 0) != accept || got > 1 {
                let what = if got > 0 { "delivered-but-must-be-refused" } else { "refused-but-must-be-delivered" };
                notes.push((what.to_owned(), format!("step {k} of {}: server session {} packet id {id} - the application received it {got} time(s), the rule says {} (highest id accepted so far in that session: {}, other session's: {})", steps.len(), s, if accept { "accept" } else { "refuse" }, model[s].0, model[1 - s].0)));
                break;
            }
        }
        (None, notes, compared)
    });
    let (startup, notes, compared) = out.result.clone();
    let mut v = Vec::new();
    if let Some(e) = startup {
        v.push(Violation::new("C11", format!("C11/client-window-startup/{cell}"), e));
    }
    for (oracle, detail) in &notes {
        v.push(Violation::new("C11", format!("C11/client-window/{oracle}/{cell}"), detail.clone()));
    }
    for p in &out.panics {
        v.push(Violation::new("C11", format!("C11/panic/{cell}/client-window/{}", p.frame), format!("panic in node {}: {} at {}", p.node, p.message, p.location)));
    }
    let mut probes = BTreeMap::new();
    probes.insert("client_window_ids_compared".to_owned(), compared);
    probes.insert("client_window_runs".to_owned(), 1);
    Outcome {
        violations: v,
        ev_hash: out.world.ev_hash,
        ev_count: out.world.ev_count,
        poll_hash: out.poll_hash,
        polls: out.polls,
        sim_ns: out.sim_ns,
        stats: crate::report::world_stats(&out.world),
        nontrivial: compared > 0,
        case_hash: out.poll_hash ^ plan.seed.wrapping_mul(0x9E3779B97F4A7C15),
        probes,
        panics: out.panics,
        extra_evaluations: compared,
        extra_cases: (0..compared).map(|i| plan.seed.wrapping_mul(1_000_231).wrapping_add(i)).collect(),
    }
}
