//! VMess AEAD: cmd-key, auth-id, nested-HMAC KDF, sealed request header,
//! response header, body chunks with masking / padding / authenticated length.
//! Where the "published specification" is v2ray's behaviour (authenticated
//! length keyed from the *request* key and IV in both directions) the
//! reference follows it; those points are listed as calibrated in DESIGN.md.

use sha2::Digest;
use sha3::digest::ExtendableOutput;
use sha3::digest::Update;
use sha3::digest::XofReader;

use crate::Addr;
use crate::Aead;
use crate::KeyNonce;

pub const OPT_CHUNK_STREAM: u8 = 1;
pub const OPT_CHUNK_MASKING: u8 = 4;
pub const OPT_GLOBAL_PADDING: u8 = 8;
pub const OPT_AUTH_LENGTH: u8 = 16;
pub const SEC_AES128GCM: u8 = 3;
pub const SEC_CHACHA20: u8 = 4;

pub fn parse_uuid(s: &str) -> Option<[u8; 16]> {
    let hex: String = s.chars().filter(|c| *c != '-').collect();
    if hex.len() != 32 {
        return None;
    }
    let mut out = [0u8; 16];
    for i in 0..16 {
        out[i] = u8::from_str_radix(&hex[2 * i..2 * i + 2], 16).ok()?;
    }
    Some(out)
}

pub fn cmd_key(uuid: &[u8; 16]) -> [u8; 16] {
    let mut h = md5::Md5::new();
    Digest::update(&mut h, uuid);
    Digest::update(&mut h, b"c48619fe-8f02-49e0-b9e9-edf763e17e21");
    h.finalize().into()
}

/// level 0 = SHA-256; level i = HMAC over level i-1 keyed with keys[i-1]
fn nested(keys: &[&[u8]], data: &[u8]) -> [u8; 32] {
    match keys.split_last() {
        None => sha2::Sha256::digest(data).into(),
        Some((key, inner)) => {
            let mut k = [0u8; 64];
            if key.len() > 64 {
                k[..32].copy_from_slice(&nested(inner, key));
            } else {
                k[..key.len()].copy_from_slice(key);
            }
            let mut ipad = Vec::with_capacity(64 + data.len());
            ipad.extend(k.iter().map(|b| b ^ 0x36));
            ipad.extend_from_slice(data);
            let ih = nested(inner, &ipad);
            let mut opad = Vec::with_capacity(96);
            opad.extend(k.iter().map(|b| b ^ 0x5c));
            opad.extend_from_slice(&ih);
            nested(inner, &opad)
        }
    }
}

pub fn kdf(key: &[u8], path: &[&[u8]]) -> [u8; 32] {
    let mut keys: Vec<&[u8]> = vec![b"VMess AEAD KDF"];
    keys.extend_from_slice(path);
    nested(&keys, key)
}

pub fn kdf16(key: &[u8], path: &[&[u8]]) -> [u8; 16] {
    let mut o = [0u8; 16];
    o.copy_from_slice(&kdf(key, path)[..16]);
    o
}

pub fn crc32(b: &[u8]) -> u32 {
    crc::Crc::<u32>::new(&crc::CRC_32_ISO_HDLC).checksum(b)
}

pub fn fnv1a32(b: &[u8]) -> u32 {
    let mut h: u32 = 2166136261;
    for x in b {
        h ^= *x as u32;
        h = h.wrapping_mul(16777619);
    }
    h
}

pub fn auth_id(cmd_key: &[u8; 16], time: i64, rand4: [u8; 4]) -> [u8; 16] {
    let mut b = [0u8; 16];
    b[..8].copy_from_slice(&time.to_be_bytes());
    b[8..12].copy_from_slice(&rand4);
    let c = crc32(&b[..12]);
    b[12..].copy_from_slice(&c.to_be_bytes());
    crate::aes_ecb_encrypt_block(&kdf16(cmd_key, &[b"AES Auth ID Encryption"]), &mut b);
    b
}

/// Returns (timestamp, random part) if the auth-id decrypts under this key with a valid checksum.
pub fn open_auth_id(cmd_key: &[u8; 16], id: &[u8; 16]) -> Option<(i64, [u8; 4])> {
    let mut b = *id;
    crate::aes_ecb_decrypt_block(&kdf16(cmd_key, &[b"AES Auth ID Encryption"]), &mut b);
    if crc32(&b[..12]).to_be_bytes() != b[12..] {
        return None;
    }
    Some((i64::from_be_bytes(b[..8].try_into().unwrap()), b[8..12].try_into().unwrap()))
}

#[derive(Clone, Debug)]
pub struct Request {
    pub body_iv: [u8; 16],
    pub body_key: [u8; 16],
    pub resp_auth: u8,
    pub options: u8,
    pub security: u8,
    /// 1 tcp, 2 udp
    pub command: u8,
    pub addr: Addr,
    pub padding: usize,
}

pub fn header_bytes(r: &Request) -> Vec<u8> {
    let mut h = vec![1u8];
    h.extend_from_slice(&r.body_iv);
    h.extend_from_slice(&r.body_key);
    h.push(r.resp_auth);
    h.push(r.options);
    h.push(((r.padding as u8) << 4) | r.security);
    h.push(0);
    h.push(r.command);
    h.extend(r.addr.vmess());
    h.extend(std::iter::repeat(0x77u8).take(r.padding));
    let f = fnv1a32(&h);
    h.extend_from_slice(&f.to_be_bytes());
    h
}

/// auth-id | AEAD(len) | nonce8 | AEAD(header)
pub fn seal_header(cmd_key: &[u8; 16], time: i64, rand4: [u8; 4], conn_nonce: [u8; 8], header: &[u8]) -> Vec<u8> {
    let id = auth_id(cmd_key, time, rand4);
    let lk = kdf16(cmd_key, &[b"VMess Header AEAD Key_Length", &id, &conn_nonce]);
    let li = kdf(cmd_key, &[b"VMess Header AEAD Nonce_Length", &id, &conn_nonce]);
    let hk = kdf16(cmd_key, &[b"VMess Header AEAD Key", &id, &conn_nonce]);
    let hi = kdf(cmd_key, &[b"VMess Header AEAD Nonce", &id, &conn_nonce]);
    let mut out = id.to_vec();
    out.extend(Aead::Aes128Gcm.seal(&lk, &li[..12], &id, &(header.len() as u16).to_be_bytes()));
    out.extend_from_slice(&conn_nonce);
    out.extend(Aead::Aes128Gcm.seal(&hk, &hi[..12], &id, header));
    out
}

#[derive(Clone, Debug)]
pub struct OpenedHeader {
    pub request: Request,
    pub auth_time: i64,
    pub auth_rand: [u8; 4],
    pub conn_nonce: [u8; 8],
    pub used: usize,
    pub user_index: usize,
}

/// Strict server-side open of a sealed request header at the head of `b` (None = need more bytes).
pub fn open_header(cmd_keys: &[[u8; 16]], now: i64, b: &[u8]) -> Result<Option<OpenedHeader>, String> {
    if b.len() < 16 + 18 + 8 + 16 {
        return Ok(None);
    }
    let id: [u8; 16] = b[..16].try_into().unwrap();
    let mut found = None;
    for (i, k) in cmd_keys.iter().enumerate() {
        if let Some((t, r)) = open_auth_id(k, &id) {
            if (t - now).abs() <= 120 {
                found = Some((i, *k, t, r));
                break;
            }
            return Err(format!("auth-id timestamp {t} is more than 120 s from {now}"));
        }
    }
    let (user_index, key, auth_time, auth_rand) = found.ok_or("auth-id matches no registered user")?;
    let conn_nonce: [u8; 8] = b[34..42].try_into().unwrap();
    let lk = kdf16(&key, &[b"VMess Header AEAD Key_Length", &id, &conn_nonce]);
    let li = kdf(&key, &[b"VMess Header AEAD Nonce_Length", &id, &conn_nonce]);
    let l = Aead::Aes128Gcm.open(&lk, &li[..12], &id, &b[16..34])?;
    let len = u16::from_be_bytes([l[0], l[1]]) as usize;
    if b.len() < 42 + len + 16 {
        return Ok(None);
    }
    let hk = kdf16(&key, &[b"VMess Header AEAD Key", &id, &conn_nonce]);
    let hi = kdf(&key, &[b"VMess Header AEAD Nonce", &id, &conn_nonce]);
    let h = Aead::Aes128Gcm.open(&hk, &hi[..12], &id, &b[42..42 + len + 16])?;
    if h.len() < 1 + 16 + 16 + 4 + 1 + 3 + 4 {
        return Err("short request header".into());
    }
    if h[0] != 1 {
        return Err(format!("version {}", h[0]));
    }
    let padding = (h[35] >> 4) as usize;
    let (addr, used) = Addr::parse_vmess(&h[38..])?;
    if h.len() != 38 + used + padding + 4 {
        return Err(format!("request header is {} bytes, its fields need {}", h.len(), 38 + used + padding + 4));
    }
    if fnv1a32(&h[..h.len() - 4]).to_be_bytes() != h[h.len() - 4..] {
        return Err("header checksum".into());
    }
    if h[37] != 1 && h[37] != 2 {
        return Err(format!("command {}", h[37]));
    }
    let request = Request { body_iv: h[1..17].try_into().unwrap(), body_key: h[17..33].try_into().unwrap(), resp_auth: h[33], options: h[34], security: h[35] & 0x0f, command: h[37], addr, padding };
    Ok(Some(OpenedHeader { request, auth_time, auth_rand, conn_nonce, used: 42 + len + 16, user_index }))
}

pub fn resp_key_iv(r: &Request) -> ([u8; 16], [u8; 16]) {
    let mut k = [0u8; 16];
    let mut i = [0u8; 16];
    k.copy_from_slice(&sha2::Sha256::digest(r.body_key)[..16]);
    i.copy_from_slice(&sha2::Sha256::digest(r.body_iv)[..16]);
    (k, i)
}

/// AEAD(len) | AEAD(V, opt, 0, 0)
pub fn response_header(r: &Request, resp_auth: u8, options: u8) -> Vec<u8> {
    let (k, i) = resp_key_iv(r);
    let lk = kdf16(&k, &[b"AEAD Resp Header Len Key"]);
    let li = kdf(&i, &[b"AEAD Resp Header Len IV"]);
    let hk = kdf16(&k, &[b"AEAD Resp Header Key"]);
    let hi = kdf(&i, &[b"AEAD Resp Header IV"]);
    let body = [resp_auth, options, 0, 0];
    let mut out = Aead::Aes128Gcm.seal(&lk, &li[..12], &[], &(body.len() as u16).to_be_bytes());
    out.extend(Aead::Aes128Gcm.seal(&hk, &hi[..12], &[], &body));
    out
}

/// A response header with caller-chosen plaintext (well sealed, possibly malformed inside: empty, one byte, long).
pub fn response_header_raw(r: &Request, body: &[u8]) -> Vec<u8> {
    let (k, i) = resp_key_iv(r);
    let lk = kdf16(&k, &[b"AEAD Resp Header Len Key"]);
    let li = kdf(&i, &[b"AEAD Resp Header Len IV"]);
    let hk = kdf16(&k, &[b"AEAD Resp Header Key"]);
    let hi = kdf(&i, &[b"AEAD Resp Header IV"]);
    let mut out = Aead::Aes128Gcm.seal(&lk, &li[..12], &[], &(body.len() as u16).to_be_bytes());
    out.extend(Aead::Aes128Gcm.seal(&hk, &hi[..12], &[], body));
    out
}

/// Strict client-side open of the response header (None = need more bytes). Returns (V, options, bytes used).
pub fn open_response_header(r: &Request, b: &[u8]) -> Result<Option<(u8, u8, usize)>, String> {
    if b.len() < 18 {
        return Ok(None);
    }
    let (k, i) = resp_key_iv(r);
    let lk = kdf16(&k, &[b"AEAD Resp Header Len Key"]);
    let li = kdf(&i, &[b"AEAD Resp Header Len IV"]);
    let l = Aead::Aes128Gcm.open(&lk, &li[..12], &[], &b[..18])?;
    let len = u16::from_be_bytes([l[0], l[1]]) as usize;
    if b.len() < 18 + len + 16 {
        return Ok(None);
    }
    let hk = kdf16(&k, &[b"AEAD Resp Header Key"]);
    let hi = kdf(&i, &[b"AEAD Resp Header IV"]);
    let h = Aead::Aes128Gcm.open(&hk, &hi[..12], &[], &b[18..18 + len + 16])?;
    if h.len() < 4 {
        return Err("short response header".into());
    }
    if h[0] != r.resp_auth {
        return Err(format!("response authentication byte {} does not match the request's {}", h[0], r.resp_auth));
    }
    Ok(Some((h[0], h[1], 18 + len + 16)))
}

fn chacha_key(k: &[u8]) -> Vec<u8> {
    let a: [u8; 16] = md5::Md5::digest(k).into();
    let b: [u8; 16] = md5::Md5::digest(a).into();
    let mut v = a.to_vec();
    v.extend_from_slice(&b);
    v
}

/// One direction of the body. `key`/`iv` are this direction's (request or response) key and IV;
/// `req_key`/`req_iv` are always the request's (authenticated length).
pub struct Body {
    pub aead: Aead,
    pub key: Vec<u8>,
    pub iv: [u8; 16],
    pub count: u16,
    pub options: u8,
    pub shake: Option<Box<dyn XofReader>>,
    pub len_key: Vec<u8>,
    pub len_iv: [u8; 16],
    pub len_count: u16,
    pub used: Vec<KeyNonce>,
    pub buf: Vec<u8>,
    /// decoder state: (padding, total size) of the chunk whose size field has been read
    pending: Option<(usize, usize)>,
    pending_padding: Option<usize>,
    /// plaintext payload length of every chunk (for limit checks)
    pub chunk_lens: Vec<usize>,
    /// byte ranges (stream offsets) of unauthenticated padding, for the tamper oracle
    pub padding_ranges: Vec<(usize, usize)>,
    pub consumed: usize,
}

impl Body {
    pub fn new(security: u8, options: u8, key: &[u8; 16], iv: &[u8; 16], req_key: &[u8; 16], req_iv: &[u8; 16]) -> Body {
        let (aead, k, lk) = if security == SEC_CHACHA20 {
            (Aead::ChaCha20Poly1305, chacha_key(key), chacha_key(&kdf16(req_key, &[b"auth_len"])))
        } else {
            (Aead::Aes128Gcm, key.to_vec(), kdf16(req_key, &[b"auth_len"]).to_vec())
        };
        let shake: Option<Box<dyn XofReader>> = if options & (OPT_CHUNK_MASKING | OPT_GLOBAL_PADDING) != 0 {
            let mut h = sha3::Shake128::default();
            h.update(iv);
            Some(Box::new(h.finalize_xof()))
        } else {
            None
        };
        Body { aead, key: k, iv: *iv, count: 0, options, shake, len_key: lk, len_iv: *req_iv, len_count: 0, used: Vec::new(), buf: Vec::new(), pending: None, pending_padding: None, chunk_lens: Vec::new(), padding_ranges: Vec::new(), consumed: 0 }
    }

    fn shake_u16(&mut self) -> u16 {
        let mut b = [0u8; 2];
        self.shake.as_mut().expect("shake").read(&mut b);
        u16::from_be_bytes(b)
    }

    fn nonce(count: u16, iv: &[u8; 16]) -> [u8; 12] {
        let mut n = [0u8; 12];
        n[..2].copy_from_slice(&count.to_be_bytes());
        n[2..].copy_from_slice(&iv[2..12]);
        n
    }

    fn next_padding(&mut self) -> usize {
        if self.options & OPT_GLOBAL_PADDING != 0 { (self.shake_u16() % 64) as usize } else { 0 }
    }

    /// size field | AEAD(payload) | padding   (payload <= `max` bytes per chunk)
    pub fn encode_chunk(&mut self, payload: &[u8]) -> Vec<u8> {
        let padding = self.next_padding();
        let mut out = Vec::new();
        if self.options & OPT_AUTH_LENGTH != 0 {
            let n = Self::nonce(self.len_count, &self.len_iv);
            self.len_count = self.len_count.wrapping_add(1);
            out.extend(self.aead.seal(&self.len_key, &n, &[], &((payload.len() + padding) as u16).to_be_bytes()));
        } else if self.options & OPT_CHUNK_MASKING != 0 {
            let m = self.shake_u16();
            out.extend_from_slice(&(m ^ (payload.len() + 16 + padding) as u16).to_be_bytes());
        } else {
            out.extend_from_slice(&((payload.len() + 16 + padding) as u16).to_be_bytes());
        }
        let n = Self::nonce(self.count, &self.iv);
        self.count = self.count.wrapping_add(1);
        out.extend(self.aead.seal(&self.key, &n, &[], payload));
        out.extend(std::iter::repeat(0xa5u8).take(padding));
        out
    }

    /// A chunk that is well-formed on the outside and wrong inside: the size field (sealed or masked as the options say)
    /// declares `declared(padding)` bytes to follow - the caller sees the padding this chunk draws, so it can declare less
    /// than the padding, less than padding + tag, zero, or far more than follows - and `body` is appended as it is.
    pub fn encode_chunk_declared(&mut self, declared: impl FnOnce(usize) -> u16, body: &[u8]) -> Vec<u8> {
        let padding = self.next_padding();
        let total = declared(padding);
        let mut out = Vec::new();
        if self.options & OPT_AUTH_LENGTH != 0 {
            let n = Self::nonce(self.len_count, &self.len_iv);
            self.len_count = self.len_count.wrapping_add(1);
            out.extend(self.aead.seal(&self.len_key, &n, &[], &total.wrapping_sub(16).to_be_bytes()));
        } else if self.options & OPT_CHUNK_MASKING != 0 {
            let m = self.shake_u16();
            out.extend_from_slice(&(m ^ total).to_be_bytes());
        } else {
            out.extend_from_slice(&total.to_be_bytes());
        }
        self.count = self.count.wrapping_add(1);
        out.extend_from_slice(body);
        out
    }

    pub fn write(&mut self, data: &[u8], max_payload: usize) -> Vec<u8> {
        let mut out = Vec::new();
        for p in data.chunks(max_payload.max(1)) {
            out.extend(self.encode_chunk(p));
        }
        out
    }

    /// Strict incremental decoder: returns the chunk payloads that became complete.
    pub fn feed(&mut self, data: &[u8]) -> Result<Vec<Vec<u8>>, String> {
        self.buf.extend_from_slice(data);
        let mut out = Vec::new();
        loop {
            if self.pending.is_none() {
                if self.pending_padding.is_none() {
                    let p = self.next_padding();
                    self.pending_padding = Some(p);
                }
                let padding = self.pending_padding.unwrap();
                let size_len = if self.options & OPT_AUTH_LENGTH != 0 { 18 } else { 2 };
                if self.buf.len() < size_len {
                    break;
                }
                let field: Vec<u8> = self.buf.drain(..size_len).collect();
                self.consumed += size_len;
                let total = if self.options & OPT_AUTH_LENGTH != 0 {
                    let n = Self::nonce(self.len_count, &self.len_iv);
                    self.len_count = self.len_count.wrapping_add(1);
                    self.used.push(KeyNonce { key: self.len_key.clone(), nonce: n.to_vec() });
                    let pt = self.aead.open(&self.len_key, &n, &[], &field)?;
                    u16::from_be_bytes([pt[0], pt[1]]) as usize + 16
                } else if self.options & OPT_CHUNK_MASKING != 0 {
                    (self.shake_u16() ^ u16::from_be_bytes([field[0], field[1]])) as usize
                } else {
                    u16::from_be_bytes([field[0], field[1]]) as usize
                };
                if total < 16 + padding {
                    return Err(format!("chunk size {total} is smaller than tag + padding {padding}"));
                }
                self.pending = Some((padding, total));
                self.pending_padding = None;
            }
            let (padding, total) = self.pending.unwrap();
            if self.buf.len() < total {
                break;
            }
            let ct: Vec<u8> = self.buf.drain(..total - padding).collect();
            let n = Self::nonce(self.count, &self.iv);
            self.count = self.count.wrapping_add(1);
            self.used.push(KeyNonce { key: self.key.clone(), nonce: n.to_vec() });
            let pt = self.aead.open(&self.key, &n, &[], &ct)?;
            self.consumed += total - padding;
            self.buf.drain(..padding);
            self.padding_ranges.push((self.consumed, self.consumed + padding));
            self.consumed += padding;
            self.chunk_lens.push(pt.len());
            out.push(pt);
            self.pending = None;
        }
        Ok(out)
    }
}

pub fn request_body(r: &Request) -> Body {
    Body::new(r.security, r.options, &r.body_key, &r.body_iv, &r.body_key, &r.body_iv)
}

pub fn response_body(r: &Request) -> Body {
    let (k, i) = resp_key_iv(r);
    Body::new(r.security, r.options, &k, &i, &r.body_key, &r.body_iv)
}
