//! A man-in-the-middle node on the client <-> server link. The real client is
//! configured to dial the proxy, which dials the real server and forwards both
//! byte streams under a per-direction script: exact segmentation (cut points
//! with quiescence in between), bit flips, truncation, deletion, duplication,
//! insertion, stall, reset, reflection. It is the "link fault" injector of the
//! simulation and knows nothing about the protocols.

use std::net::IpAddr;
use std::net::Ipv4Addr;
use std::net::SocketAddr;
use std::sync::Arc;
use std::sync::Mutex;
use std::time::Duration;

use octo_squirrel::verif::net::TcpListener;
use octo_squirrel::verif::net::TcpStream;
use serde::Deserialize;
use serde::Serialize;
use tokio::io::AsyncReadExt;
use tokio::io::AsyncWriteExt;

use crate::plan::SERVER_PORT;

pub const PROXY_PORT: u16 = 8400;

#[derive(Clone, Debug, Default, Serialize, Deserialize, PartialEq)]
pub struct DirScript {
    /// forward boundaries (absolute offsets in the incoming stream); after each boundary the proxy lets the
    /// receiver go quiet for `gap_ms` simulated milliseconds
    #[serde(default)]
    pub cuts: Vec<u64>,
    #[serde(default)]
    pub gap_ms: u64,
    /// forward one byte at a time (each followed by the gap)
    #[serde(default)]
    pub bytewise: bool,
    /// (offset, xor mask)
    #[serde(default)]
    pub flips: Vec<(u64, u8)>,
    /// forward only this many bytes, then `after_truncate`
    #[serde(default)]
    pub truncate_at: Option<u64>,
    /// 0 = go silent (keep the connection open), 1 = close gracefully, 2 = reset
    #[serde(default)]
    pub after_truncate: u8,
    /// remove [from, to) from the stream
    #[serde(default)]
    pub delete: Option<(u64, u64)>,
    /// send [from, to) a second time right after `to`
    #[serde(default)]
    pub dup: Option<(u64, u64)>,
    /// insert these bytes before offset
    #[serde(default)]
    pub insert: Option<(u64, Vec<u8>)>,
    /// hold everything from this offset on for this many simulated ms
    #[serde(default)]
    pub stall: Option<(u64, u64)>,
    /// instead of forwarding, send this direction's bytes back to their sender
    #[serde(default)]
    pub reflect: bool,
    /// WebSocket carrier: understand the framing. After the HTTP upgrade the binary messages of this direction are
    /// taken apart and their payload stream is re-framed: 1 = every message is additionally cut at `cuts` (offsets in
    /// the payload stream; a protocol frame then straddles two messages), 2 = one message per payload byte,
    /// 3 = consecutive messages are merged into one (flushed when the sender goes quiet for `gap_ms`)
    #[serde(default)]
    pub ws_mode: u8,
    /// WebSocket carrier, message-level edits (any `ws_mode` != 0; message indices count the data messages of this
    /// direction from 0): (message, operation, argument) with operation 0 = drop, 1 = send twice, 2 = swap with the next
    /// one, 3 = flip a bit of payload byte `argument`, 4 = remove the first `argument` payload bytes, 5 = keep only the
    /// first `argument` payload bytes
    #[serde(default)]
    pub ws_ops: Vec<(u64, u8, u64)>,
    /// the first connection's bytes of this direction are withheld from their receiver; every later connection gets them
    /// instead of its own (sent when its own first bytes arrive, cut at `cuts`); its own bytes are dropped
    #[serde(default)]
    pub splice_first_conn: bool,
    /// with `splice_first_conn`: the later connection gets the withheld stream as soon as it is established, before its own
    /// sender has sent anything (an application that has opened its tunnel and is still silent)
    #[serde(default)]
    pub splice_at_once: bool,
    /// TLS carrier: the link node terminates TLS on both of its sockets (it holds the simulated certificate's key) and
    /// forwards the *plaintext* stream under this script; every forwarded piece is written and flushed on its own, i.e.
    /// travels as TLS record(s) of its own, so `cuts` are record boundaries as seen by the receiver's TLS layer
    #[serde(default)]
    pub tls: bool,
}

impl DirScript {
    pub fn is_plain(&self) -> bool {
        *self == DirScript::default()
    }
}

#[derive(Default, Debug)]
pub struct ProxyObs {
    /// bytes received from the client / from the server, per accepted connection
    pub c2s: Vec<Vec<u8>>,
    pub s2c: Vec<Vec<u8>>,
    pub accepted: usize,
    pub dial_failed: usize,
    /// first connection only: (simulated ns, input offset forwarded so far) after every forwarded piece
    pub fwd_log_c2s: Vec<(u64, u64)>,
    pub fwd_log_s2c: Vec<(u64, u64)>,
    /// when the link was cut (reset injected), per connection
    pub cut_ns: Vec<u64>,
    /// connection ids (client side, server side) of every proxied connection that is still being forwarded
    pub live: Vec<(usize, usize)>,
    /// WebSocket-aware forwarding: payload bytes of the data messages seen per direction (first connection), and the
    /// payload offsets at which the sender's own messages ended
    pub ws_payload_c2s: Vec<u8>,
    pub ws_payload_s2c: Vec<u8>,
    pub ws_bounds_c2s: Vec<u64>,
    pub ws_bounds_s2c: Vec<u64>,
    pub ws_messages_out: u64,
}

pub fn proxy_addr() -> SocketAddr {
    SocketAddr::new(IpAddr::V4(Ipv4Addr::LOCALHOST), PROXY_PORT)
}

/// Apply the byte-level edits of `s` to a chunk that starts at stream offset `base`; returns the pieces to write
/// (each piece is followed by a quiet gap if `gap` is set) and whether the stream ends after them.
fn transform(s: &DirScript, base: u64, chunk: &[u8], dup_buf: &mut Vec<u8>) -> (Vec<(Vec<u8>, bool)>, bool) {
    let mut out: Vec<(Vec<u8>, bool)> = Vec::new();
    let mut cur: Vec<u8> = Vec::new();
    let mut ended = false;
    for (i, &b) in chunk.iter().enumerate() {
        let off = base + i as u64;
        if let Some(t) = s.truncate_at {
            if off >= t {
                ended = true;
                break;
            }
        }
        if s.cuts.contains(&off) && off != 0 && !cur.is_empty() {
            out.push((std::mem::take(&mut cur), true));
        }
        if let Some((at, ins)) = &s.insert {
            if *at == off {
                cur.extend_from_slice(ins);
            }
        }
        if let Some((f, t)) = s.dup {
            if off == t {
                // the copy of [f, t) goes out right before the byte at t
                cur.extend_from_slice(dup_buf);
                dup_buf.clear();
            }
            if off >= f && off < t {
                dup_buf.push(b);
            }
        }
        let deleted = s.delete.is_some_and(|(f, t)| off >= f && off < t);
        if !deleted {
            let mut v = b;
            for (fo, m) in &s.flips {
                if *fo == off {
                    v ^= m;
                }
            }
            cur.push(v);
            if s.bytewise {
                out.push((std::mem::take(&mut cur), true));
            }
        }
    }
    if !cur.is_empty() {
        out.push((cur, false));
    }
    if let Some(t) = s.truncate_at {
        if base + chunk.len() as u64 >= t {
            ended = true;
        }
    }
    (out, ended)
}

async fn pump<R, W>(mut rd: R, mut wr: W, script: DirScript, rec: Arc<Mutex<ProxyObs>>, conn: usize, is_c2s: bool, mut back: Option<tokio::sync::mpsc::UnboundedSender<Vec<u8>>>) -> u8
where
    R: tokio::io::AsyncRead + Unpin,
    W: tokio::io::AsyncWrite + Unpin,
{
    let mut buf = vec![0u8; 65536];
    let mut base = 0u64;
    let mut dup_buf: Vec<u8> = Vec::new();
    loop {
        let n = match rd.read(&mut buf).await {
            Ok(0) => {
                let _ = wr.shutdown().await;
                return 1;
            }
            Ok(n) => n,
            Err(_) => return 2,
        };
        {
            let mut o = rec.lock().unwrap();
            let v = if is_c2s { &mut o.c2s } else { &mut o.s2c };
            v[conn].extend_from_slice(&buf[..n]);
        }
        if script.splice_first_conn && conn == 0 {
            // the first connection's bytes of this direction are held back (their receiver never sees them: a stream it has
            // already seen would be refused as a replay, which is another rule)
            base += n as u64;
            continue;
        }
        if script.splice_first_conn && conn >= 1 {
            if base == 0 && !script.splice_at_once {
                let other = {
                    let o = rec.lock().unwrap();
                    if is_c2s { o.c2s[0].clone() } else { o.s2c[0].clone() }
                };
                let plain = DirScript { cuts: script.cuts.clone(), ..Default::default() };
                let (pieces, _) = transform(&plain, 0, &other, &mut dup_buf);
                for (p, gap) in pieces {
                    if wr.write_all(&p).await.is_err() || wr.flush().await.is_err() {
                        return 2;
                    }
                    if gap {
                        tokio::time::sleep(Duration::from_millis(script.gap_ms.max(1))).await;
                    }
                }
            }
            base += n as u64;
            continue;
        }
        if script.reflect {
            if let Some(tx) = back.as_mut() {
                let _ = tx.send(buf[..n].to_vec());
            }
            base += n as u64;
            continue;
        }
        if let Some((at, ms)) = script.stall {
            if base <= at && base + n as u64 > at {
                let k = (at - base) as usize;
                let (pieces, _) = transform(&script, base, &buf[..k], &mut dup_buf);
                for (p, _) in pieces {
                    if wr.write_all(&p).await.is_err() {
                        return 2;
                    }
                }
                tokio::time::sleep(Duration::from_millis(ms)).await;
                let (pieces, _) = transform(&script, at, &buf[k..n], &mut dup_buf);
                for (p, _) in pieces {
                    if wr.write_all(&p).await.is_err() {
                        return 2;
                    }
                }
                base += n as u64;
                continue;
            }
        }
        let (pieces, ended) = transform(&script, base, &buf[..n], &mut dup_buf);
        let mut fwd = base;
        for (p, gap) in pieces {
            if wr.write_all(&p).await.is_err() || wr.flush().await.is_err() {
                return 2;
            }
            fwd += p.len() as u64;
            if gap {
                tokio::time::sleep(Duration::from_millis(script.gap_ms.max(1))).await;
            }
            if conn == 0 && gap {
                let t = crate::nodes::now_ns();
                let mut o = rec.lock().unwrap();
                if is_c2s { o.fwd_log_c2s.push((t, fwd)) } else { o.fwd_log_s2c.push((t, fwd)) }
            }
        }
        base += n as u64;
        if ended {
            match script.after_truncate {
                0 => {
                    std::future::pending::<()>().await;
                }
                1 => {
                    let _ = wr.shutdown().await;
                    // keep draining so that the sender is not blocked, but forward nothing
                    loop {
                        match rd.read(&mut buf).await {
                            Ok(0) | Err(_) => return 1,
                            Ok(_) => {}
                        }
                    }
                }
                _ => return 3,
            }
        }
    }
}

pub fn ws_frame(payload: &[u8], opcode: u8, masked: bool, key_seed: u64) -> Vec<u8> {
    let mut f = vec![0x80 | opcode];
    let m = if masked { 0x80 } else { 0 };
    if payload.len() < 126 {
        f.push(m | payload.len() as u8);
    } else if payload.len() <= 0xffff {
        f.push(m | 126);
        f.extend_from_slice(&(payload.len() as u16).to_be_bytes());
    } else {
        f.push(m | 127);
        f.extend_from_slice(&(payload.len() as u64).to_be_bytes());
    }
    if masked {
        let k = (key_seed.wrapping_mul(0x9E3779B97F4A7C15) >> 16) as u32 | 1;
        let key = k.to_be_bytes();
        f.extend_from_slice(&key);
        f.extend(payload.iter().enumerate().map(|(i, b)| b ^ key[i % 4]));
    } else {
        f.extend_from_slice(payload);
    }
    f
}

/// one complete frame at the start of `buf`: (total length, opcode, fin, unmasked payload)
pub fn ws_parse(buf: &[u8]) -> Option<(usize, u8, bool, Vec<u8>)> {
    if buf.len() < 2 {
        return None;
    }
    let fin = buf[0] & 0x80 != 0;
    let opcode = buf[0] & 0x0f;
    let masked = buf[1] & 0x80 != 0;
    let (len, mut at) = match buf[1] & 0x7f {
        126 => {
            if buf.len() < 4 {
                return None;
            }
            (u16::from_be_bytes([buf[2], buf[3]]) as usize, 4)
        }
        127 => {
            if buf.len() < 10 {
                return None;
            }
            (u64::from_be_bytes(buf[2..10].try_into().unwrap()) as usize, 10)
        }
        n => (n as usize, 2),
    };
    let mut key = [0u8; 4];
    if masked {
        if buf.len() < at + 4 {
            return None;
        }
        key.copy_from_slice(&buf[at..at + 4]);
        at += 4;
    }
    if buf.len() < at + len {
        return None;
    }
    let payload: Vec<u8> = buf[at..at + len].iter().enumerate().map(|(i, b)| if masked { b ^ key[i % 4] } else { *b }).collect();
    Some((at + len, opcode, fin, payload))
}

/// Byte ranges [from, to) of `stream` (one direction of a WebSocket connection, upgrade included) that are payload of
/// data frames - the only bytes of that stream the carried protocol authenticates.
pub fn ws_payload_ranges(stream: &[u8]) -> Vec<(u64, u64)> {
    let mut out = Vec::new();
    let Some(p) = stream.windows(4).position(|w| w == b"\r\n\r\n") else { return out };
    let mut at = p + 4;
    while let Some((used, opcode, _fin, payload)) = ws_parse(&stream[at..]) {
        if opcode <= 2 {
            out.push(((at + used - payload.len()) as u64, (at + used) as u64));
        }
        at += used;
    }
    out
}

/// WebSocket-aware pump: forwards the HTTP upgrade untouched, then re-frames the payload stream of the binary
/// messages as `script.ws_mode` says. Control frames are forwarded as they are (after everything held back).
async fn pump_ws<R, W>(mut rd: R, mut wr: W, script: DirScript, rec: Arc<Mutex<ProxyObs>>, conn: usize, is_c2s: bool) -> u8
where
    R: tokio::io::AsyncRead + Unpin,
    W: tokio::io::AsyncWrite + Unpin,
{
    let mut buf = vec![0u8; 65536];
    let mut inb: Vec<u8> = Vec::new();
    let mut http_done = false;
    let mut off = 0u64; // payload-stream offset of the next payload byte
    let mut held: Vec<u8> = Vec::new(); // ws_mode 3: payload waiting to be merged with what follows
    let mut midx = 0u64; // index of the next data message
    let mut swapped: Option<Vec<u8>> = None; // a message held back to go out after the next one
    let gap = Duration::from_millis(script.gap_ms.max(1));
    loop {
        let n = if script.ws_mode == 3 && !held.is_empty() {
            // merge mode: flush when the sender goes quiet
            match tokio::time::timeout(gap, rd.read(&mut buf)).await {
                Err(_) => {
                    let f = ws_frame(&held, 2, is_c2s, off);
                    held.clear();
                    if wr.write_all(&f).await.is_err() {
                        return 2;
                    }
                    rec.lock().unwrap().ws_messages_out += 1;
                    continue;
                }
                Ok(r) => r,
            }
        } else {
            rd.read(&mut buf).await
        };
        let n = match n {
            Ok(0) => {
                if !held.is_empty() {
                    let _ = wr.write_all(&ws_frame(&held, 2, is_c2s, off)).await;
                }
                let _ = wr.shutdown().await;
                return 1;
            }
            Ok(n) => n,
            Err(_) => return 2,
        };
        {
            let mut o = rec.lock().unwrap();
            let v = if is_c2s { &mut o.c2s } else { &mut o.s2c };
            v[conn].extend_from_slice(&buf[..n]);
        }
        inb.extend_from_slice(&buf[..n]);
        if !http_done {
            let Some(p) = inb.windows(4).position(|w| w == b"\r\n\r\n") else { continue };
            let head: Vec<u8> = inb.drain(..p + 4).collect();
            if wr.write_all(&head).await.is_err() {
                return 2;
            }
            http_done = true;
        }
        while let Some((used, opcode, fin, payload)) = ws_parse(&inb) {
            let raw: Vec<u8> = inb.drain(..used).collect();
            if opcode != 2 || !fin {
                // control frame (or a fragment, which the code under test never produces): as it is, after what was held
                if !held.is_empty() {
                    let f = ws_frame(&held, 2, is_c2s, off);
                    held.clear();
                    if wr.write_all(&f).await.is_err() {
                        return 2;
                    }
                }
                if wr.write_all(&raw).await.is_err() {
                    return 2;
                }
                continue;
            }
            let start = off;
            off += payload.len() as u64;
            // message-level edits
            let mut payload = payload;
            let mut copies = 1;
            let mut hold = false;
            for (_, op, arg) in script.ws_ops.iter().filter(|(m, _, _)| *m == midx) {
                match op {
                    0 => copies = 0,
                    1 => copies = 2,
                    2 => hold = true,
                    3 if !payload.is_empty() => {
                        let k = (*arg as usize) % payload.len();
                        payload[k] ^= 0x20;
                    }
                    4 => {
                        let k = (*arg as usize).min(payload.len());
                        payload.drain(..k);
                    }
                    5 => payload.truncate(*arg as usize),
                    _ => {}
                }
            }
            midx += 1;
            if hold {
                swapped = Some(payload);
                continue;
            }
            if copies == 0 {
                continue;
            }
            if copies == 2 {
                if wr.write_all(&ws_frame(&payload, 2, is_c2s, start ^ 0x55)).await.is_err() {
                    return 2;
                }
            }
            if conn == 0 {
                let mut o = rec.lock().unwrap();
                if is_c2s {
                    o.ws_payload_c2s.extend_from_slice(&payload);
                    o.ws_bounds_c2s.push(off);
                } else {
                    o.ws_payload_s2c.extend_from_slice(&payload);
                    o.ws_bounds_s2c.push(off);
                }
            }
            match script.ws_mode {
                3 => held.extend_from_slice(&payload),
                mode => {
                    let mut pieces: Vec<&[u8]> = Vec::new();
                    if mode == 2 {
                        pieces.extend(payload.chunks(1));
                    } else {
                        let mut from = 0usize;
                        for c in script.cuts.iter().filter(|c| **c > start && **c < off) {
                            let k = (*c - start) as usize;
                            if k > from {
                                pieces.push(&payload[from..k]);
                                from = k;
                            }
                        }
                        pieces.push(&payload[from..]);
                    }
                    let many = pieces.len() > 1;
                    let mut sent = start;
                    let after = swapped.take();
                    for p in pieces {
                        if wr.write_all(&ws_frame(p, 2, is_c2s, sent)).await.is_err() {
                            return 2;
                        }
                        sent += p.len() as u64;
                        rec.lock().unwrap().ws_messages_out += 1;
                        if many {
                            tokio::time::sleep(gap).await;
                            if conn == 0 {
                                let t = crate::nodes::now_ns();
                                let mut o = rec.lock().unwrap();
                                if is_c2s { o.fwd_log_c2s.push((t, sent)) } else { o.fwd_log_s2c.push((t, sent)) }
                            }
                        }
                    }
                    if let Some(a) = after {
                        if wr.write_all(&ws_frame(&a, 2, is_c2s, sent ^ 0xaa)).await.is_err() {
                            return 2;
                        }
                    }
                }
            }
        }
    }
}

/// Run the proxy until aborted. Every accepted connection gets the same pair of scripts.
pub async fn run_proxy(c2s: DirScript, s2c: DirScript, obs: Arc<Mutex<ProxyObs>>) {
    let listener = TcpListener::bind(proxy_addr()).await.expect("proxy bind");
    let mut conns = Vec::new();
    loop {
        let Ok((inbound, _)) = listener.accept().await else { return };
        let conn = {
            let mut o = obs.lock().unwrap();
            o.accepted += 1;
            o.c2s.push(Vec::new());
            o.s2c.push(Vec::new());
            o.c2s.len() - 1
        };
        // a link cut (reset script) is one event: once it has happened, later connections find a healed link
        let cut_done = !obs.lock().unwrap().cut_ns.is_empty();
        let is_cut = |s: &DirScript| s.truncate_at.is_some() && s.after_truncate == 2;
        let (c2s, s2c) = if cut_done && (is_cut(&c2s) || is_cut(&s2c)) { (DirScript::default(), DirScript::default()) } else { (c2s.clone(), s2c.clone()) };
        let obs = obs.clone();
        conns.push(crate::nodes::spawn_scoped(async move {
            let outbound = match TcpStream::connect(SocketAddr::new(IpAddr::V4(Ipv4Addr::LOCALHOST), SERVER_PORT)).await {
                Ok(s) => s,
                Err(_) => {
                    obs.lock().unwrap().dial_failed += 1;
                    return;
                }
            };
            // the proxy decides segmentation itself: whole writes, whole reads, roomy buffers on both of its sockets
            for s in [&inbound, &outbound] {
                s.set_own_styles(0, 0);
                s.set_peer_read_style(0);
                s.set_caps(1 << 22, 1 << 22);
            }
            let (in_cid, out_cid) = (inbound.conn_id(), outbound.conn_id());
            obs.lock().unwrap().live.push((in_cid, out_cid));
            if c2s.tls || s2c.tls {
                let Some((acceptor, connector)) = tls_ends() else {
                    obs.lock().unwrap().dial_failed += 1;
                    return;
                };
                let name = tokio_rustls::rustls::pki_types::ServerName::try_from("sim.test").unwrap();
                let (i, o) = tokio::join!(acceptor.accept(inbound), connector.connect(name, outbound));
                match (i, o) {
                    (Ok(i), Ok(o)) => forward(i, o, c2s, s2c, obs, conn).await,
                    _ => obs.lock().unwrap().dial_failed += 1,
                }
            } else {
                forward(inbound, outbound, c2s, s2c, obs, conn).await
            }
        }));
    }
}

/// TLS ends of the link node: it presents the simulated certificate to the client and trusts it when dialling the server
fn tls_ends() -> Option<(tokio_rustls::TlsAcceptor, tokio_rustls::TlsConnector)> {
    use tokio_rustls::rustls;
    use tokio_rustls::rustls::pki_types::pem::PemObject;
    let _ = rustls::crypto::aws_lc_rs::default_provider().install_default();
    let cert = rustls::pki_types::CertificateDer::from_pem_file(crate::plan::CERT).ok()?;
    let key = rustls::pki_types::PrivateKeyDer::from_pem_file(crate::plan::KEY).ok()?;
    let mut roots = rustls::RootCertStore::empty();
    roots.add(cert.clone()).ok()?;
    let client = rustls::ClientConfig::builder().with_root_certificates(roots).with_no_client_auth();
    let server = rustls::ServerConfig::builder().with_no_client_auth().with_single_cert(vec![cert], key).ok()?;
    Some((tokio_rustls::TlsAcceptor::from(Arc::new(server)), tokio_rustls::TlsConnector::from(Arc::new(client))))
}

async fn forward<I, O>(inbound: I, outbound: O, c2s: DirScript, s2c: DirScript, obs: Arc<Mutex<ProxyObs>>, conn: usize)
where
    I: tokio::io::AsyncRead + tokio::io::AsyncWrite + Unpin + Send + 'static,
    O: tokio::io::AsyncRead + tokio::io::AsyncWrite + Unpin + Send + 'static,
{
    {
        {
            let (ir, mut iw) = tokio::io::split(inbound);
            let (or, mut ow) = tokio::io::split(outbound);
            for (script, is_c2s) in [(&c2s, true), (&s2c, false)] {
                if script.splice_first_conn && script.splice_at_once && conn >= 1 {
                    let other = {
                        let o = obs.lock().unwrap();
                        if is_c2s { o.c2s[0].clone() } else { o.s2c[0].clone() }
                    };
                    let mut from = 0usize;
                    for &k in script.cuts.iter().map(|c| *c as usize).chain(std::iter::once(other.len())).collect::<Vec<_>>().iter() {
                        if k > from && k <= other.len() {
                            let r = if is_c2s { ow.write_all(&other[from..k]).await } else { iw.write_all(&other[from..k]).await };
                            if r.is_err() {
                                break;
                            }
                            let _ = if is_c2s { ow.flush().await } else { iw.flush().await };
                            tokio::time::sleep(Duration::from_millis(script.gap_ms.max(1))).await;
                            from = k;
                        }
                    }
                }
            }
            if c2s.reflect || s2c.reflect {
                // reflection: what the client sends comes back to the client (and/or the server's bytes to the server)
                let (tx_c, mut rx_c) = tokio::sync::mpsc::unbounded_channel::<Vec<u8>>();
                let (tx_s, mut rx_s) = tokio::sync::mpsc::unbounded_channel::<Vec<u8>>();
                let _a = crate::nodes::spawn_scoped(pump(ir, tokio::io::sink(), c2s.clone(), obs.clone(), conn, true, Some(tx_c)));
                let _b = crate::nodes::spawn_scoped(pump(or, tokio::io::sink(), s2c.clone(), obs.clone(), conn, false, Some(tx_s)));
                let mut iw = iw;
                let mut ow = ow;
                loop {
                    tokio::select! {
                        Some(v) = rx_c.recv() => { if c2s.reflect { if iw.write_all(&v).await.is_err() { break; } } else if ow.write_all(&v).await.is_err() { break; } }
                        Some(v) = rx_s.recv() => { if s2c.reflect { if ow.write_all(&v).await.is_err() { break; } } else if iw.write_all(&v).await.is_err() { break; } }
                        else => break,
                    }
                }
                return;
            }
            let ws = c2s.ws_mode != 0 || s2c.ws_mode != 0;
            let mut a = if ws { crate::nodes::spawn_scoped(pump_ws(ir, ow, c2s, obs.clone(), conn, true)) } else { crate::nodes::spawn_scoped(pump(ir, ow, c2s, obs.clone(), conn, true, None)) };
            let mut b = if ws { crate::nodes::spawn_scoped(pump_ws(or, iw, s2c, obs.clone(), conn, false)) } else { crate::nodes::spawn_scoped(pump(or, iw, s2c, obs.clone(), conn, false, None)) };
            let first = tokio::select! {
                r = &mut a.0 => (r, true),
                r = &mut b.0 => (r, false),
            };
            if matches!(first.0, Ok(3)) {
                // link cut: every connection on the link sees a reset, whatever was in flight is gone
                let mut o = obs.lock().unwrap();
                if o.cut_ns.is_empty() {
                    for (a, b) in o.live.clone() {
                        crate::nodes::reset_conn(a);
                        crate::nodes::reset_conn(b);
                    }
                    o.cut_ns.push(crate::nodes::now_ns());
                }
            } else if first.1 {
                let _ = (&mut b.0).await;
            } else {
                let _ = (&mut a.0).await;
            }
        }
    }
}
