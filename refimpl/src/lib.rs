//! Independent reference implementation of the wire formats octo-squirrel speaks,
//! written from the published specifications (DESIGN.md appendix B). It does
//! not depend on any crate of /repo; it shares only third-party cryptographic
//! primitives. Receivers are strict (they reject what the specifications
//! forbid); senders are parameterisable so that the same code doubles as the
//! adversary (chosen timestamps, type bytes, salts, malformed inner content).

pub mod ss;
pub mod ss2022;
pub mod trojan;
pub mod vmess;

/// SOCKS5-style address as it appears in Shadowsocks and Trojan.
#[derive(Clone, Debug, PartialEq, Eq)]
pub enum Addr {
    V4([u8; 4], u16),
    V6([u8; 16], u16),
    Name(Vec<u8>, u16),
}

impl Addr {
    pub fn port(&self) -> u16 {
        match self {
            Addr::V4(_, p) | Addr::V6(_, p) | Addr::Name(_, p) => *p,
        }
    }

    pub fn socks(&self) -> Vec<u8> {
        let mut v = Vec::new();
        match self {
            Addr::V4(ip, p) => {
                v.push(1);
                v.extend_from_slice(ip);
                v.extend_from_slice(&p.to_be_bytes());
            }
            Addr::Name(n, p) => {
                v.push(3);
                v.push(n.len() as u8);
                v.extend_from_slice(n);
                v.extend_from_slice(&p.to_be_bytes());
            }
            Addr::V6(ip, p) => {
                v.push(4);
                v.extend_from_slice(ip);
                v.extend_from_slice(&p.to_be_bytes());
            }
        }
        v
    }

    /// Parse at the head of `b`; returns the address and the bytes it used.
    pub fn parse_socks(b: &[u8]) -> Result<(Addr, usize), String> {
        let t = *b.first().ok_or("empty address")?;
        match t {
            1 => {
                if b.len() < 7 {
                    return Err("short ipv4 address".into());
                }
                Ok((Addr::V4([b[1], b[2], b[3], b[4]], u16::from_be_bytes([b[5], b[6]])), 7))
            }
            3 => {
                let l = *b.get(1).ok_or("short domain address")? as usize;
                if b.len() < 4 + l {
                    return Err("short domain address".into());
                }
                Ok((Addr::Name(b[2..2 + l].to_vec(), u16::from_be_bytes([b[2 + l], b[3 + l]])), 4 + l))
            }
            4 => {
                if b.len() < 19 {
                    return Err("short ipv6 address".into());
                }
                let mut ip = [0u8; 16];
                ip.copy_from_slice(&b[1..17]);
                Ok((Addr::V6(ip, u16::from_be_bytes([b[17], b[18]])), 19))
            }
            _ => Err(format!("address type {t}")),
        }
    }

    /// VMess layout: port, type (1 v4, 2 name, 3 v6), address
    pub fn vmess(&self) -> Vec<u8> {
        let mut v = self.port().to_be_bytes().to_vec();
        match self {
            Addr::V4(ip, _) => {
                v.push(1);
                v.extend_from_slice(ip);
            }
            Addr::Name(n, _) => {
                v.push(2);
                v.push(n.len() as u8);
                v.extend_from_slice(n);
            }
            Addr::V6(ip, _) => {
                v.push(3);
                v.extend_from_slice(ip);
            }
        }
        v
    }

    pub fn parse_vmess(b: &[u8]) -> Result<(Addr, usize), String> {
        if b.len() < 3 {
            return Err("short vmess address".into());
        }
        let port = u16::from_be_bytes([b[0], b[1]]);
        match b[2] {
            1 if b.len() >= 7 => Ok((Addr::V4([b[3], b[4], b[5], b[6]], port), 7)),
            2 if b.len() >= 4 && b.len() >= 4 + b[3] as usize => {
                let l = b[3] as usize;
                Ok((Addr::Name(b[4..4 + l].to_vec(), port), 4 + l))
            }
            3 if b.len() >= 19 => {
                let mut ip = [0u8; 16];
                ip.copy_from_slice(&b[3..19]);
                Ok((Addr::V6(ip, port), 19))
            }
            t => Err(format!("vmess address type {t} or short")),
        }
    }
}

/// AEAD primitives by cipher name.
#[derive(Clone, Copy, Debug, PartialEq, Eq)]
pub enum Aead {
    Aes128Gcm,
    Aes256Gcm,
    ChaCha20Poly1305,
    ChaCha8Poly1305,
    XChaCha20Poly1305,
    XChaCha8Poly1305,
}

impl Aead {
    pub fn key_len(self) -> usize {
        match self {
            Aead::Aes128Gcm => 16,
            _ => 32,
        }
    }

    pub fn seal(self, key: &[u8], nonce: &[u8], aad: &[u8], pt: &[u8]) -> Vec<u8> {
        use aes_gcm::aead::Aead as _;
        use aes_gcm::aead::KeyInit;
        use aes_gcm::aead::Payload;
        let p = Payload { msg: pt, aad };
        match self {
            Aead::Aes128Gcm => aes_gcm::Aes128Gcm::new_from_slice(key).unwrap().encrypt(nonce.into(), p).unwrap(),
            Aead::Aes256Gcm => aes_gcm::Aes256Gcm::new_from_slice(key).unwrap().encrypt(nonce.into(), p).unwrap(),
            Aead::ChaCha20Poly1305 => chacha20poly1305::ChaCha20Poly1305::new_from_slice(key).unwrap().encrypt(nonce.into(), p).unwrap(),
            Aead::ChaCha8Poly1305 => chacha20poly1305::ChaCha8Poly1305::new_from_slice(key).unwrap().encrypt(nonce.into(), p).unwrap(),
            Aead::XChaCha20Poly1305 => chacha20poly1305::XChaCha20Poly1305::new_from_slice(key).unwrap().encrypt(nonce.into(), p).unwrap(),
            Aead::XChaCha8Poly1305 => chacha20poly1305::XChaCha8Poly1305::new_from_slice(key).unwrap().encrypt(nonce.into(), p).unwrap(),
        }
    }

    pub fn open(self, key: &[u8], nonce: &[u8], aad: &[u8], ct: &[u8]) -> Result<Vec<u8>, String> {
        use aes_gcm::aead::Aead as _;
        use aes_gcm::aead::KeyInit;
        use aes_gcm::aead::Payload;
        if ct.len() < 16 {
            return Err("ciphertext shorter than a tag".into());
        }
        let p = Payload { msg: ct, aad };
        let r = match self {
            Aead::Aes128Gcm => aes_gcm::Aes128Gcm::new_from_slice(key).unwrap().decrypt(nonce.into(), p),
            Aead::Aes256Gcm => aes_gcm::Aes256Gcm::new_from_slice(key).unwrap().decrypt(nonce.into(), p),
            Aead::ChaCha20Poly1305 => chacha20poly1305::ChaCha20Poly1305::new_from_slice(key).unwrap().decrypt(nonce.into(), p),
            Aead::ChaCha8Poly1305 => chacha20poly1305::ChaCha8Poly1305::new_from_slice(key).unwrap().decrypt(nonce.into(), p),
            Aead::XChaCha20Poly1305 => chacha20poly1305::XChaCha20Poly1305::new_from_slice(key).unwrap().decrypt(nonce.into(), p),
            Aead::XChaCha8Poly1305 => chacha20poly1305::XChaCha8Poly1305::new_from_slice(key).unwrap().decrypt(nonce.into(), p),
        };
        r.map_err(|_| "authentication failed".to_owned())
    }
}

/// 96-bit little-endian counter nonce (Shadowsocks).
#[derive(Clone, Debug, Default)]
pub struct LeCounter(pub u128);

impl LeCounter {
    pub fn next(&mut self) -> [u8; 12] {
        let b = self.0.to_le_bytes();
        self.0 += 1;
        let mut n = [0u8; 12];
        n.copy_from_slice(&b[..12]);
        n
    }
}

/// What a sealed unit used: (key, nonce) – the C12 oracle collects these.
#[derive(Clone, Debug, PartialEq, Eq, PartialOrd, Ord)]
pub struct KeyNonce {
    pub key: Vec<u8>,
    pub nonce: Vec<u8>,
}

pub fn aes_ecb_encrypt_block(key: &[u8], block: &mut [u8; 16]) {
    use aes::cipher::BlockEncrypt;
    use aes::cipher::KeyInit;
    let b = aes::Block::from_mut_slice(block);
    if key.len() == 16 {
        aes::Aes128::new_from_slice(key).unwrap().encrypt_block(b);
    } else {
        aes::Aes256::new_from_slice(key).unwrap().encrypt_block(b);
    }
}

pub fn aes_ecb_decrypt_block(key: &[u8], block: &mut [u8; 16]) {
    use aes::cipher::BlockDecrypt;
    use aes::cipher::KeyInit;
    let b = aes::Block::from_mut_slice(block);
    if key.len() == 16 {
        aes::Aes128::new_from_slice(key).unwrap().decrypt_block(b);
    } else {
        aes::Aes256::new_from_slice(key).unwrap().decrypt_block(b);
    }
}
