//! Harness-written nodes of the simulated system: the real client and server
//! (their real `main()`), scripted local applications and scripted targets.

use std::net::IpAddr;
use std::net::Ipv4Addr;
use std::net::SocketAddr;
use std::sync::Arc;
use std::sync::Mutex;
use std::time::Duration;

use octo_squirrel::verif::net::TcpListener;
use octo_squirrel::verif::net::TcpStream;
use octo_squirrel::verif::world;
use tokio::io::AsyncReadExt;
use tokio::io::AsyncWriteExt;
use tokio::sync::watch;
use tokio::task::JoinHandle;

use crate::plan::*;
use crate::rt;

pub fn client_addr() -> SocketAddr {
    SocketAddr::new(IpAddr::V4(Ipv4Addr::LOCALHOST), CLIENT_PORT)
}

pub fn server_addr() -> SocketAddr {
    SocketAddr::new(IpAddr::V4(Ipv4Addr::LOCALHOST), SERVER_PORT)
}

/// Yield to the scheduler until `cond` holds (at most `max_yields` times, then let simulated time pass).
pub async fn settle(mut cond: impl FnMut() -> bool) -> bool {
    for i in 0..200 {
        if cond() {
            return true;
        }
        if i < 50 {
            tokio::task::yield_now().await;
        } else {
            tokio::time::sleep(Duration::from_millis(10)).await;
        }
    }
    cond()
}

pub fn tcp_listening(port: u16) -> bool {
    world::with(|w| w.listeners.iter().any(|l| l.open && l.addr.port() == port))
}

pub fn udp_bound(port: u16) -> bool {
    world::with(|w| w.udp.iter().any(|s| s.open && s.addr.port() == port))
}

pub struct Mains {
    pub server: JoinHandle<anyhow::Result<()>>,
    pub client: JoinHandle<anyhow::Result<()>>,
}

/// Start the real server `main()` with this configuration.
pub fn start_server_json(json: String) -> JoinHandle<anyhow::Result<()>> {
    world::with(|w| w.server_config = Some(json));
    rt::spawn_as(rt::NODE_SERVER, async { octo_squirrel_server::server::main().await })
}

/// Start the real client `main()` with this configuration.
pub fn start_client_json(node: u8, json: String) -> JoinHandle<anyhow::Result<()>> {
    world::with(|w| w.client_config = Some(json));
    rt::spawn_as(node, async { octo_squirrel_client::client::main().await })
}

/// Start server and client and wait until their listeners are bound. Returns an error string if one of them is not up.
pub async fn start_system(cfg: &Config, client_server_host: &str, client_server_port: u16) -> Result<Mains, String> {
    let server = start_server_json(cfg.server_json());
    // the configs are taken by the first poll of each main; let the server take its own first
    tokio::task::yield_now().await;
    let client = start_client_json(rt::NODE_CLIENT, cfg.client_json(client_server_host, client_server_port));
    tokio::task::yield_now().await;
    let want_server_tcp = matches!(cfg.server_mode.as_str(), "tcp" | "tcp_and_udp") || cfg.proto != Proto::Shadowsocks;
    let ok = settle(|| {
        (if cfg.transport == Transport::Quic { udp_bound(SERVER_PORT) } else { !want_server_tcp || tcp_listening(SERVER_PORT) })
            && (cfg.client_mode == "udp" || tcp_listening(CLIENT_PORT))
            && (cfg.client_mode == "tcp" || udp_bound(CLIENT_PORT))
    })
    .await;
    if !ok {
        return Err(format!(
            "system did not come up: server tcp={} client tcp={} client udp={} server_finished={} client_finished={}",
            tcp_listening(SERVER_PORT),
            tcp_listening(CLIENT_PORT),
            udp_bound(CLIENT_PORT),
            server.is_finished(),
            client.is_finished()
        ));
    }
    Ok(Mains { server, client })
}

/// Position-coded payload: every 4-byte word encodes (flow, direction, word index), so loss, duplication,
/// reordering or modification of any byte shows up as a mismatch at a known offset.
pub fn payload(flow: usize, dir: u8, offset: usize, len: usize) -> Vec<u8> {
    let mut v = Vec::with_capacity(len);
    let mut i = offset;
    while v.len() < len {
        let word = (i / 4) as u64;
        let mut z = word.wrapping_mul(0x9E37_79B9_7F4A_7C15) ^ ((flow as u64) << 40) ^ ((dir as u64) << 56) ^ 0x1357_9bdf;
        z = (z ^ (z >> 29)).wrapping_mul(0xBF58_476D_1CE4_E5B9);
        z ^= z >> 32;
        let b = z.to_le_bytes();
        v.push(b[i % 4]);
        i += 1;
    }
    v
}

#[derive(Clone, Debug, PartialEq, Eq, serde::Serialize)]
pub enum End {
    Eof,
    Err(String),
}

#[derive(Default, Debug)]
pub struct SideObs {
    pub first_write_ns: Option<u64>,
    /// when this side sent its FIN / RST (half-close, close or abort)
    pub fin_ns: Option<u64>,
    pub recv: Vec<u8>,
    /// (simulated ns, bytes received so far) after every read
    pub recv_log: Vec<(u64, usize)>,
    pub end: Option<End>,
    pub end_ns: u64,
    pub write_err: Option<String>,
    pub wrote: usize,
    pub script_done: bool,
    pub closed_ns: Option<u64>,
}

#[derive(Default, Debug)]
pub struct FlowObs {
    pub hs_err: Option<String>,
    pub hs_done: bool,
    pub hs_reply: Vec<u8>,
    pub app: SideObs,
    pub target: SideObs,
    pub target_accepts: usize,
}

pub type Shared<T> = Arc<Mutex<T>>;

/// A spawned helper task that dies with its owner (structured cancellation: aborting a node's task must not leave
/// its reader tasks – and the sockets they hold – behind).
pub struct AbortOnDrop<T>(pub JoinHandle<T>);

impl<T> Drop for AbortOnDrop<T> {
    fn drop(&mut self) {
        self.0.abort();
    }
}

pub fn spawn_scoped<F>(fut: F) -> AbortOnDrop<F::Output>
where
    F: std::future::Future + Send + 'static,
    F::Output: Send + 'static,
{
    AbortOnDrop(tokio::spawn(fut))
}

pub fn now_ns() -> u64 {
    world::with(|w| w.now_ns())
}

/// Read until EOF / error, recording into `which` side of the observation.
async fn pump_reads<R: tokio::io::AsyncRead + Unpin>(mut r: R, obs: Shared<FlowObs>, is_app: bool, tx: watch::Sender<usize>) {
    let mut buf = vec![0u8; 65536];
    loop {
        let res = r.read(&mut buf).await;
        let mut o = obs.lock().unwrap();
        let side = if is_app { &mut o.app } else { &mut o.target };
        match res {
            Ok(0) => {
                side.end = Some(End::Eof);
                side.end_ns = now_ns();
                let _ = tx.send(usize::MAX);
                return;
            }
            Ok(n) => {
                side.recv.extend_from_slice(&buf[..n]);
                let len = side.recv.len();
                side.recv_log.push((now_ns(), len));
                let _ = tx.send(side.recv.len());
            }
            Err(e) => {
                side.end = Some(End::Err(format!("{:?}", e.kind())));
                side.end_ns = now_ns();
                let _ = tx.send(usize::MAX);
                return;
            }
        }
    }
}

async fn run_ops<W: tokio::io::AsyncWrite + Unpin>(w: &mut W, ops: &[Op], flow: usize, dir: u8, prefix: &[u8], obs: &Shared<FlowObs>, is_app: bool) {
    let mut offset = 0usize;
    if !prefix.is_empty() {
        if let Err(e) = w.write_all(prefix).await {
            let mut o = obs.lock().unwrap();
            let side = if is_app { &mut o.app } else { &mut o.target };
            side.write_err = Some(format!("{:?}", e.kind()));
            return;
        }
        let mut o = obs.lock().unwrap();
        let side = if is_app { &mut o.app } else { &mut o.target };
        side.wrote += prefix.len();
        side.first_write_ns.get_or_insert(now_ns());
    }
    for op in ops {
        match op {
            Op::Pause(ms) => tokio::time::sleep(Duration::from_millis(*ms)).await,
            Op::Write(n) => {
                let data = payload(flow, dir, offset, *n);
                offset += n;
                let res = w.write_all(&data).await;
                let mut o = obs.lock().unwrap();
                let side = if is_app { &mut o.app } else { &mut o.target };
                match res {
                    Ok(()) => {
                        side.wrote += n;
                        side.first_write_ns.get_or_insert(now_ns());
                    }
                    Err(e) => {
                        side.write_err = Some(format!("{:?}", e.kind()));
                        return;
                    }
                }
            }
        }
    }
}

pub fn flow_host(f: &TcpFlow) -> String {
    match &f.target_name {
        Some(n) => n.clone(),
        None => Ipv4Addr::from(f.target_ip).to_string(),
    }
}

/// The bytes of the plain-HTTP request that opens an `HttpPlain` flow (it is part of the relayed stream).
pub fn http_plain_request(f: &TcpFlow, ix: usize) -> Vec<u8> {
    let host = flow_host(f);
    let hostport = if f.target_port == 80 { host.clone() } else { format!("{}:{}", host, f.target_port) };
    format!("POST http://{hostport}/flow/{ix}?a=b:c HTTP/1.1\r\nHost: {hostport}\r\nContent-Type: x/y\r\n\r\n").into_bytes()
}

/// Everything the application writes after the handshake (what the target must receive).
pub fn expected_up(f: &TcpFlow, ix: usize) -> Vec<u8> {
    let mut v = if f.hs == LocalHs::HttpPlain { http_plain_request(f, ix) } else { Vec::new() };
    v.extend(payload(ix, 0, 0, f.up_total()));
    v
}

pub fn expected_down(f: &TcpFlow, ix: usize) -> Vec<u8> {
    payload(ix, 1, 0, f.down_total())
}

async fn read_exact_or<R: tokio::io::AsyncRead + Unpin>(r: &mut R, n: usize) -> Result<Vec<u8>, String> {
    let mut buf = vec![0u8; n];
    match tokio::time::timeout(Duration::from_secs(60), r.read_exact(&mut buf)).await {
        Ok(Ok(_)) => Ok(buf),
        Ok(Err(e)) => Err(format!("handshake read failed: {:?}", e.kind())),
        Err(_) => Err("handshake reply timed out".to_owned()),
    }
}

/// Local handshake of a protocol-compliant application (waits for each reply before the next message).
pub async fn local_handshake(s: &mut TcpStream, f: &TcpFlow) -> Result<Vec<u8>, String> {
    let host = flow_host(f);
    match f.hs {
        LocalHs::Socks5V4 | LocalHs::Socks5Domain => {
            s.write_all(&[5, 1, 0]).await.map_err(|e| format!("write: {:?}", e.kind()))?;
            let r = read_exact_or(s, 2).await?;
            if r != [5, 0] {
                return Err(format!("unexpected method reply {r:?}"));
            }
            let mut req = vec![5, 1, 0];
            match (&f.hs, &f.target_name) {
                (LocalHs::Socks5Domain, Some(name)) => {
                    req.push(3);
                    req.push(name.len() as u8);
                    req.extend_from_slice(name.as_bytes());
                }
                _ => {
                    req.push(1);
                    req.extend_from_slice(&f.target_ip);
                }
            }
            req.extend_from_slice(&f.target_port.to_be_bytes());
            s.write_all(&req).await.map_err(|e| format!("write: {:?}", e.kind()))?;
            let head = read_exact_or(s, 4).await?;
            if head[0] != 5 || head[1] != 0 {
                return Err(format!("unexpected command reply {head:?}"));
            }
            let rest = match head[3] {
                1 => read_exact_or(s, 6).await?,
                4 => read_exact_or(s, 18).await?,
                3 => {
                    let l = read_exact_or(s, 1).await?;
                    read_exact_or(s, l[0] as usize + 2).await?
                }
                t => return Err(format!("unexpected address type {t} in reply")),
            };
            let mut all = r;
            all.extend(head);
            all.extend(rest);
            Ok(all)
        }
        LocalHs::HttpConnect => {
            let req = format!("CONNECT {host}:{p} HTTP/1.1\r\nHost: {host}:{p}\r\nProxy-Connection: keep-alive\r\n\r\n", p = f.target_port);
            s.write_all(req.as_bytes()).await.map_err(|e| format!("write: {:?}", e.kind()))?;
            let mut reply = Vec::new();
            loop {
                let b = read_exact_or(s, 1).await?;
                reply.push(b[0]);
                if reply.ends_with(b"\r\n\r\n") {
                    break;
                }
                if reply.len() > 4096 {
                    return Err("CONNECT reply too long".to_owned());
                }
            }
            if !reply.starts_with(b"HTTP/1.1 200") {
                return Err(format!("unexpected CONNECT reply {:?}", String::from_utf8_lossy(&reply)));
            }
            Ok(reply)
        }
        LocalHs::HttpPlain => Ok(Vec::new()),
    }
}

/// One scripted application flow against the client's local port.
pub async fn run_app(ix: usize, f: TcpFlow, obs: Shared<FlowObs>, atomic_handshake: bool) {
    tokio::time::sleep(Duration::from_millis(f.start_ms)).await;
    let mut s = match TcpStream::connect(client_addr()).await {
        Ok(s) => s,
        Err(e) => {
            obs.lock().unwrap().hs_err = Some(format!("connect to client failed: {:?}", e.kind()));
            return;
        }
    };
    let styles = s.styles();
    let mut caps = (0, 0);
    if atomic_handshake {
        s.set_own_styles(0, 0);
        s.set_peer_read_style(0);
        caps = s.set_caps(1 << 20, 1 << 20);
    }
    match local_handshake(&mut s, &f).await {
        Ok(reply) => {
            let mut o = obs.lock().unwrap();
            o.hs_done = true;
            o.hs_reply = reply;
        }
        Err(e) => {
            obs.lock().unwrap().hs_err = Some(e);
            return;
        }
    }
    let prefix = if f.hs == LocalHs::HttpPlain { http_plain_request(&f, ix) } else { Vec::new() };
    if atomic_handshake && f.hs != LocalHs::HttpPlain {
        s.set_own_styles(styles.0, styles.1);
        s.set_peer_read_style(styles.2);
        s.set_caps(caps.0, caps.1);
    }
    let cid = s.conn_id();
    let (tx, mut rx) = watch::channel(0usize);
    let (rd, mut wr) = tokio::io::split(s);
    let reader = spawn_scoped(pump_reads(rd, obs.clone(), true, tx));
    if f.hs == LocalHs::HttpPlain {
        // the request line is the handshake: it is delivered in one piece, the rest of the stream is not
        run_ops(&mut wr, &[], ix, 0, &prefix, &obs, true).await;
        if atomic_handshake {
            // let the client's single peek see the whole request before anything else happens on this connection
            let arrive = world::with(|w| w.knobs.latency_ns + w.knobs.jitter_ns);
            tokio::time::sleep(Duration::from_nanos(arrive) + Duration::from_millis(1)).await;
            world::with(|w| {
                let c = &mut w.conns[cid];
                c.pipes[0].read_style = styles.2;
                c.pipes[0].write_style = styles.1;
                c.pipes[1].read_style = styles.0;
                c.pipes[0].cap = caps.0;
                c.pipes[1].cap = caps.1;
            });
        }
        run_ops(&mut wr, &f.up, ix, 0, &[], &obs, true).await;
    } else {
        run_ops(&mut wr, &f.up, ix, 0, &[], &obs, true).await;
    }
    obs.lock().unwrap().app.script_done = true;
    match f.ending {
        Ending::AppAfterWrite => {
            // half-close (what a well-behaved application does): FIN now, keep reading until the proxy ends the flow.
            // A full close with answers still in flight is an abort (RST on the next segment) and belongs to C15.
            let _ = wr.shutdown().await;
            obs.lock().unwrap().app.fin_ns = Some(now_ns());
            let _ = rx.wait_for(|n| *n == usize::MAX).await;
        }
        Ending::AppAbandon => {}
        Ending::AppResetAfterWrite => abort_after_data(cid, 0),
        Ending::AppAfterAll => {
            let want = f.down_total();
            // slow is not stalled: wait as long as it takes; the driver decides when nothing moves any more
            let _ = rx.wait_for(|n| *n >= want).await;
        }
        Ending::AppReset => {
            reader.0.abort();
            let _ = (&mut { reader }.0).await;
            {
                let mut o = obs.lock().unwrap();
                o.app.closed_ns = Some(now_ns());
                o.app.fin_ns.get_or_insert(now_ns());
            }
            reset_conn(cid);
            drop(wr);
            return;
        }
        _ => {
            // keep the connection open until the run ends
            std::future::pending::<()>().await;
        }
    }
    reader.0.abort();
    let _ = (&mut { reader }.0).await;
    {
        let mut o = obs.lock().unwrap();
        o.app.closed_ns = Some(now_ns());
        o.app.fin_ns.get_or_insert(now_ns());
    }
    drop(wr);
}

/// the close that follows is an abort ordered after the data this side has written (`Pipe::fin_is_rst`)
pub fn abort_after_data(cid: usize, side: usize) {
    world::with(|w| w.conns[cid].pipes[side].fin_is_rst = true);
}

pub fn reset_conn(cid: usize) {
    // a harness-side handle is not needed for RST: mark the connection directly
    world::with(|w| {
        let c = &mut w.conns[cid];
        if !c.reset {
            c.reset = true;
            for p in c.pipes.iter_mut() {
                p.inflight.clear();
                p.inflight_bytes = 0;
                p.rbuf.clear();
                p.timer = None;
                if let Some(wk) = p.reader_waker.take() {
                    wk.wake();
                }
                if let Some(wk) = p.writer_waker.take() {
                    wk.wake();
                }
            }
            w.stats.tcp_resets += 1;
            w.log(9, cid as u64, 1);
        }
    });
}

pub fn target_addr(f: &TcpFlow) -> SocketAddr {
    SocketAddr::new(IpAddr::V4(Ipv4Addr::from(f.target_ip)), f.target_port)
}

/// One scripted target: listens on the flow's own address, serves every connection it gets (one is expected).
pub async fn run_target(ix: usize, f: TcpFlow, obs: Shared<FlowObs>) {
    if f.target_fault.is_some() {
        return;
    }
    let listener = match TcpListener::bind(target_addr(&f)).await {
        Ok(l) => l,
        Err(e) => {
            obs.lock().unwrap().hs_err = Some(format!("harness: target bind failed {e}"));
            return;
        }
    };
    let mut conns = Vec::new();
    loop {
        let Ok((s, _)) = listener.accept().await else { return };
        let first = {
            let mut o = obs.lock().unwrap();
            o.target_accepts += 1;
            o.target_accepts == 1
        };
        if !first {
            // a second dial for the same flow is itself a violation; hold it open so it stays visible
            conns.push(spawn_scoped(async move {
                let _s = s;
                std::future::pending::<()>().await;
            }));
            continue;
        }
        let f = f.clone();
        let obs = obs.clone();
        conns.push(spawn_scoped(async move {
            let cid = s.conn_id();
            let (tx, mut rx) = watch::channel(0usize);
            let (rd, mut wr) = tokio::io::split(s);
            let reader = spawn_scoped(pump_reads(rd, obs.clone(), false, tx));
            let wait = f.target_waits_for.clamp(1, expected_up(&f, ix).len().max(1));
            let _ = rx.wait_for(|n| *n >= wait).await;
            run_ops(&mut wr, &f.down, ix, 1, &[], &obs, false).await;
            obs.lock().unwrap().target.script_done = true;
            match f.ending {
                Ending::TargetAfterWrite => {
                    let _ = wr.shutdown().await;
                    obs.lock().unwrap().target.fin_ns = Some(now_ns());
                    let _ = rx.wait_for(|n| *n == usize::MAX).await;
                }
                Ending::TargetAbandon => {}
                Ending::TargetResetAfterWrite => abort_after_data(cid, 1),
                Ending::TargetAfterAll => {
                    let want = expected_up(&f, ix).len();
                    // slow is not stalled: wait as long as it takes; the driver decides when nothing moves any more
            let _ = rx.wait_for(|n| *n >= want).await;
                }
                Ending::TargetReset => {
                    reader.0.abort();
                    let _ = (&mut { reader }.0).await;
                    {
                        let mut o = obs.lock().unwrap();
                        o.target.closed_ns = Some(now_ns());
                        o.target.fin_ns.get_or_insert(now_ns());
                    }
                    reset_conn(cid);
                    drop(wr);
                    return;
                }
                _ => {
                    std::future::pending::<()>().await;
                }
            }
            reader.0.abort();
            let _ = (&mut { reader }.0).await;
            {
                let mut o = obs.lock().unwrap();
                o.target.closed_ns = Some(now_ns());
                o.target.fin_ns.get_or_insert(now_ns());
            }
            drop(wr);
        }));
    }
}
