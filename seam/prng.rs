//! Tiny seeded PRNG (splitmix64). The seam cannot depend on crates that are not
//! already dependencies of `octo_squirrel`, and must never touch the seeded
//! `rand` thread RNG that the code under test draws from (that would couple
//! simulator decisions to the repo's own draws).

#[derive(Clone, Debug)]
pub struct Prng(pub u64);

impl Prng {
    pub fn new(seed: u64) -> Self {
        Prng(seed ^ 0x9E37_79B9_7F4A_7C15)
    }

    pub fn derive(seed: u64, a: u64, b: u64) -> Self {
        let mut p = Prng::new(seed);
        p.0 = p.0.wrapping_add(a.wrapping_mul(0xBF58_476D_1CE4_E5B9)).wrapping_add(b.wrapping_mul(0x94D0_49BB_1331_11EB));
        p.next_u64();
        p
    }

    pub fn next_u64(&mut self) -> u64 {
        self.0 = self.0.wrapping_add(0x9E37_79B9_7F4A_7C15);
        let mut z = self.0;
        z = (z ^ (z >> 30)).wrapping_mul(0xBF58_476D_1CE4_E5B9);
        z = (z ^ (z >> 27)).wrapping_mul(0x94D0_49BB_1331_11EB);
        z ^ (z >> 31)
    }

    /// uniform in 0..n (n > 0)
    pub fn below(&mut self, n: u64) -> u64 {
        if n == 0 { 0 } else { self.next_u64() % n }
    }

    /// uniform in lo..=hi
    pub fn range(&mut self, lo: u64, hi: u64) -> u64 {
        if hi <= lo { lo } else { lo + self.below(hi - lo + 1) }
    }

    pub fn permille(&mut self, p: u32) -> bool {
        p > 0 && self.below(1000) < p as u64
    }

    pub fn fill(&mut self, buf: &mut [u8]) {
        for chunk in buf.chunks_mut(8) {
            let v = self.next_u64().to_le_bytes();
            chunk.copy_from_slice(&v[..chunk.len()]);
        }
    }
}
