//! The simulated world: sockets, listeners, datagram queues, DNS zone, fault
//! rules, statistics and the event log. Thread-local, so socket handles are
//! plain ids (and therefore `Send`, which `tokio::spawn` in /repo requires).

use std::cell::Cell;
use std::cell::RefCell;
use std::collections::BTreeMap;
use std::collections::VecDeque;
use std::net::IpAddr;
use std::net::SocketAddr;
use std::pin::Pin;
use std::task::Waker;

use tokio::time::Instant;
use tokio::time::Sleep;

use super::prng::Prng;

/// Who owns a socket / runs a task. Set by the harness through the tokio task
/// hooks (a spawned task inherits the node of its spawner).
pub const NODE_HARNESS: u8 = 0;
pub const NODE_CLIENT: u8 = 1;
pub const NODE_SERVER: u8 = 2;
pub const NODE_CLIENT2: u8 = 3;

thread_local! {
    static WORLD: RefCell<Option<World>> = const { RefCell::new(None) };
    static CUR_NODE: Cell<u8> = const { Cell::new(NODE_HARNESS) };
}

pub fn current_node() -> u8 {
    CUR_NODE.with(|c| c.get())
}

pub fn set_current_node(n: u8) -> u8 {
    CUR_NODE.with(|c| c.replace(n))
}

pub fn install(world: World) {
    WORLD.with(|w| *w.borrow_mut() = Some(world));
}

pub fn uninstall() -> Option<World> {
    WORLD.with(|w| w.borrow_mut().take())
}

pub fn is_active() -> bool {
    WORLD.with(|w| w.borrow().is_some())
}

/// where the harness wants to be told the simulated time (it makes `std::time::Instant` follow it, see sim/src/clock.rs)
static CLOCK_SINK: std::sync::OnceLock<fn(u64)> = std::sync::OnceLock::new();

pub fn set_clock_sink(f: fn(u64)) {
    let _ = CLOCK_SINK.set(f);
}

pub fn with<R>(f: impl FnOnce(&mut World) -> R) -> R {
    WORLD.with(|w| {
        let mut guard = w.borrow_mut();
        let world = guard.as_mut().expect("simulated world is not installed");
        if let Some(sink) = CLOCK_SINK.get() {
            sink(world.now_ns());
        }
        f(world)
    })
}

/// hook H8: the packet id a new datagram session starts from (None outside a simulated world or when the run did not ask)
pub fn initial_packet_id(client: bool) -> Option<u64> {
    // one shot: the first session of the run starts there; the session that follows it starts where the code says
    try_with(|w| if client { w.initial_packet_id.0.take() } else { w.initial_packet_id.1.take() }).flatten()
}

pub fn try_with<R>(f: impl FnOnce(&mut World) -> R) -> Option<R> {
    WORLD.with(|w| match w.try_borrow_mut() {
        Ok(mut guard) => guard.as_mut().map(f),
        Err(_) => None,
    })
}

#[derive(Clone, Debug)]
pub struct Knobs {
    /// one-way latency of every TCP segment / datagram, nanoseconds
    pub latency_ns: u64,
    /// extra uniformly random latency per segment, nanoseconds
    pub jitter_ns: u64,
    /// 0 whole, 1 one byte, 2 1..=16, 3 1..=4096, 4 per-call mixture, 255 pick one of 0..=4 per pipe
    pub read_style: u8,
    /// 0 whole, 1 random partial, 2 tiny (1..=8), 255 pick per pipe
    pub write_style: u8,
    /// bytes a pipe may hold (in flight + unread)
    pub sndbuf: usize,
    /// probability (per mille) that a poll_read / poll_write returns a spurious Pending and self-wakes
    pub pending_pm: u32,
    /// datagram faults (apply to datagrams whose source or destination port is in `udp_fault_ports`; all if empty and rates > 0)
    pub udp_loss_pm: u32,
    pub udp_dup_pm: u32,
    pub udp_reorder_pm: u32,
    pub udp_reorder_max_ns: u64,
    pub udp_fault_ports: Vec<u16>,
    /// partition of the datagram link: every datagram to or from `udp_fault_ports` sent in [from, until) simulated ns is lost
    pub udp_partition_ns: (u64, u64),
}

impl Default for Knobs {
    fn default() -> Self {
        Knobs {
            latency_ns: 0,
            jitter_ns: 0,
            read_style: 0,
            write_style: 0,
            sndbuf: 256 * 1024,
            pending_pm: 0,
            udp_loss_pm: 0,
            udp_dup_pm: 0,
            udp_reorder_pm: 0,
            udp_reorder_max_ns: 0,
            udp_fault_ports: Vec::new(),
            udp_partition_ns: (0, 0),
        }
    }
}

#[derive(Clone, Copy, Debug, PartialEq, Eq)]
pub enum FaultKind {
    /// `accept()` returns EMFILE (the connection stays queued)
    AcceptErr,
    /// `connect()` is refused although a listener exists
    ConnectRefuse,
    /// `connect()` never completes (black hole); ends with ETIMEDOUT after 127 simulated seconds
    ConnectHang,
    /// UDP `bind()` fails with EMFILE
    UdpBindErr,
    /// UDP `send_to()` fails with ENOBUFS-like error
    UdpSendErr,
    /// DNS lookup fails although the name is in the zone
    DnsFail,
}

#[derive(Clone, Debug)]
pub struct FaultRule {
    pub kind: FaultKind,
    /// 0 = any port (listener port for AcceptErr, destination port for Connect*/UdpSendErr)
    pub port: u16,
    /// 255 = any node
    pub node: u8,
    pub remaining: u32,
    pub fired: u32,
}

pub struct Pipe {
    /// segments written but not yet deliverable
    pub inflight: VecDeque<(Instant, Vec<u8>)>,
    pub inflight_bytes: usize,
    /// deliverable bytes not yet read
    pub rbuf: VecDeque<u8>,
    pub last_deliver: Instant,
    /// writer called shutdown (or dropped): FIN becomes visible at this instant
    pub fin_at: Option<Instant>,
    pub reader_waker: Option<Waker>,
    pub writer_waker: Option<Waker>,
    pub timer: Option<Pin<Box<Sleep>>>,
    pub rng: Prng,
    pub read_style: u8,
    pub write_style: u8,
    pub cap: usize,
    pub written: u64,
    pub read: u64,
    pub last_pending_rd: bool,
    pub last_pending_wr: bool,
    /// the reading end has been dropped
    pub reader_gone: bool,
    /// when a write into a pipe whose reader is gone will start failing (the RST needs a round trip to come back;
    /// the first such write succeeds locally, exactly as on a real kernel)
    pub rst_at: Option<Instant>,
    pub harness_writer: bool,
    /// the first write on this pipe is accepted whole and the first read returns everything that has arrived
    /// (Shadowsocks 2022 requires salt + fixed header in the first read; the properties exempt that boundary)
    pub first_atomic: bool,
    /// the writer aborted its connection after writing (close with unread input: the kernel answers with RST): what it
    /// had put on the wire is still delivered in order, then the reader gets ECONNRESET instead of end-of-stream
    pub fin_is_rst: bool,
}

pub struct Conn {
    /// address of the connecting side
    pub a_addr: SocketAddr,
    /// address the connecting side dialled (the listener's address as seen by the dialler)
    pub b_addr: SocketAddr,
    /// pipes[0]: a -> b, pipes[1]: b -> a
    pub pipes: [Pipe; 2],
    /// end still held by somebody (side 0 = connector, side 1 = acceptor / backlog)
    pub open: [bool; 2],
    pub owner: [u8; 2],
    /// RST seen: all operations on both ends fail
    pub reset: bool,
    pub accepted: bool,
}

pub struct Listener {
    pub addr: SocketAddr,
    pub backlog: VecDeque<usize>,
    pub waker: Option<Waker>,
    pub owner: u8,
    pub open: bool,
    pub accepted: u64,
}

pub struct Dgram {
    pub at: Instant,
    pub seq: u64,
    pub from: SocketAddr,
    pub data: Vec<u8>,
}

pub struct UdpSock {
    pub addr: SocketAddr,
    pub queue: Vec<Dgram>,
    pub waker: Option<Waker>,
    pub timer: Option<Pin<Box<Sleep>>>,
    pub owner: u8,
    pub open: bool,
    pub sent: u64,
    pub received: u64,
}

#[derive(Clone, Debug)]
pub struct ConnectRec {
    pub t_ns: u64,
    pub node: u8,
    pub dst: SocketAddr,
    /// host name as handed to `connect((host, port))`, if it was a name
    pub name: Option<String>,
    pub ok: bool,
}

#[derive(Clone, Debug)]
pub struct UdpSendRec {
    pub t_ns: u64,
    pub node: u8,
    pub from: SocketAddr,
    pub to: SocketAddr,
    pub len: usize,
    /// 0 delivered, 1 dropped (loss), 2 no socket, 3 error injected, 4 oversize
    pub fate: u8,
    pub dup: bool,
}

#[derive(Clone, Debug)]
pub struct DnsRec {
    pub t_ns: u64,
    pub node: u8,
    pub name: String,
    pub ok: bool,
}

#[derive(Default, Clone, Debug)]
pub struct Stats {
    pub tcp_connects: u64,
    pub tcp_accepts: u64,
    pub tcp_reads: u64,
    pub tcp_short_reads: u64,
    pub tcp_writes: u64,
    pub tcp_partial_writes: u64,
    pub tcp_backpressure: u64,
    pub tcp_spurious_pending: u64,
    pub tcp_resets: u64,
    pub tcp_epipe: u64,
    pub tcp_delayed_segments: u64,
    pub udp_sent: u64,
    pub udp_lost: u64,
    pub udp_dup: u64,
    pub udp_reordered: u64,
    pub udp_no_socket: u64,
    pub udp_oversize: u64,
    pub udp_wrong_family: u64,
    pub udp_partitioned: u64,
    pub faults_fired: BTreeMap<&'static str, u64>,
}

pub struct World {
    pub net_seed: u64,
    pub knobs: Knobs,
    pub conns: Vec<Conn>,
    pub listeners: Vec<Listener>,
    pub udp: Vec<UdpSock>,
    pub next_port: u16,
    pub zone: BTreeMap<String, Option<IpAddr>>,
    pub faults: Vec<FaultRule>,
    pub connects: Vec<ConnectRec>,
    pub udp_sends: Vec<UdpSendRec>,
    pub dns_queries: Vec<DnsRec>,
    pub stats: Stats,
    pub start: Instant,
    pub epoch_unix: u64,
    pub clock_offset_s: i64,
    pub dgram_seq: u64,
    pub udp_rng: Prng,
    /// rolling hash over the event log (kind, ids, sizes, time) – determinism witness
    pub ev_hash: u64,
    pub ev_count: u64,
    pub client_config: Option<String>,
    pub server_config: Option<String>,
    /// connections dialled to one of these ports get `first_atomic` pipes
    pub first_atomic_ports: Vec<u16>,
    /// nodes that are out of descriptors for the moment: accept(), connect() (no socket to be had), datagram bind() and -
    /// through the harness's `open` interposition - file opens of these nodes' tasks fail with EMFILE until the node is taken
    /// off the list again
    /// (node, mask of the operations that find no descriptor: 1 = accept, 2 = connect, 4 = datagram bind, 8 = file open -
    /// which calls of a process at its limit fail depends on what was closed in between, so any subset is possible)
    pub fd_exhausted_nodes: Vec<(u8, u8)>,
    /// (node, limit): the node's descriptor limit (RLIMIT_NOFILE minus what the process needs for itself). While the node holds
    /// that many simulated sockets, accept(), connect() and datagram bind() fail with EMFILE - the exhaustion is then real,
    /// made by the node's own open sockets, and ends when it closes some
    pub fd_limits: Vec<(u8, usize)>,
    /// when set, every datagram handed to `send_to` is recorded as (from, to, bytes) – the wire sniffer of C12
    pub udp_capture: Option<Vec<(SocketAddr, SocketAddr, Vec<u8>)>>,
    /// in-path attacker: datagrams whose source or destination port is listed are not delivered but parked in `udp_held`
    /// (from, to, bytes) until the harness releases, replaces or drops them (`inject_datagram`)
    /// first packet id of new Shadowsocks 2022 datagram sessions (client side, server side); None = the code's own 0.
    /// Lets a run start a session a few ids before 2^64, where "a session ends rather than reuse a packet id" decides
    pub initial_packet_id: (Option<u64>, Option<u64>),
    /// one-way black hole: datagrams whose *destination* port is listed are lost (a peer that sends but never hears)
    pub udp_drop_to_ports: Vec<u16>,
    pub udp_hold_ports: Vec<u16>,
    pub udp_held: Vec<(SocketAddr, SocketAddr, Vec<u8>)>,
    pub dump_events: bool,
    pub frozen: bool,
}

impl World {
    pub fn new(net_seed: u64, knobs: Knobs) -> World {
        World {
            net_seed,
            knobs,
            conns: Vec::new(),
            listeners: Vec::new(),
            udp: Vec::new(),
            next_port: 40000,
            zone: BTreeMap::new(),
            faults: Vec::new(),
            connects: Vec::new(),
            udp_sends: Vec::new(),
            dns_queries: Vec::new(),
            stats: Stats::default(),
            start: Instant::now(),
            epoch_unix: 1_767_225_600 + (net_seed % 1_000_000),
            clock_offset_s: 0,
            dgram_seq: 0,
            udp_rng: Prng::derive(net_seed, 0x0dd, 0),
            ev_hash: 0xcbf29ce484222325,
            ev_count: 0,
            client_config: None,
            server_config: None,
            first_atomic_ports: Vec::new(),
            fd_exhausted_nodes: Vec::new(),
            fd_limits: Vec::new(),
            udp_capture: None,
            initial_packet_id: (None, None),
            udp_drop_to_ports: Vec::new(),
            udp_hold_ports: Vec::new(),
            udp_held: Vec::new(),
            dump_events: std::env::var_os("VERIF_EVLOG").is_some(),
            frozen: false,
        }
    }

    pub fn now_ns(&self) -> u64 {
        Instant::now().saturating_duration_since(self.start).as_nanos() as u64
    }

    pub fn log(&mut self, kind: u8, a: u64, b: u64) {
        if self.frozen {
            // the run is over: what follows is the runtime dropping its tasks, in an order that is tokio's business
            return;
        }
        let t = self.now_ns();
        if self.dump_events {
            eprintln!("EV {kind} {a} {b} {t}");
        }
        for v in [kind as u64, a, b, t] {
            self.ev_hash ^= v;
            self.ev_hash = self.ev_hash.wrapping_mul(0x100000001b3);
        }
        self.ev_count += 1;
    }

    pub fn alloc_port(&mut self) -> u16 {
        let p = self.next_port;
        self.next_port = if self.next_port >= 65000 { 40000 } else { self.next_port + 1 };
        p
    }

    /// the node has no descriptor to spare at the moment (counts as a fired fault)
    pub fn fd_exhausted(&mut self, node: u8, what: &'static str) -> bool {
        let bit = match what {
            "emfile_accept" => 1,
            "emfile_connect" => 2,
            "emfile_udp_bind" => 4,
            _ => 8,
        };
        let at_limit = bit != 8 && self.fd_limits.iter().any(|(n, limit)| *n == node && {
            let (s, l, u) = self.open_sockets(node);
            s + l + u >= *limit
        });
        if at_limit {
            *self.stats.faults_fired.entry("emfile_at_descriptor_limit").or_insert(0) += 1;
            return true;
        }
        if self.fd_exhausted_nodes.iter().any(|(n, m)| *n == node && m & bit != 0) {
            *self.stats.faults_fired.entry(what).or_insert(0) += 1;
            true
        } else {
            false
        }
    }

    /// Consume one matching fault rule, if any.
    pub fn take_fault(&mut self, kind: FaultKind, port: u16, node: u8) -> bool {
        for r in self.faults.iter_mut() {
            if r.kind == kind && r.remaining > 0 && (r.port == 0 || r.port == port) && (r.node == 255 || r.node == node) {
                r.remaining -= 1;
                r.fired += 1;
                let name = match kind {
                    FaultKind::AcceptErr => "accept_err",
                    FaultKind::ConnectRefuse => "connect_refuse",
                    FaultKind::ConnectHang => "connect_hang",
                    FaultKind::UdpBindErr => "udp_bind_err",
                    FaultKind::UdpSendErr => "udp_send_err",
                    FaultKind::DnsFail => "dns_fail",
                };
                *self.stats.faults_fired.entry(name).or_insert(0) += 1;
                return true;
            }
        }
        false
    }

    pub fn add_fault(&mut self, kind: FaultKind, port: u16, node: u8, count: u32) {
        self.faults.push(FaultRule { kind, port, node, remaining: count, fired: 0 });
    }

    /// `harness_writer`: the writing end belongs to the harness. Only harness writers get artificial partial
    /// writes and spurious write-`Pending`; a socket of the code under test refuses bytes only when the buffer is
    /// really full, as a kernel does (tokio-websockets' upgrade request is `write_all` without `flush`, which
    /// over tokio-rustls dead-locks on a mid-request `WouldBlock` – third-party behaviour a real send buffer never
    /// triggers, so the simulator must not either).
    pub fn new_pipe(&mut self, ordinal: u64, dir: u64, harness_writer: bool) -> Pipe {
        let mut rng = Prng::derive(self.net_seed, ordinal, dir);
        let mut read_style = self.knobs.read_style;
        if read_style == 255 {
            read_style = rng.below(5) as u8;
        }
        let mut write_style = self.knobs.write_style;
        if write_style == 255 {
            write_style = rng.below(3) as u8;
        }
        if !harness_writer {
            write_style = 0;
        }
        Pipe {
            inflight: VecDeque::new(),
            inflight_bytes: 0,
            rbuf: VecDeque::new(),
            last_deliver: Instant::now(),
            fin_at: None,
            reader_waker: None,
            writer_waker: None,
            timer: None,
            rng,
            read_style,
            write_style,
            cap: self.knobs.sndbuf.max(1),
            written: 0,
            read: 0,
            last_pending_rd: false,
            last_pending_wr: false,
            reader_gone: false,
            rst_at: None,
            harness_writer,
            first_atomic: false,
            fin_is_rst: false,
        }
    }

    /// Find a listener for a destination address (exact, or wildcard ip with the same port).
    pub fn find_listener(&self, dst: &SocketAddr) -> Option<usize> {
        let mut wildcard = None;
        for (i, l) in self.listeners.iter().enumerate() {
            if !l.open || l.addr.port() != dst.port() {
                continue;
            }
            if l.addr.ip() == dst.ip() {
                return Some(i);
            }
            if l.addr.ip().is_unspecified() && l.addr.is_ipv4() == dst.is_ipv4() {
                wildcard = Some(i);
            }
        }
        wildcard
    }

    pub fn find_udp(&self, dst: &SocketAddr) -> Option<usize> {
        let mut wildcard = None;
        for (i, s) in self.udp.iter().enumerate() {
            if !s.open || s.addr.port() != dst.port() {
                continue;
            }
            if s.addr.ip() == dst.ip() {
                return Some(i);
            }
            if s.addr.ip().is_unspecified() && s.addr.is_ipv4() == dst.is_ipv4() {
                wildcard = Some(i);
            }
        }
        wildcard
    }

    pub fn tcp_port_in_use(&self, addr: &SocketAddr) -> bool {
        self.listeners.iter().any(|l| {
            l.open && l.addr.port() == addr.port() && (l.addr.ip() == addr.ip() || l.addr.ip().is_unspecified() || addr.ip().is_unspecified())
        })
    }

    pub fn udp_port_in_use(&self, addr: &SocketAddr) -> bool {
        self.udp.iter().any(|l| {
            l.open && l.addr.port() == addr.port() && (l.addr.ip() == addr.ip() || l.addr.ip().is_unspecified() || addr.ip().is_unspecified())
        })
    }

    /// Open socket ends per node: (tcp stream ends, tcp listeners, udp sockets)
    pub fn open_sockets(&self, node: u8) -> (usize, usize, usize) {
        let mut streams = 0;
        for c in &self.conns {
            for side in 0..2 {
                // an un-accepted connection sitting in a backlog is not a descriptor of the listener's owner yet
                if c.open[side] && c.owner[side] == node && (side == 0 || c.accepted) {
                    streams += 1;
                }
            }
        }
        let listeners = self.listeners.iter().filter(|l| l.open && l.owner == node).count();
        let udp = self.udp.iter().filter(|s| s.open && s.owner == node).count();
        (streams, listeners, udp)
    }

    /// Drop every timer (must happen while the runtime is still alive).
    pub fn drop_timers(&mut self) {
        for c in self.conns.iter_mut() {
            for p in c.pipes.iter_mut() {
                p.timer = None;
                p.reader_waker = None;
                p.writer_waker = None;
            }
        }
        for s in self.udp.iter_mut() {
            s.timer = None;
            s.waker = None;
        }
        for l in self.listeners.iter_mut() {
            l.waker = None;
        }
    }
}
