//! Link-level scenarios: the real client and server with the man-in-the-middle
//! proxy between them.
//!
//! C04 – every single cut point of the client->server or server->client byte
//!       stream (plus byte-at-a-time and seeded multi-cut segmentations), the
//!       receiver going quiet after every piece, no EOF at the end.
//! C05 – every single-bit-position flip (sampled bits), truncation, deletion,
//!       duplication, insertion and reflection on the same streams.

use std::collections::BTreeMap;

use crate::nodes::*;
use crate::plan::*;
use crate::proxy::DirScript;
use crate::report::Outcome;
use crate::report::Violation;
use crate::rnd::Gen;
use crate::rt;
use crate::scen_tcp::*;

fn link_cells() -> Vec<(Proto, &'static str, usize)> {
    let mut v = Vec::new();
    for (p, c) in all_proto_ciphers() {
        v.push((p, c, 0));
        if p == Proto::Shadowsocks && supports_eih(c) {
            v.push((p, c, 2));
        }
    }
    v
}

fn small_ops(g: &mut Gen, n: usize) -> Vec<Op> {
    let mut ops = Vec::new();
    for i in 0..n {
        if i > 0 {
            ops.push(Op::Pause(20));
        }
        ops.push(Op::Write(*g.pick(&[1usize, 2, 17, 64, 150, 300]) + g.below(8) as usize));
    }
    ops
}

fn link_plan(prop: &str, scenario: &str, seed: u64, cells: &[(Proto, &'static str, usize)], transport: Transport) -> (Plan, Gen) {
    let mut g = Gen::new(seed, 4);
    let (proto, cipher, n_users) = cells[(seed as usize / 2) % cells.len()];
    let config = gen_config(&mut g, proto, cipher, transport, n_users);
    let hs = *g.pick(&[LocalHs::Socks5V4, LocalHs::Socks5Domain]);
    let mut f = gen_flow(&mut g, 0, hs, Ending::None, 1000);
    f.up = small_ops(&mut g, 3);
    f.down = small_ops(&mut g, 3);
    f.target_waits_for = 1;
    f.start_ms = 0;
    let plan = Plan {
        property: prop.into(),
        scenario: scenario.into(),
        seed,
        net_seed: g.next(),
        config,
        knobs: KnobsPlan::simple(),
        flows: vec![f],
        extra: serde_json::json!({ "dir": if seed % 2 == 0 { "c2s" } else { "s2c" } }),
    };
    (plan, g)
}

/// bytes of the first flight that Shadowsocks 2022 requires in one read (salt [+ identity headers] + sealed fixed header)
pub(crate) fn exempt_prefix(cfg: &Config, dir: &str) -> u64 {
    if cfg.proto != Proto::Shadowsocks || !is_2022(&cfg.cipher) {
        return 0;
    }
    let n = key_len(&cfg.cipher) as u64;
    if dir == "c2s" {
        let eih = if supports_eih(&cfg.cipher) { 16 * cfg.client_password.matches(':').count() as u64 } else { 0 };
        n + eih + 1 + 8 + 2 + 16
    } else {
        n + 1 + 8 + n + 2 + 16
    }
}

struct LinkRun {
    run: TcpRun,
    stream_len: u64,
    panics: Vec<rt::PanicRec>,
    poll_hash: u64,
    ev_hash: u64,
    ev_count: u64,
    polls: u64,
    sim_ns: u64,
    stats: BTreeMap<String, u64>,
    c2s: Vec<u8>,
    s2c: Vec<u8>,
    fwd_log: Vec<(u64, u64)>,
    connects_to_targets: usize,
    /// WebSocket-aware runs: length of the payload stream of the data messages in the scripted direction
    ws_payload_len: u64,
    ws_bounds: Vec<u64>,
    ws_messages_out: u64,
}

fn run_link(plan: &Plan, dir: &str, script: DirScript) -> LinkRun {
    let (c2s, s2c) = if dir == "c2s" { (script, DirScript::default()) } else { (DirScript::default(), script) };
    let out = rt::run_sim(plan.seed, plan.net_seed, plan.knobs.to_knobs(), || run_tcp_system_via(plan, true, Some((c2s, s2c))));
    let (run, pobs) = out.result;
    let s_c2s = pobs.c2s.first().cloned().unwrap_or_default();
    let s_s2c = pobs.s2c.first().cloned().unwrap_or_default();
    let stream_len = if dir == "c2s" { s_c2s.len() } else { s_s2c.len() } as u64;
    let connects_to_targets = out.world.connects.iter().filter(|c| c.node == rt::NODE_SERVER).count();
    LinkRun {
        run,
        stream_len,
        panics: out.panics,
        poll_hash: out.poll_hash,
        ev_hash: out.world.ev_hash,
        ev_count: out.world.ev_count,
        polls: out.polls,
        sim_ns: out.sim_ns,
        stats: crate::report::world_stats(&out.world),
        c2s: s_c2s,
        s2c: s_s2c,
        fwd_log: if dir == "c2s" { pobs.fwd_log_c2s } else { pobs.fwd_log_s2c },
        connects_to_targets,
        ws_payload_len: if dir == "c2s" { pobs.ws_payload_c2s.len() } else { pobs.ws_payload_s2c.len() } as u64,
        ws_bounds: if dir == "c2s" { pobs.ws_bounds_c2s } else { pobs.ws_bounds_s2c },
        ws_messages_out: pobs.ws_messages_out,
    }
}

fn add_stats(into: &mut BTreeMap<String, u64>, from: &BTreeMap<String, u64>) {
    for (k, v) in from {
        *into.entry(k.clone()).or_insert(0) += v;
    }
}

fn script_is_merge(cuts: &[u64], out: u64, inp: u64) -> bool {
    cuts.is_empty() && out < inp
}

// ---------------------------------------------------------------- C04

/// segmentation families of C04: on the plain tcp carrier (byte stream cut into TCP segments), on the WebSocket
/// carrier with the payload stream re-cut into WebSocket *messages* by the WebSocket-aware link node (ws-*), and on the
/// WebSocket carrier with the framed byte stream cut into TCP segments underneath the WebSocket layer (wstcp-*)
/// (tls-*: the link node terminates TLS and every piece travels as TLS record(s) of its own)
pub const C04_MODES: [&str; 11] = ["single", "bytewise", "multi", "ws-single", "ws-bytewise", "ws-merge", "wstcp-single", "wstcp-multi", "tls-single", "tls-multi", "tls-bytewise"];

pub fn gen_c04(seed: u64, thorough: bool) -> Plan {
    let cells = link_cells();
    // which segmentations this plan enumerates
    let round = seed as usize / (2 * cells.len());
    let mode = C04_MODES[round % C04_MODES.len()];
    let transport = if mode.starts_with("ws") { Transport::Ws } else if mode.starts_with("tls-") { Transport::Tls } else { Transport::Tcp };
    let (mut plan, mut g) = link_plan("C04", "link-seg", seed, &cells, transport);
    if mode == "ws-merge" {
        // messages of every size: the merged message of a bulk transfer is as large as the transfer (up to a few hundred KiB
        // here) - a stream is valid however much of it one WebSocket message carries
        let bulk = |g: &mut Gen| -> Vec<Op> { (0..g.range(2, 6)).flat_map(|_| [Op::Write(*g.pick(&[3_000usize, 16_000, 33_000, 60_000, 70_000]) + g.below(900) as usize), Op::Pause(1)]).collect() };
        if g.chance(60) {
            let (up, down) = (bulk(&mut g), bulk(&mut g));
            let f = &mut plan.flows[0];
            f.up = up;
            f.down = down;
        }
    }
    if mode != "ws-merge" && g.chance(30) {
        // the connection goes idle for 31-60 simulated seconds in the middle of the exchange: the pieces that follow the
        // silence are cut like all the others
        let idle = g.range(31_000, 60_000);
        let f = &mut plan.flows[0];
        for ops in [&mut f.up, &mut f.down] {
            if let Some(p) = ops.iter_mut().filter(|o| matches!(o, Op::Pause(_))).nth(1).or(None) {
                *p = Op::Pause(idle);
            } else if let Some(p) = ops.iter_mut().find(|o| matches!(o, Op::Pause(_))) {
                *p = Op::Pause(idle);
            }
        }
    }
    plan.extra["mode"] = mode.into();
    plan.extra["multi_samples"] = (if thorough { 400 } else { 40 }).into();
    plan.extra["pair_samples"] = (if thorough { 1500 } else { 0 }).into();
    plan.extra["sub_seed"] = g.next().into();
    plan
}

/// Compare one segmented run with the unsegmented expectation (the flow's own script).
fn check_seg(plan: &Plan, lr: &LinkRun, dir: &str, what: &str, exempt: bool) -> Vec<Violation> {
    let mut v = Vec::new();
    let cell = plan.config.label();
    let f = &plan.flows[0];
    let o = &lr.run.flows[0];
    let sig = |oracle: &str| format!("C04/{oracle}/{cell}/{dir}");
    for p in &lr.panics {
        v.push(Violation::new("C04", format!("C04/panic/{cell}/{dir}/{}", p.frame), format!("{what}: panic in node {}: {} at {}", p.node, p.message, p.location)));
    }
    if let Some(e) = &lr.run.startup_err {
        v.push(Violation::new("C04", sig("startup"), e.clone()));
        return v;
    }
    if let Some(e) = &o.hs_err {
        v.push(Violation::new("C04", sig("local-handshake"), format!("{what}: {e}")));
        return v;
    }
    let want_up = expected_up(f, 0);
    let want_down = expected_down(f, 0);
    if let Some(at) = first_mismatch(&o.target.recv, &want_up) {
        v.push(Violation::new("C04", sig("different-plaintext-up"), format!("{what}: target stream differs at offset {at}")));
    }
    if let Some(at) = first_mismatch(&o.app.recv, &want_down) {
        v.push(Violation::new("C04", sig("different-plaintext-down"), format!("{what}: application stream differs at offset {at}")));
    }
    if exempt {
        return v;
    }
    if o.target.recv.len() < want_up.len() {
        let oracle = if o.target.end.is_some() || o.app.end.is_some() { "error-up" } else { "stall-up" };
        v.push(Violation::new("C04", sig(oracle), format!("{what}: target received {} of {} bytes, target end {:?}, app end {:?} {}", o.target.recv.len(), want_up.len(), o.target.end, o.app.end, lr.run.stall_dump)));
    } else if o.app.recv.len() < want_down.len() {
        let oracle = if o.target.end.is_some() || o.app.end.is_some() { "error-down" } else { "stall-down" };
        v.push(Violation::new("C04", sig(oracle), format!("{what}: application received {} of {} bytes, target end {:?}, app end {:?} {}", o.app.recv.len(), want_down.len(), o.target.end, o.app.end, lr.run.stall_dump)));
    }
    if o.target_accepts > 1 || lr.connects_to_targets > 1 {
        v.push(Violation::new("C04", sig("dial-count"), format!("{what}: server dialled {} times", lr.connects_to_targets)));
    }
    v
}

pub fn execute_c04(plan: &Plan) -> Outcome {
    let dir = plan.extra["dir"].as_str().unwrap_or("c2s").to_owned();
    let mode = plan.extra["mode"].as_str().unwrap_or("single").to_owned();
    let cell = plan.config.label();
    let mut violations: Vec<Violation> = Vec::new();
    let mut probes = BTreeMap::new();
    let mut stats = BTreeMap::new();
    let mut extra_cases = Vec::new();
    let mut evals = 0u64;
    let mut sim_ns = 0;
    let mut polls = 0;
    let mut ev_count = 0;
    let mut panics = Vec::new();
    let mut push = |vs: Vec<Violation>, violations: &mut Vec<Violation>| {
        for v in vs {
            if !violations.iter().any(|x| x.signature == v.signature) {
                violations.push(v);
            }
        }
    };
    // baseline: unsegmented, must be clean (otherwise it is a C01 matter, reported here once)
    let ws_level = matches!(mode.as_str(), "ws-single" | "ws-bytewise" | "ws-merge");
    let tls_level = mode.starts_with("tls-");
    let base = run_link(plan, &dir, if ws_level { DirScript { ws_mode: 1, ..Default::default() } } else { DirScript { tls: tls_level, ..Default::default() } });
    // message-level runs count offsets in the payload stream of the WebSocket data messages, the others in the byte stream
    let n = if ws_level { base.ws_payload_len } else { base.stream_len };
    sim_ns += base.sim_ns;
    polls += base.polls;
    ev_count += base.ev_count;
    add_stats(&mut stats, &base.stats);
    let base_v = check_seg(plan, &base, &dir, "unsegmented baseline", false);
    let baseline_ok = base_v.is_empty();
    if !baseline_ok {
        let vs = base_v.into_iter().map(|mut v| { v.signature = v.signature.replacen("C04/", "C04/baseline-", 1); v }).collect();
        push(vs, &mut violations);
    }
    // under the WebSocket layer the first message is reassembled whatever the TCP segmentation is: nothing is exempt there
    let exempt = if mode.starts_with("wstcp") { 0 } else { exempt_prefix(&plan.config, &dir) };
    let only: Option<Vec<Vec<u64>>> = plan.extra.get("only_cuts").and_then(|v| serde_json::from_value(v.clone()).ok());
    let mut cases: Vec<(DirScript, String, bool)> = Vec::new();
    if let Some(list) = only {
        for cuts in list {
            let ex = cuts.iter().any(|c| *c < exempt);
            if ws_level {
                let ws_mode = if mode == "ws-merge" { 3 } else if cuts.is_empty() { 2 } else { 1 };
                cases.push((DirScript { cuts: cuts.clone(), gap_ms: if ws_mode == 3 { 60 } else { 200 }, ws_mode, ..Default::default() }, format!("websocket messages: mode {ws_mode}, cuts {cuts:?} of {n}"), ex || (ws_mode == 2 && exempt > 0)));
            } else if cuts.is_empty() {
                cases.push((DirScript { bytewise: true, gap_ms: 2, ..Default::default() }, "byte at a time".into(), false));
            } else {
                cases.push((DirScript { cuts: cuts.clone(), gap_ms: 200, ..Default::default() }, format!("cuts {cuts:?} of {n}"), ex));
            }
        }
    } else if baseline_ok && n > 1 {
        match mode.strip_prefix("tls-").unwrap_or(mode.as_str()) {
            "ws-single" => {
                for k in 1..n {
                    cases.push((DirScript { cuts: vec![k], gap_ms: 200, ws_mode: 1, ..Default::default() }, format!("websocket message cut at payload offset {k} of {n}"), k < exempt));
                }
                let mut g = Gen::new(plan.extra["sub_seed"].as_u64().unwrap_or(1), 19);
                for _ in 0..plan.extra["multi_samples"].as_u64().unwrap_or(20) {
                    let k = g.range(2, 10.min(n - 1));
                    let mut cuts: Vec<u64> = (0..k).map(|_| g.range(exempt.max(1), n - 1)).collect();
                    cuts.sort();
                    cuts.dedup();
                    cases.push((DirScript { cuts: cuts.clone(), gap_ms: 200, ws_mode: 1, ..Default::default() }, format!("websocket messages cut at payload offsets {cuts:?} of {n}"), false));
                }
            }
            "ws-bytewise" => {
                if exempt == 0 {
                    cases.push((DirScript { gap_ms: 2, ws_mode: 2, ..Default::default() }, "one websocket message per payload byte".into(), false));
                } else {
                    let cuts: Vec<u64> = (exempt..n).collect();
                    cases.push((DirScript { cuts, gap_ms: 2, ws_mode: 1, ..Default::default() }, format!("one websocket message per payload byte after offset {exempt}"), false));
                }
            }
            "ws-merge" => {
                cases.push((DirScript { gap_ms: 60, ws_mode: 3, ..Default::default() }, "consecutive websocket messages merged into one".into(), false));
                cases.push((DirScript { gap_ms: 5, ws_mode: 3, ..Default::default() }, "websocket messages merged while they follow within 5 ms".into(), false));
            }
            "single" | "wstcp-single" => {
                for k in 1..n {
                    cases.push((DirScript { cuts: vec![k], gap_ms: 200, ..Default::default() }, format!("cut {k} of {n}"), k < exempt));
                }
                let pairs = plan.extra["pair_samples"].as_u64().unwrap_or(0);
                let mut g = Gen::new(plan.extra["sub_seed"].as_u64().unwrap_or(1), 9);
                for _ in 0..pairs {
                    let a = g.range(1, n - 1);
                    let b = g.range(1, n - 1);
                    if a != b {
                        cases.push((DirScript { cuts: vec![a.min(b), a.max(b)], gap_ms: 200, ..Default::default() }, format!("cuts {:?} of {n}", [a.min(b), a.max(b)]), a.min(b) < exempt));
                    }
                }
            }
            "bytewise" => {
                if exempt == 0 {
                    cases.push((DirScript { bytewise: true, gap_ms: 2, ..Default::default() }, "byte at a time".into(), false));
                } else {
                    // byte at a time after the exempt first flight
                    let cuts: Vec<u64> = (exempt..n).collect();
                    cases.push((DirScript { cuts, gap_ms: 2, ..Default::default() }, format!("byte at a time after offset {exempt}"), false));
                }
            }
            _ => {
                let mut g = Gen::new(plan.extra["sub_seed"].as_u64().unwrap_or(1), 7);
                let samples = plan.extra["multi_samples"].as_u64().unwrap_or(20);
                for _ in 0..samples {
                    let k = g.range(2, 12.min(n - 1));
                    let mut cuts: Vec<u64> = (0..k).map(|_| g.range(exempt.max(1), n - 1)).collect();
                    cuts.sort();
                    cuts.dedup();
                    cases.push((DirScript { cuts: cuts.clone(), gap_ms: 200, ..Default::default() }, format!("cuts {cuts:?} of {n}"), false));
                }
            }
        }
    }
    let mut first_failing: BTreeMap<String, String> = BTreeMap::new();
    for (mut script, what, ex) in cases {
        script.tls = tls_level;
        let cuts = script.cuts.clone();
        let lr = run_link(plan, &dir, script);
        evals += 1;
        if tls_level {
            *probes.entry("segmentations_at_tls_record_level".to_owned()).or_insert(0) += 1;
        }
        sim_ns += lr.sim_ns;
        polls += lr.polls;
        ev_count += lr.ev_count;
        add_stats(&mut stats, &lr.stats);
        if ws_level {
            *probes.entry("websocket_messages_forwarded".to_owned()).or_insert(0) += lr.ws_messages_out;
            if script_is_merge(&cuts, lr.ws_messages_out, lr.ws_bounds.len() as u64) {
                *probes.entry("websocket_merges".to_owned()).or_insert(0) += 1;
            }
        }
        if (if ws_level { lr.ws_payload_len } else { lr.stream_len }) == n {
            extra_cases.push(lr.poll_hash ^ plan_shape_hash(plan) ^ cuts.iter().fold(0u64, |a, c| a.wrapping_mul(1099511628211) ^ c));
        } else {
            *probes.entry("stream_length_changed".to_owned()).or_insert(0) += 1;
        }
        if ex {
            *probes.entry("cuts_in_ss2022_exempt_first_flight".to_owned()).or_insert(0) += 1;
        }
        let vs = check_seg(plan, &lr, &dir, &what, ex);
        for v in &vs {
            first_failing.entry(v.signature.clone()).or_insert_with(|| format!("{cuts:?}"));
        }
        panics.extend(lr.panics.clone());
        push(vs, &mut violations);
    }
    probes.insert(format!("segmentations_{mode}"), evals);
    probes.insert("stream_bytes".to_owned(), n);
    for v in violations.iter_mut() {
        if let Some(c) = first_failing.get(&v.signature) {
            let cuts: Vec<u64> = serde_json::from_str(c).unwrap_or_default();
            v.patch = Some(serde_json::json!({ "only_cuts": [cuts] }));
        }
    }
    let _ = cell;
    Outcome {
        violations,
        ev_hash: base.ev_hash,
        ev_count,
        poll_hash: base.poll_hash,
        polls,
        sim_ns,
        stats,
        nontrivial: baseline_ok,
        case_hash: base.poll_hash ^ plan_shape_hash(plan),
        probes,
        panics,
        extra_evaluations: evals,
        extra_cases,
    }
}

// ---------------------------------------------------------------- C05

fn c05_cells() -> Vec<(Proto, &'static str, usize)> {
    link_cells().into_iter().filter(|(p, _, _)| *p != Proto::Trojan).collect()
}

pub fn gen_c05(seed: u64, thorough: bool) -> Plan {
    let cells = c05_cells();
    // odd rounds run over the WebSocket carrier: the mutation hits the framed byte stream, and the server-side adapter
    // there keeps polling its decoder after an error (which a plain `Framed` does not)
    let transport = if (seed as usize / (2 * cells.len())) % 2 == 1 { Transport::Ws } else { Transport::Tcp };
    let (mut plan, mut g) = link_plan("C05", "link-tamper", seed, &cells, transport);
    if transport == Transport::Ws && g.chance(50) {
        // tiny writes in the middle of the stream: a sealed length field and a sealed 2-byte payload have the same size
        let f = &mut plan.flows[0];
        for ops in [&mut f.up, &mut f.down] {
            if let Some(Op::Write(n)) = ops.iter_mut().filter(|o| matches!(o, Op::Write(_))).nth(1) {
                *n = 2;
            }
        }
    }
    plan.extra["flip_stride"] = (if thorough { 1 } else { 1 }).into();
    plan.extra["random_edits"] = (if thorough { 400 } else { 60 }).into();
    plan.extra["sub_seed"] = g.next().into();
    plan
}

/// released(k): how many plaintext bytes the receiver has released once the first k stream bytes have arrived and
/// it has gone quiet – measured with a byte-at-a-time run of the untampered stream.
fn release_curve(lr: &LinkRun, dir: &str) -> Vec<usize> {
    let o = &lr.run.flows[0];
    let log = if dir == "c2s" { &o.target.recv_log } else { &o.app.recv_log };
    let mut curve = vec![0usize; lr.stream_len as usize + 1];
    // fwd_log: (time after the quiet gap that follows byte k, k)
    for (t, k) in &lr.fwd_log {
        let rel = log.iter().filter(|(rt, _)| rt <= t).map(|(_, l)| *l).max().unwrap_or(0);
        if (*k as usize) < curve.len() {
            curve[*k as usize] = rel;
        }
    }
    // monotone fill (entries without a log record inherit the previous value)
    for i in 1..curve.len() {
        if curve[i] < curve[i - 1] {
            curve[i] = curve[i - 1];
        }
    }
    curve
}

pub fn execute_c05(plan: &Plan) -> Outcome {
    let dir = plan.extra["dir"].as_str().unwrap_or("c2s").to_owned();
    let cell = plan.config.label();
    let f = &plan.flows[0];
    let want = if dir == "c2s" { expected_up(f, 0) } else { expected_down(f, 0) };
    let mut violations: Vec<Violation> = Vec::new();
    let mut probes = BTreeMap::new();
    let mut stats = BTreeMap::new();
    let mut extra_cases = Vec::new();
    let mut evals = 0u64;
    let (mut sim_ns, mut polls, mut ev_count) = (0, 0, 0);
    let mut panics = Vec::new();
    // reference: byte-at-a-time delivery of the untampered stream gives the release curve
    let ws = plan.config.transport == Transport::Ws;
    // WebSocket carrier: the upgrade exchange is not paced (a slow upgrade would let the application's first writes pile up
    // and change what the client sends afterwards); an unpaced run shows where it ends and what the stream looks like
    let pre = if ws { Some(run_link(plan, &dir, DirScript::default())) } else { None };
    let upgrade_end = pre.as_ref().and_then(|p| {
        let st = if dir == "c2s" { &p.c2s } else { &p.s2c };
        st.windows(4).position(|w| w == b"\r\n\r\n").map(|i| i as u64 + 4)
    });
    let exempt = if ws { 0 } else { exempt_prefix(&plan.config, &dir) };
    let base_script = if let Some(u) = upgrade_end {
        DirScript { cuts: (u..u + 100_000).collect(), gap_ms: 2, ..Default::default() }
    } else if exempt == 0 {
        DirScript { bytewise: true, gap_ms: 2, ..Default::default() }
    } else {
        // Shadowsocks 2022: the first flight up to the sealed fixed header arrives whole, the rest byte by byte
        DirScript { cuts: (exempt..exempt + 100_000).collect(), gap_ms: 2, ..Default::default() }
    };
    let base = run_link(plan, &dir, base_script);
    let n = base.stream_len;
    let released_all = if dir == "c2s" { base.run.flows[0].target.recv.len() } else { base.run.flows[0].app.recv.len() };
    let same_stream = pre.as_ref().is_none_or(|p| p.stream_len == base.stream_len && upgrade_end.is_some());
    let baseline_ok = base.run.startup_err.is_none() && base.run.flows[0].hs_err.is_none() && released_all == want.len() && base.panics.is_empty() && same_stream;
    sim_ns += base.sim_ns;
    polls += base.polls;
    ev_count += base.ev_count;
    add_stats(&mut stats, &base.stats);
    let curve = release_curve(&base, &dir);
    if std::env::var_os("VERIF_DEBUG_CURVE").is_some() {
        let o = &base.run.flows[0];
        eprintln!("curve steps: {:?}", curve.iter().enumerate().filter(|(i, v)| *i == 0 || curve[*i - 1] != **v).collect::<Vec<_>>());
        eprintln!("fwd_log first/last: {:?} {:?} len {}", base.fwd_log.first(), base.fwd_log.last(), base.fwd_log.len());
        eprintln!("target recv_log: {:?}", o.target.recv_log);
        eprintln!("payload ranges: {:?}", crate::proxy::ws_payload_ranges(if dir == "c2s" { &base.c2s } else { &base.s2c }));
    }
    // VMess leaves its random padding unauthenticated by design, so "nothing after the tampered byte" is only
    // demanded where every byte is covered by a tag (Shadowsocks); VMess gets the prefix oracle
    let strict = plan.config.proto == Proto::Shadowsocks;
    // on the WebSocket carrier only the payload of the data frames is ciphertext of the carried protocol: the HTTP
    // upgrade and the frame headers are not authenticated by it (an edit there either breaks the WebSocket session or
    // changes nothing), so the release-curve oracle applies to edits inside payload bytes, the prefix oracle everywhere
    let payload_ranges = if plan.config.transport == Transport::Ws { Some(crate::proxy::ws_payload_ranges(if dir == "c2s" { &base.c2s } else { &base.s2c })) } else { None };
    let in_ciphertext = |at: u64| payload_ranges.as_ref().is_none_or(|r| r.iter().any(|(a, b)| at >= *a && at < *b));
    let mut cases: Vec<(DirScript, String, u64)> = Vec::new();
    let only: Option<Vec<DirScript>> = plan.extra.get("only_scripts").and_then(|v| serde_json::from_value(v.clone()).ok());
    if let Some(list) = only {
        for s in list {
            let at = s.flips.first().map(|f| f.0).or(s.truncate_at).or(s.delete.map(|d| d.0)).or(s.dup.map(|d| d.1)).or(s.insert.as_ref().map(|i| i.0)).unwrap_or(0);
            cases.push((s.clone(), format!("{s:?}"), at));
        }
    } else if baseline_ok && n > 2 {
        let mut g = Gen::new(plan.extra["sub_seed"].as_u64().unwrap_or(1), 11);
        for k in 0..n {
            let bit = 1u8 << g.below(8);
            cases.push((DirScript { flips: vec![(k, bit)], ..Default::default() }, format!("flip bit {bit:#04x} of byte {k}/{n}"), k));
        }
        for k in 1..n {
            if k % 3 == (plan.seed % 3) {
                cases.push((DirScript { truncate_at: Some(k), after_truncate: 1, ..Default::default() }, format!("truncate at {k}/{n} then close"), k));
            }
        }
        // the same flips with the link holding everything back for a while, so that the receiver gets the intact frames
        // before the tampered one and the tampered one in a single read (a decoder that handles several frames per call)
        // (on the WebSocket carrier the upgrade exchange goes through unhindered: holding it back would change what the client sends)
        let hold_from = upgrade_end.unwrap_or(0);
        for k in (hold_from..n).filter(|k| k % 2 == plan.seed % 2) {
            let bit = 1u8 << g.below(8);
            cases.push((DirScript { flips: vec![(k, bit)], stall: Some((hold_from, 400)), ..Default::default() }, format!("flip bit {bit:#04x} of byte {k}/{n}, stream delivered in one piece"), k));
        }
        let edits = plan.extra["random_edits"].as_u64().unwrap_or(20);
        for _ in 0..edits {
            let a = g.range(0, n - 2);
            let span = g.range(1, 80);
            let b = g.range(a + 1, (a + 1 + span).min(n));
            match g.below(4) {
                0 => cases.push((DirScript { delete: Some((a, b)), ..Default::default() }, format!("delete [{a},{b}) of {n}"), a)),
                1 => cases.push((DirScript { dup: Some((a, b)), ..Default::default() }, format!("duplicate [{a},{b}) of {n}"), b)),
                2 => {
                    let len = g.range(1, 40) as usize;
                    let ins = g.bytes(len);
                    cases.push((DirScript { insert: Some((a, ins)), ..Default::default() }, format!("insert garbage at {a}/{n}"), a));
                }
                _ => {
                    let cnt = g.range(2, 6);
                    let mut by_off: BTreeMap<u64, u8> = BTreeMap::new();
                    for _ in 0..cnt {
                        *by_off.entry(g.range(a, b.min(n - 1))).or_insert(0) ^= 1u8 << g.below(8);
                    }
                    by_off.retain(|_, m| *m != 0);
                    if by_off.is_empty() {
                        by_off.insert(a, 1);
                    }
                    let flips = by_off.into_iter().collect::<Vec<_>>();
                    let first = flips.iter().map(|f| f.0).min().unwrap();
                    cases.push((DirScript { flips, ..Default::default() }, format!("multi-byte edit in [{a},{b}) of {n}"), first));
                }
            }
        }
        // WebSocket carrier: edits at message level (the units an attacker on that carrier works with): every message dropped,
        // sent twice, swapped with its successor; one bit of a message flipped and the next message beheaded / cut down so
        // that what follows lines up again with a decoder that kept its state after the failure
        if let (Some(ranges), Some(p)) = (&payload_ranges, &pre) {
            let _ = p;
            let m = ranges.len() as u64;
            for j in 0..m {
                let (a, b) = ranges[j as usize];
                let mut push = |ops: Vec<(u64, u8, u64)>, what: String, at: u64| {
                    cases.push((DirScript { ws_mode: 1, ws_ops: ops, ..Default::default() }, what, at));
                };
                push(vec![(j, 0, 0)], format!("websocket message {j} of {m} dropped"), a);
                push(vec![(j, 1, 0)], format!("websocket message {j} of {m} sent twice"), b);
                if j + 1 < m {
                    push(vec![(j, 2, 0)], format!("websocket messages {j} and {} swapped", j + 1), a);
                    let flip_at = g.below((b - a).max(1));
                    for k in [2u64, 18, 20, 34] {
                        push(vec![(j, 3, flip_at), (j + 1, 4, k)], format!("websocket message {j} tampered, first {k} bytes of message {} removed", j + 1), a);
                        push(vec![(j, 3, flip_at), (j + 1, 5, k)], format!("websocket message {j} tampered, message {} cut down to its first {k} bytes", j + 1), a);
                    }
                    push(vec![(j, 3, flip_at), (j + 1, 0, 0)], format!("websocket message {j} tampered, message {} dropped", j + 1), a);
                }
            }
        }
        // legacy Shadowsocks AEAD has nothing that tells the two directions apart (a protocol limit the property
        // acknowledges); 2022 (type byte, request-salt echo) and VMess (distinct response keys) must refuse
        if plan.config.proto == Proto::Vmess || is_2022(&plan.config.cipher) {
            cases.push((DirScript { reflect: true, ..Default::default() }, "reflect the stream to its sender".into(), 0));
        }
    }
    // a second connection of the same client gets the first connection's stream in this direction (whole, and cut behind the
    // first flight and at drawn places): a response must be bound to its own request (2022: request salt, VMess: keys derived
    // from the request), a 2022 request is a replay. Legacy Shadowsocks has nothing that ties a stream to a connection.
    if plan.extra.get("only_scripts").is_none() && baseline_ok && n > 2 && (is_2022(&plan.config.cipher) || (plan.config.proto == Proto::Vmess && dir == "s2c")) && !ws {
        let mut g = Gen::new(plan.extra["sub_seed"].as_u64().unwrap_or(1), 12);
        let lo = exempt.max(1);
        let mut variants: Vec<Vec<u64>> = vec![vec![], vec![lo]];
        for _ in 0..4 {
            if n > lo + 2 {
                let mut c = vec![lo, g.range(lo + 1, n - 1)];
                if g.chance(50) {
                    c.push(g.range(lo + 1, n - 1));
                }
                c.sort();
                c.dedup();
                variants.push(c);
            }
        }
        for (i, cuts) in variants.into_iter().enumerate() {
            cases.push((DirScript { splice_first_conn: true, cuts: cuts.clone(), gap_ms: 100, ..Default::default() }, format!("the stream of an earlier connection spliced into a later one, cut at {cuts:?}"), 0));
            if dir == "s2c" && i < 3 {
                // ... and presented before the later connection's application has sent its first byte
                cases.push((DirScript { splice_first_conn: true, splice_at_once: true, cuts: cuts.clone(), gap_ms: 100, ..Default::default() }, format!("the stream of an earlier connection presented to a later one whose application is still silent, cut at {cuts:?}"), 0));
            }
        }
    }
    let mut first_failing: BTreeMap<String, DirScript> = BTreeMap::new();
    for (script, what, at) in cases {
        let reflect = script.reflect;
        if script.splice_first_conn {
            // two flows one after the other; the second one is the victim
            let mut two = plan.clone();
            let mut f1 = two.flows[0].clone();
            f1.start_ms = two.flows[0].start_ms + 4_000;
            if script.splice_at_once {
                // the application opens its tunnel and stays silent for three seconds
                f1.up.insert(0, Op::Pause(3_000));
            }
            // (a target of its own: another port of another host, addressed by its IPv4 address)
            f1.target_name = None;
            f1.target_ip[3] ^= 1;
            f1.target_port = if f1.target_port < 60_000 { f1.target_port + 1 } else { f1.target_port - 1 };
            if f1.hs == LocalHs::Socks5Domain {
                f1.hs = LocalHs::Socks5V4;
            }
            two.flows.push(f1);
            let lr = run_link(&two, &dir, script.clone());
            evals += 1;
            sim_ns += lr.sim_ns;
            polls += lr.polls;
            ev_count += lr.ev_count;
            add_stats(&mut stats, &lr.stats);
            *probes.entry("cross_connection_splices".to_owned()).or_insert(0) += 1;
            panics.extend(lr.panics.clone());
            if std::env::var_os("VERIF_DEBUG_SPLICE").is_some() {
                eprintln!("splice {cell} {dir} {what}: flows {} startup {:?} f0 app {} target {} | f1 hs_err {:?} app {} target {} s2c conns {:?}", lr.run.flows.len(), lr.run.startup_err, lr.run.flows[0].app.recv.len(), lr.run.flows[0].target.recv.len(), lr.run.flows.get(1).and_then(|o| o.hs_err.clone()), lr.run.flows.get(1).map(|o| o.app.recv.len()).unwrap_or(0), lr.run.flows.get(1).map(|o| o.target.recv.len()).unwrap_or(0), lr.stream_len);
            }
            if let Some(o1) = lr.run.flows.get(1) {
                let got = if dir == "c2s" { &o1.target.recv } else { &o1.app.recv };
                let want1 = if dir == "c2s" { expected_up(&two.flows[1], 1) } else { expected_down(&two.flows[1], 1) };
                if first_mismatch(got, &want1).is_some() {
                    let v = Violation::new("C05", format!("C05/spliced-from-another-connection-accepted/{cell}/{dir}"), format!("{what}: the second connection's receiver was handed {} bytes that its own sender never wrote", got.len()));
                    if !violations.iter().any(|x| x.signature == v.signature) {
                        first_failing.insert(v.signature.clone(), script.clone());
                        violations.push(v);
                    }
                }
            }
            for p in &lr.panics {
                let v = Violation::new("C05", format!("C05/panic/{cell}/{dir}/{}", p.frame), format!("{what}: panic in node {}: {} at {}", p.node, p.message, p.location));
                if !violations.iter().any(|x| x.signature == v.signature) {
                    violations.push(v);
                }
            }
            continue;
        }
        let lr = run_link(plan, &dir, script.clone());
        evals += 1;
        sim_ns += lr.sim_ns;
        polls += lr.polls;
        ev_count += lr.ev_count;
        add_stats(&mut stats, &lr.stats);
        extra_cases.push(lr.poll_hash ^ plan_shape_hash(plan) ^ at.wrapping_mul(0x9E3779B97F4A7C15) ^ evals);
        let o = &lr.run.flows[0];
        let mut vs = Vec::new();
        for p in &lr.panics {
            vs.push(Violation::new("C05", format!("C05/panic/{cell}/{dir}/{}", p.frame), format!("{what}: panic in node {}: {} at {}", p.node, p.message, p.location)));
        }
        panics.extend(lr.panics.clone());
        if reflect {
            // the client's own request comes back to it (or the server's own response to the server): nothing may be released
            let got = if dir == "c2s" { o.app.recv.len() } else { o.target.recv.len() };
            if got > 0 {
                vs.push(Violation::new("C05", format!("C05/reflected-accepted/{cell}/{dir}"), format!("{what}: {got} bytes were released from a reflected stream")));
            }
        } else {
            let got = if dir == "c2s" { &o.target.recv } else { &o.app.recv };
            if let Some(off) = first_mismatch(got, &want) {
                vs.push(Violation::new("C05", format!("C05/not-a-prefix/{cell}/{dir}"), format!("{what}: released bytes differ from what was written at plaintext offset {off} (released {}): got {:02x?}", got.len(), &got[off..(off + 16).min(got.len())])));
            } else if strict && in_ciphertext(at) && (at as usize) < curve.len() && got.len() > curve[at as usize] {
                vs.push(Violation::new("C05", format!("C05/released-after-tamper/{cell}/{dir}"), format!("{what}: {} plaintext bytes released, but an untampered stream cut at that point releases only {}", got.len(), curve[at as usize])));
            }
            // the opposite direction must not leak either: whatever the other side released is still a prefix of its own stream
            let (other, other_want) = if dir == "c2s" { (&o.app.recv, expected_down(f, 0)) } else { (&o.target.recv, expected_up(f, 0)) };
            if let Some(off) = first_mismatch(other, &other_want) {
                vs.push(Violation::new("C05", format!("C05/other-direction-corrupt/{cell}/{dir}"), format!("{what}: the opposite direction differs at offset {off}")));
            }
        }
        for v in vs {
            if !violations.iter().any(|x| x.signature == v.signature) {
                first_failing.insert(v.signature.clone(), script.clone());
                violations.push(v);
            }
        }
    }
    if !baseline_ok {
        violations.push(Violation::new("C05", format!("C05/baseline/{cell}/{dir}"), format!("byte-at-a-time baseline released {released_all} of {} bytes (startup {:?}, handshake {:?}, panics {})", want.len(), base.run.startup_err, base.run.flows.first().and_then(|f| f.hs_err.clone()), base.panics.len())));
    }
    for v in violations.iter_mut() {
        if let Some(s) = first_failing.get(&v.signature) {
            v.patch = Some(serde_json::json!({ "only_scripts": [s] }));
        }
    }
    probes.insert("mutations".to_owned(), evals);
    probes.insert("stream_bytes".to_owned(), n);
    probes.insert("strict_release_oracle".to_owned(), strict as u64);
    if let Some(r) = &payload_ranges {
        probes.insert("websocket_payload_bytes".to_owned(), r.iter().map(|(a, b)| b - a).sum());
    }
    Outcome {
        violations,
        ev_hash: base.ev_hash,
        ev_count,
        poll_hash: base.poll_hash,
        polls,
        sim_ns,
        stats,
        nontrivial: baseline_ok,
        case_hash: base.poll_hash ^ plan_shape_hash(plan),
        probes,
        panics,
        extra_evaluations: evals,
        extra_cases,
    }
}
