//! QUIC seam (hook H2): quinn endpoints over the simulated datagram socket.
//!
//! `quinn::Endpoint::client/server` bind a kernel UDP socket. Under the guard the two call sites in /repo build
//! their endpoint with `Endpoint::new_with_abstract_socket` over [`SimQuicSocket`] instead, and with quinn's
//! own `TokioRuntime` (its `now()` is `tokio::time::Instant`, so loss-recovery, idle and draining timers follow
//! the paused simulated clock). Everything above the socket is real: quinn-proto, rustls-over-QUIC, streams,
//! flow control, loss recovery - and the simulated datagram link may delay, lose, duplicate and reorder packets.

use std::fmt;
use std::io;
use std::io::IoSliceMut;
use std::net::SocketAddr;
use std::pin::Pin;
use std::sync::Arc;
use std::task::Context;
use std::task::Poll;

use quinn::AsyncUdpSocket;
use quinn::UdpPoller;
use quinn::udp::RecvMeta;
use quinn::udp::Transmit;
use tokio::io::ReadBuf;

use super::net::UdpSocket;

pub struct SimQuicSocket {
    inner: UdpSocket,
}

impl fmt::Debug for SimQuicSocket {
    fn fmt(&self, f: &mut fmt::Formatter<'_>) -> fmt::Result {
        write!(f, "SimQuicSocket({})", self.inner.sid())
    }
}

#[derive(Debug)]
struct AlwaysWritable;

impl UdpPoller for AlwaysWritable {
    fn poll_writable(self: Pin<&mut Self>, _cx: &mut Context) -> Poll<io::Result<()>> {
        Poll::Ready(Ok(()))
    }
}

impl AsyncUdpSocket for SimQuicSocket {
    fn create_io_poller(self: Arc<Self>) -> Pin<Box<dyn UdpPoller>> {
        Box::pin(AlwaysWritable)
    }

    fn try_send(&self, transmit: &Transmit) -> io::Result<()> {
        // max_transmit_segments() == 1: one datagram per transmit. Like quinn-udp's sendmsg wrapper, errors other than
        // WouldBlock are swallowed (the datagram counts as lost, QUIC's own recovery deals with it).
        let _ = self.inner.send_now(transmit.contents, transmit.destination);
        Ok(())
    }

    fn poll_recv(&self, cx: &mut Context, bufs: &mut [IoSliceMut<'_>], meta: &mut [RecvMeta]) -> Poll<io::Result<usize>> {
        if bufs.is_empty() || meta.is_empty() {
            return Poll::Ready(Ok(0));
        }
        let mut rb = ReadBuf::new(&mut bufs[0]);
        match self.inner.poll_recv_from(cx, &mut rb) {
            Poll::Pending => Poll::Pending,
            Poll::Ready(Err(e)) => Poll::Ready(Err(e)),
            Poll::Ready(Ok(from)) => {
                let len = rb.filled().len();
                let mut m = RecvMeta::default();
                m.addr = from;
                m.len = len;
                m.stride = len;
                m.ecn = None;
                m.dst_ip = None;
                meta[0] = m;
                Poll::Ready(Ok(1))
            }
        }
    }

    fn local_addr(&self) -> io::Result<SocketAddr> {
        self.inner.local_addr()
    }

    fn may_fragment(&self) -> bool {
        // like a Linux socket with IP_MTU_DISCOVER set: datagrams are never fragmented, so quinn runs its MTU discovery
        false
    }
}

fn endpoint(server: Option<quinn::ServerConfig>, addr: SocketAddr) -> io::Result<quinn::Endpoint> {
    let inner = UdpSocket::bind_now(addr)?;
    quinn::Endpoint::new_with_abstract_socket(quinn::EndpointConfig::default(), server, Arc::new(SimQuicSocket { inner }), Arc::new(quinn::TokioRuntime))
}

/// replaces `quinn::Endpoint::client(addr)`
pub fn client_endpoint(addr: SocketAddr) -> io::Result<quinn::Endpoint> {
    endpoint(None, addr)
}

/// replaces `quinn::Endpoint::server(config, addr)`
pub fn server_endpoint(config: quinn::ServerConfig, addr: SocketAddr) -> io::Result<quinn::Endpoint> {
    endpoint(Some(config), addr)
}
