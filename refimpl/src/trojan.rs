//! Trojan: `hex(SHA-224(password)) CRLF cmd ATYP addr port CRLF payload`;
//! UDP associate payload: `(ATYP addr port len:u16be CRLF data)*`.

use sha2::Digest;

use crate::Addr;

pub fn key_hex(password: &[u8]) -> Vec<u8> {
    let h = sha2::Sha224::digest(password);
    h.iter().flat_map(|b| format!("{b:02x}").into_bytes()).collect()
}

pub fn request(password: &[u8], cmd: u8, addr: &Addr, payload: &[u8]) -> Vec<u8> {
    let mut v = key_hex(password);
    v.extend_from_slice(b"\r\n");
    v.push(cmd);
    v.extend(addr.socks());
    v.extend_from_slice(b"\r\n");
    v.extend_from_slice(payload);
    v
}

/// Strict parse of the request header (None = need more bytes): (cmd, address, bytes used).
pub fn parse_request(password: &[u8], b: &[u8]) -> Result<Option<(u8, Addr, usize)>, String> {
    if b.len() < 56 + 2 + 1 + 2 {
        return Ok(None);
    }
    if b[..56] != key_hex(password)[..] {
        return Err("wrong password hash".into());
    }
    if &b[56..58] != b"\r\n" {
        return Err("no CRLF after the hash".into());
    }
    let cmd = b[58];
    if cmd != 1 && cmd != 3 {
        return Err(format!("command {cmd}"));
    }
    let (addr, used) = match Addr::parse_socks(&b[59..]) {
        Ok(x) => x,
        Err(e) if e.starts_with("short") || e.starts_with("empty") => return Ok(None),
        Err(e) => return Err(e),
    };
    if b.len() < 59 + used + 2 {
        return Ok(None);
    }
    if &b[59 + used..61 + used] != b"\r\n" {
        return Err("no CRLF after the address".into());
    }
    Ok(Some((cmd, addr, 61 + used)))
}

pub fn udp_packet(addr: &Addr, data: &[u8]) -> Vec<u8> {
    let mut v = addr.socks();
    v.extend_from_slice(&(data.len() as u16).to_be_bytes());
    v.extend_from_slice(b"\r\n");
    v.extend_from_slice(data);
    v
}

/// Strict parse of one UDP packet at the head of `b` (None = need more bytes): (address, data, bytes used).
pub fn parse_udp_packet(b: &[u8]) -> Result<Option<(Addr, Vec<u8>, usize)>, String> {
    if b.is_empty() {
        return Ok(None);
    }
    let (addr, used) = match Addr::parse_socks(b) {
        Ok(x) => x,
        Err(e) if e.starts_with("short") || e.starts_with("empty") => return Ok(None),
        Err(e) => return Err(e),
    };
    if b.len() < used + 4 {
        return Ok(None);
    }
    let len = u16::from_be_bytes([b[used], b[used + 1]]) as usize;
    if &b[used + 2..used + 4] != b"\r\n" {
        return Err("no CRLF after the length".into());
    }
    if b.len() < used + 4 + len {
        return Ok(None);
    }
    Ok(Some((addr, b[used + 4..used + 4 + len].to_vec(), used + 4 + len)))
}
