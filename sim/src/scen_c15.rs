//! C15 – closing or failing one side tears the whole flow down and frees it.
//!
//! Batches of 1..16 concurrent flows, each ending in one of the possible ways
//! (application / target half-close, close, abandon, reset; link cut at a byte
//! offset; target refused / unresolvable / black-holed) at a seeded point of
//! the transfer, over every transport. Oracle: (1) what the closing side had
//! sent is delivered first, (2) the other side observes the end promptly,
//! (3) afterwards the open sockets and live tasks of client and server are back
//! at their idle baseline.

use std::collections::BTreeMap;

use crate::nodes::*;
use crate::plan::*;
use crate::proxy::DirScript;
use crate::report::Outcome;
use crate::report::Violation;
use crate::rnd::Gen;
use crate::rt;
use crate::scen_tcp::*;

const ENDINGS: [Ending; 10] = [
    Ending::AppResetAfterWrite,
    Ending::TargetResetAfterWrite,
    Ending::AppAfterWrite,
    Ending::AppAfterAll,
    Ending::AppAbandon,
    Ending::AppReset,
    Ending::TargetAfterWrite,
    Ending::TargetAfterAll,
    Ending::TargetAbandon,
    Ending::TargetReset,
];

pub fn gen_c15(seed: u64, thorough: bool) -> Plan {
    let mut g = Gen::new(seed, 15);
    let cells = all_proto_ciphers();
    let (proto, cipher) = cells[(seed as usize) % cells.len()];
    let transport = ALL_TRANSPORTS[((seed as usize) / cells.len()) % ALL_TRANSPORTS.len()];
    let config = gen_config(&mut g, proto, cipher, transport, 0);
    let knobs = KnobsPlan::generate(&mut g).for_transport(transport).with_dgram_faults(&mut g, transport);
    let n_flows = if g.chance(15) { g.range(8, if thorough { 32 } else { 16 }) } else { g.range(1, 5) } as usize;
    // a link cut applies to every connection through the proxy, so it gets its own runs
    let link_cut = g.chance(15);
    let mut flows = Vec::new();
    for ix in 0..n_flows {
        let hs = *g.pick(&ALL_HS);
        let ending = if link_cut { Ending::None } else { *g.pick(&ENDINGS) };
        let mut f = gen_flow(&mut g, ix, hs, ending, if knobs.sndbuf <= 64 || knobs.read_style == 1 { 3000 } else { 20_000 });
        if !link_cut && g.chance(20) {
            let fault = *g.pick(&["refused", "unresolvable", "blackhole"]);
            if fault == "unresolvable" {
                if f.target_name.is_none() {
                    f.target_name = Some(format!("nx{ix}.c15.test"));
                    if hs == LocalHs::Socks5V4 {
                        f.hs = LocalHs::Socks5Domain;
                    }
                }
            }
            if fault == "blackhole" {
                // the hang rule of the simulator is keyed by destination port: give the black-holed target a port of its own
                f.target_port = 41_000 + ix as u16;
            }
            f.target_fault = Some(fault.to_owned());
            f.ending = Ending::None;
        }
        flows.push(f);
    }
    let extra = if link_cut && transport == Transport::Quic {
        // the datagram link is partitioned from this moment on (both directions): QUIC notices by its idle timeout.
        // Every flow keeps one more byte for after the cut, so that it is still in progress when the link fails.
        let at = *g.pick(&[5u64, 50, 400, 1500, 5000]);
        for f in flows.iter_mut() {
            f.up.push(Op::Pause(at + 3000));
            f.up.push(Op::Write(1));
        }
        serde_json::json!({ "link_cut": { "quic_at_ms": at } })
    } else if link_cut {
        serde_json::json!({ "link_cut": { "dir": if g.chance(50) { "c2s" } else { "s2c" }, "offset": g.range(0, 3000) } })
    } else if transport == Transport::Quic && g.chance(35) {
        // the datagram link goes silent for 3-12 s at a drawn moment and comes back: QUIC repairs that by itself, whatever
        // was written before a close is still delivered, everything is released in the end
        // (not during the first second: an outage in the middle of the QUIC handshakes is C08's kind of trouble, not an ending)
        serde_json::json!({ "quic_outage": { "at_ms": *g.pick(&[1000u64, 1500, 2500, 4000, 6000]), "for_ms": g.range(3_000, 8_000) } })
    } else if g.chance(25) {
        // next to the flows, one to three applications leave a local handshake unfinished (and close, or just stay): their
        // sockets and tasks are released as well - at the client's handshake deadline at the latest
        let n = g.range(1, 3);
        let list: Vec<(Vec<u8>, bool, bool)> = (0..n)
            .map(|_| {
                if transport != Transport::Quic && g.chance(30) {
                    // a peer of the server: the beginning of a TLS hello / an upgrade request / a protocol handshake, then it closes
                    let k = g.range(0, 90) as usize;
                    let bytes: Vec<u8> = match g.below(4) {
                        0 => vec![0x16, 0x03, 0x01, 0x02, 0x00, 0x01, 0x00, 0x01, 0xfc, 0x03, 0x03, 0x55, 0x66],
                        1 => b"GET /ws HTTP/1.1\r\nHost: sim.test\r\nUpgrade: websocket\r\n".to_vec(),
                        2 => Vec::new(),
                        _ => g.bytes(k),
                    };
                    return (bytes, true, true);
                }
                let bytes: Vec<u8> = g.pick(&[
                    vec![], vec![5u8], vec![5, 1], vec![5, 1, 0, 5, 1, 0, 1, 127], vec![5, 1, 0, 5, 1, 0, 3, 40, b'a', b'b'],
                    b"GET http://exa".to_vec(), b"GET http://example.com/ind".to_vec(), b"CONNECT a.b:1 HTTP/1.1\r\nHost: a.b".to_vec(), b"POST http://h.test/x HTTP/1.1\r\nHost: h.test\r\nContent-Le".to_vec(),
                    vec![0x16, 0x03, 0x01, 0x02, 0x00, 0x01, 0x00, 0x01, 0xfc, 0x03, 0x03, 0x11, 0x22],
                ]).clone();
                (bytes, g.chance(60), false)
            })
            .collect();
        serde_json::json!({ "abandoned_handshakes": list })
    } else {
        serde_json::Value::Null
    };
    Plan { property: "C15".into(), scenario: "teardown".into(), seed, net_seed: g.next(), config, knobs, flows, extra }
}

fn kind_of(f: &TcpFlow, link_cut: bool) -> String {
    if link_cut {
        "link-cut".to_owned()
    } else if let Some(t) = &f.target_fault {
        format!("target-{t}")
    } else {
        ending_name(f.ending).to_owned()
    }
}

pub fn execute_c15(plan: &Plan) -> Outcome {
    let cut = plan.extra.get("link_cut").filter(|v| v.is_object());
    let quic_cut_ms = cut.and_then(|c| c.get("quic_at_ms")).and_then(|v| v.as_u64());
    let mut knobs = plan.knobs.to_knobs();
    if let Some(ms) = quic_cut_ms {
        knobs.udp_partition_ns = (ms * 1_000_000, u64::MAX);
        knobs.udp_fault_ports = vec![SERVER_PORT];
    }
    let outage = plan.extra.get("quic_outage").filter(|v| v.is_object());
    if let Some(o) = outage {
        let at = o["at_ms"].as_u64().unwrap_or(0) * 1_000_000;
        knobs.udp_partition_ns = (at, at + o["for_ms"].as_u64().unwrap_or(5000) * 1_000_000);
        knobs.udp_fault_ports = vec![SERVER_PORT];
    }
    let link = cut.filter(|_| quic_cut_ms.is_none()).map(|c| {
        let s = DirScript { truncate_at: Some(c["offset"].as_u64().unwrap_or(0)), after_truncate: 2, ..Default::default() };
        if c["dir"].as_str() == Some("s2c") { (DirScript::default(), s) } else { (s, DirScript::default()) }
    });
    let link_cut = link.is_some() || quic_cut_ms.is_some();
    let out = rt::run_sim(plan.seed, plan.net_seed, knobs, || run_tcp_system_via(plan, true, link));
    let (run, pobs) = &out.result;
    if std::env::var_os("VERIF_DEBUG_UDP").is_some() {
        for r in &out.world.udp_sends {
            eprintln!("UDP t={:.6} n{} {} -> {} len {} fate {}", r.t_ns as f64 / 1e9, r.node, r.from, r.to, r.len, r.fate);
        }
    }
    let cell = plan.config.label();
    let mut v: Vec<Violation> = Vec::new();
    // QUIC tells the peer about an abortive close with one CONNECTION_CLOSE datagram that is not retransmitted - and that
    // quinn-proto 0.11 does not even send while the congestion window is full of unacknowledged stream data; the peer then
    // notices at its 30 s idle timeout. That bound is a property of the transport: the end must be seen within it.
    let quic = plan.config.transport == Transport::Quic;
    // (on a lossy datagram link the idle timer is re-armed by the survivor's own probes and the closing period is stretched by
    // backed-off probe time-outs: 49 s were seen on the unchanged tree - quinn's clocks, not the relay's)
    let slack_ns = if quic && (plan.knobs.dgram_loss_pm > 0 || plan.extra.get("quic_outage").is_some_and(|v| v.is_object())) { 75_000_000_000u64 } else if quic { 40_000_000_000u64 } else { 10_000_000_000u64 } + 8 * (plan.knobs.latency_us + plan.knobs.jitter_us) * 1000;
    if let Some(e) = &run.startup_err {
        v.push(Violation::new("C15", format!("C15/startup/{cell}"), e.clone()));
    } else {
        for (ix, f) in plan.flows.iter().enumerate() {
            let o = &run.flows[ix];
            let kind = kind_of(f, link_cut);
            let sig = |oracle: &str| format!("C15/{oracle}/{cell}/{kind}");
            if let Some(e) = &o.hs_err {
                v.push(Violation::new("C15", sig("local-handshake"), format!("flow {ix}: {e}")));
                continue;
            }
            let want_up = expected_up(f, ix);
            let want_down = expected_down(f, ix);
            // never garbage, whatever happens
            if let Some(at) = first_mismatch(&o.target.recv, &want_up) {
                v.push(Violation::new("C15", sig("corrupt-up"), format!("flow {ix}: target stream differs at {at}")));
            }
            if let Some(at) = first_mismatch(&o.app.recv, &want_down) {
                v.push(Violation::new("C15", sig("corrupt-down"), format!("flow {ix}: application stream differs at {at}")));
            }
            if let Some(fault) = &f.target_fault {
                // the application must learn that the flow is dead
                let budget = if fault == "blackhole" { 140_000_000_000u64 } else { slack_ns } + plan.extra.get("quic_outage").and_then(|o| o.get("for_ms")).and_then(|v| v.as_u64()).unwrap_or(0) * 2_000_000;
                match (o.app.first_write_ns, &o.app.end) {
                    (Some(t0), Some(_)) if o.app.end_ns.saturating_sub(t0) <= budget => {}
                    (Some(t0), Some(_)) => v.push(Violation::new("C15", sig("late-end-at-app"), format!("flow {ix}: application saw the end {:.1} s after its first byte", (o.app.end_ns - t0) as f64 / 1e9))),
                    (Some(_), None) => v.push(Violation::new("C15", sig("no-end-at-app"), format!("flow {ix}: target is {fault} but the application connection was left open (timed_out={})", run.timed_out))),
                    (None, _) => {}
                }
                if o.target_accepts > 0 {
                    v.push(Violation::new("C15", sig("harness"), format!("flow {ix}: a faulty target was reached")));
                }
                continue;
            }
            if link_cut {
                let cut_ns = pobs.cut_ns.first().copied().or(quic_cut_ms.map(|ms| ms * 1_000_000));
                // the client dials the server right after the local handshake: a flow whose handshake was over a
                // second before the cut had its connection on the link when it failed
                let on_link = matches!((cut_ns, o.app.first_write_ns), (Some(c), Some(w)) if w + 1_000_000_000 < c);
                if on_link {
                    if o.app.end.is_none() {
                        v.push(Violation::new("C15", sig("no-end-at-app"), format!("flow {ix}: link was cut but the application connection was left open {}", run.stall_dump)));
                    }
                    if o.target_accepts > 0 && o.target.end.is_none() {
                        v.push(Violation::new("C15", sig("no-end-at-target"), format!("flow {ix}: link was cut but the target connection was left open {}", run.stall_dump)));
                    }
                }
                continue;
            }
            let app_closes = matches!(f.ending, Ending::AppAfterWrite | Ending::AppAfterAll | Ending::AppAbandon | Ending::AppReset | Ending::AppResetAfterWrite);
            let (closer, other, closer_name, other_name) = if app_closes { (&o.app, &o.target, "application", "target") } else { (&o.target, &o.app, "target", "application") };
            // (2) the other side observes the end promptly
            if other_name == "target" && o.target_accepts == 0 {
                // the server never dialled (the application wrote nothing before closing): nothing to notify
            } else {
                match (closer.fin_ns, &other.end) {
                    (Some(t0), Some(_)) if other.end_ns.saturating_sub(t0) <= slack_ns => {}
                    (Some(t0), Some(_)) => {
                        // with a tiny window the tail of the transfer itself may take longer than the slack: only count the time after the last byte moved
                        let last_rx = other.recv_log.last().map(|x| x.0).unwrap_or(0);
                        if other.end_ns.saturating_sub(t0.max(last_rx)) > slack_ns {
                            v.push(Violation::new("C15", sig("late-end"), format!("flow {ix}: {other_name} saw the end {:.1} s after the {closer_name} closed", (other.end_ns - t0) as f64 / 1e9)));
                        }
                    }
                    (Some(_), None) => v.push(Violation::new("C15", sig("no-end"), format!("flow {ix}: {closer_name} closed but the {other_name} connection was left open (timed_out={}) {}", run.timed_out, run.stall_dump))),
                    (None, _) => v.push(Violation::new("C15", sig("harness-no-close"), format!("flow {ix}: the {closer_name} never got to close (timed_out={}) {}", run.timed_out, run.stall_dump))),
                }
            }
            // (1) what the closing side sent before it closed gracefully is delivered first
            let graceful = matches!(f.ending, Ending::AppAfterWrite | Ending::AppAfterAll | Ending::AppAbandon | Ending::TargetAfterWrite | Ending::TargetAfterAll | Ending::TargetAbandon);
            // an abort that follows the data (RST ordered after it): the proxy has read all of it before the error, so it is
            // held to the same rule - but only while the opposite direction is at rest (the teardown race of the known
            // finding is not this check's subject)
            let abort_after = matches!(f.ending, Ending::AppResetAfterWrite | Ending::TargetResetAfterWrite);
            if abort_after && closer.write_err.is_none() {
                let (got, want, other_complete) = if app_closes { (o.target.recv.len(), want_up.len(), o.app.recv.len() >= want_down.len() && o.target.script_done) } else { (o.app.recv.len(), want_down.len(), o.target.recv.len() >= want_up.len() && o.app.script_done) };
                if got < want && other_complete {
                    v.push(Violation::new("C15", sig("data-before-reset-lost"), format!("flow {ix}: the {closer_name} wrote {want} bytes and then aborted (RST after the data); the proxy had received all of it, the {other_name} received {got}")));
                }
            }
            // (4) a side that only half-closed sees the proxy end the flow (that is how it learns that the flow was released)
            if matches!(f.ending, Ending::AppAfterWrite | Ending::TargetAfterWrite) && !(other_name == "target" && o.target_accepts == 0) {
                match (closer.fin_ns, &closer.end) {
                    (Some(_), None) => v.push(Violation::new("C15", sig("flow-not-released-after-half-close"), format!("flow {ix}: the {closer_name} half-closed, the {other_name} saw {:?}, but the proxy never closed the {closer_name}'s connection (timed_out={}) {}", other.end, run.timed_out, run.stall_dump))),
                    (Some(t0), Some(_)) => {
                        // (slow is not stalled: the clock starts when the transfer is over - the half-closer has received its last
                        // byte and the other side has received the last byte the half-closer wrote)
                        let last_rx = closer.recv_log.last().map(|x| x.0).unwrap_or(0).max(other.recv_log.last().map(|x| x.0).unwrap_or(0));
                        if closer.end_ns.saturating_sub(t0.max(last_rx)) > slack_ns {
                            v.push(Violation::new("C15", sig("late-release-after-half-close"), format!("flow {ix}: the {closer_name} half-closed; the proxy closed its connection {:.1} s later", (closer.end_ns - t0) as f64 / 1e9)));
                        }
                    }
                    _ => {}
                }
            }
            if graceful && closer.write_err.is_none() {
                let (got, want, other_complete) = if app_closes { (o.target.recv.len(), want_up.len(), o.app.recv.len() >= want_down.len() && o.target.script_done) } else { (o.app.recv.len(), want_down.len(), o.target.recv.len() >= want_up.len() && o.app.script_done) };
                if got < want {
                    let oracle = if other_complete { "closing-side-data-lost" } else { "closing-side-data-lost+other-active" };
                    v.push(Violation::new("C15", sig(oracle), format!("flow {ix}: the {closer_name} wrote {want} bytes before closing, the {other_name} received {got}")));
                }
            }
        }
        // (3) everything is released
        for (node, name) in [(0usize, "client"), (1usize, "server")] {
            if run.end_sockets[node] != run.idle_sockets[node] {
                v.push(Violation::new(
                    "C15",
                    format!("C15/socket-leak/{cell}/{name}"),
                    format!("{name}: open (streams, listeners, udp) {:?} after the batch, {:?} when idle; flows: {:?} {}", run.end_sockets[node], run.idle_sockets[node], plan.flows.iter().map(|f| kind_of(f, link_cut)).collect::<Vec<_>>(), run.end_dump),
                ));
            }
            if run.end_tasks[node] != run.idle_tasks[node] {
                v.push(Violation::new(
                    "C15",
                    format!("C15/task-leak/{cell}/{name}"),
                    format!("{name}: {} live tasks after the batch, {} when idle; flows: {:?}", run.end_tasks[node], run.idle_tasks[node], plan.flows.iter().map(|f| kind_of(f, link_cut)).collect::<Vec<_>>()),
                ));
            }
        }
        // (3b) ... and already while the peers that did not close still hold their sockets
        if let (Some(ms), Some(mt)) = (run.mid_sockets, run.mid_tasks) {
            for (node, name) in [(0usize, "client"), (1usize, "server")] {
                if ms[node] != run.idle_sockets[node] && run.end_sockets[node] == run.idle_sockets[node] {
                    v.push(Violation::new(
                        "C15",
                        format!("C15/socket-held-until-peer-closes/{cell}/{name}"),
                        format!("{name}: every flow had ended, yet with the surviving peers still holding their sockets it had (streams, listeners, udp) {:?} open, {:?} when idle; flows: {:?} {}", ms[node], run.idle_sockets[node], plan.flows.iter().map(|f| kind_of(f, link_cut)).collect::<Vec<_>>(), run.mid_dump),
                    ));
                }
                if mt[node] != run.idle_tasks[node] && run.end_tasks[node] == run.idle_tasks[node] {
                    v.push(Violation::new(
                        "C15",
                        format!("C15/task-held-until-peer-closes/{cell}/{name}"),
                        format!("{name}: every flow had ended, yet with the surviving peers still holding their sockets it had {} live tasks, {} when idle; flows: {:?}", mt[node], run.idle_tasks[node], plan.flows.iter().map(|f| kind_of(f, link_cut)).collect::<Vec<_>>()),
                    ));
                }
            }
        }
        if run.mains_finished.0 || run.mains_finished.1 {
            v.push(Violation::new("C15", format!("C15/main-ended/{cell}"), format!("client main finished: {}, server main finished: {}", run.mains_finished.0, run.mains_finished.1)));
        }
    }
    for p in &out.panics {
        v.push(Violation::new("C15", format!("C15/panic/{cell}/{}", p.frame), format!("panic in node {}: {} at {}", p.node, p.message, p.location)));
    }
    let relayed: usize = run.flows.iter().map(|f| f.app.recv.len() + f.target.recv.len()).sum();
    let mut probes = BTreeMap::new();
    probes.insert("flows".to_owned(), plan.flows.len() as u64);
    for f in &plan.flows {
        *probes.entry(format!("ending_{}", kind_of(f, link_cut))).or_insert(0) += 1;
    }
    probes.insert("link_cuts_fired".to_owned(), pobs.cut_ns.len() as u64);
    probes.insert("quic_outages".to_owned(), outage.is_some() as u64);
    probes.insert("abandoned_local_handshakes".to_owned(), plan.extra.get("abandoned_handshakes").and_then(|v| v.as_array()).map(|a| a.len() as u64).unwrap_or(0));
    probes.insert("runs_timed_out".to_owned(), run.timed_out as u64);
    Outcome {
        violations: v,
        ev_hash: out.world.ev_hash,
        ev_count: out.world.ev_count,
        poll_hash: out.poll_hash,
        polls: out.polls,
        sim_ns: out.sim_ns,
        stats: crate::report::world_stats(&out.world),
        nontrivial: relayed > 0 || plan.flows.iter().any(|f| f.target_fault.is_some()),
        case_hash: out.poll_hash ^ plan_shape_hash(plan),
        probes,
        panics: out.panics,
        extra_evaluations: 0,
        extra_cases: Vec::new(),
    }
}
