//! Monotonic-clock seam for code that reads `std::time::Instant` directly.
//!
//! tokio's paused clock covers every timer and (through the vendored `lru_time_cache`) the TTL caches of the tree as it
//! is. A change to /repo that starts to measure time with `std::time::Instant` (a hand-written expiry, a generation
//! counter, a rate limit) would run against the *real* monotonic clock, which does not move during a simulated run - its
//! time-dependent behaviour would be invisible. This module therefore defines the `clock_gettime` symbol of the
//! process: the static linker binds every reference inside the executable (Rust's std included) to it. On a simulation
//! thread `CLOCK_MONOTONIC` reads as "real time at the start of the run + simulated time elapsed"; every other clock and
//! every other thread (the watchdog) get the kernel's answer. The simulated part is refreshed before every task poll
//! and at every seam operation; the paused clock cannot move in between.
//!
//! std turns relative futex time-outs into absolute `CLOCK_MONOTONIC` deadlines; a simulation thread never parks with a
//! non-zero time-out (tokio's paused driver advances its clock instead), so the shifted reading cannot prolong a wait.

use std::cell::Cell;

thread_local! {
    static ACTIVE: Cell<bool> = const { Cell::new(false) };
    /// (seconds, nanoseconds) the simulated run's time zero maps to
    static BASE: Cell<(i64, i64)> = const { Cell::new((0, 0)) };
    static ELAPSED_NS: Cell<u64> = const { Cell::new(0) };
    /// end of the previous run on this thread, so that `Instant`s never go backwards from one run to the next
    static FLOOR: Cell<(i64, i64)> = const { Cell::new((0, 0)) };
}

fn real(clk: libc::clockid_t) -> (i64, i64) {
    let mut ts = libc::timespec { tv_sec: 0, tv_nsec: 0 };
    unsafe { libc::syscall(libc::SYS_clock_gettime, clk as libc::c_long, &mut ts as *mut libc::timespec) };
    (ts.tv_sec as i64, ts.tv_nsec as i64)
}

/// real milliseconds since an arbitrary origin (for the watchdog; never the simulated reading)
pub fn real_ms() -> u64 {
    let (s, ns) = real(libc::CLOCK_MONOTONIC);
    s as u64 * 1000 + ns as u64 / 1_000_000
}

fn add(base: (i64, i64), ns: u64) -> (i64, i64) {
    let total = base.1 as u128 + ns as u128;
    (base.0 + (total / 1_000_000_000) as i64, (total % 1_000_000_000) as i64)
}

pub fn begin() {
    let now = real(libc::CLOCK_MONOTONIC);
    let floor = FLOOR.with(|f| f.get());
    BASE.with(|b| b.set(if floor > now { floor } else { now }));
    ELAPSED_NS.with(|e| e.set(0));
    // (diagnostic switch: with VERIF_NO_CLOCK_SEAM the monotonic clock of the process is the kernel's again)
    ACTIVE.with(|a| a.set(std::env::var_os("VERIF_NO_CLOCK_SEAM").is_none()));
}

pub fn set_elapsed(ns: u64) {
    let _ = ELAPSED_NS.try_with(|e| {
        if ns > e.get() {
            e.set(ns)
        }
    });
}

pub fn end() {
    let last = add(BASE.with(|b| b.get()), ELAPSED_NS.with(|e| e.get()) + 1_000_000);
    FLOOR.with(|f| f.set(last));
    ACTIVE.with(|a| a.set(false));
}

/// # Safety
/// the C contract of `clock_gettime(2)`
#[unsafe(no_mangle)]
pub unsafe extern "C" fn clock_gettime(clk: libc::clockid_t, ts: *mut libc::timespec) -> libc::c_int {
    let rc = unsafe { libc::syscall(libc::SYS_clock_gettime, clk as libc::c_long, ts) } as libc::c_int;
    if rc == 0 && clk == libc::CLOCK_MONOTONIC && !ts.is_null() {
        let active = ACTIVE.try_with(|a| a.get()).unwrap_or(false);
        if active {
            let base = BASE.try_with(|b| b.get()).unwrap_or((0, 0));
            let el = ELAPSED_NS.try_with(|e| e.get()).unwrap_or(0);
            let (s, ns) = add(base, el);
            unsafe {
                (*ts).tv_sec = s as libc::time_t;
                (*ts).tv_nsec = ns as libc::c_long;
            }
        }
    }
    rc
}
