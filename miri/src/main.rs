//! E4 – the process-wide Shadowsocks datagram cipher cache under Miri.
//!
//! `codec/shadowsocks/udp.rs` keeps per-session ciphers in a `static` cache that every datagram encode / decode of
//! every flow goes through. This program drives the real `SessionCodec` of the 2022 ChaCha cipher (no C code on that
//! path) from two threads, the way the server's datagram loop and its association tasks do on the multi-thread
//! runtime. Miri's seeded scheduler decides the interleaving (-Zmiri-seed / -Zmiri-many-seeds); an aliasing
//! violation or a data race is reported with the seed, and replays with it.
//!
//!   miricheck <threads> <datagrams per thread> [chacha20|chacha8|aes256]
use std::net::Ipv4Addr;
use std::net::SocketAddr;
use std::net::SocketAddrV4;

use bytes::BytesMut;
use octo_squirrel::codec::aead::CipherKind;
use octo_squirrel::codec::shadowsocks::udp::AEADCipherCodec;
use octo_squirrel::codec::shadowsocks::udp::Context;
use octo_squirrel::codec::shadowsocks::udp::Session;
use octo_squirrel::codec::shadowsocks::udp::SessionCodec;
use octo_squirrel::protocol::address::Address;
use octo_squirrel::protocol::shadowsocks::Mode;

fn worker(id: u64, n: u64, kind: CipherKind) -> u64 {
    let key = [id as u8 + 1; 32];
    let ikeys: Vec<[u8; 32]> = Vec::new();
    let client: SessionCodec<32> = SessionCodec::new(Context::new(Mode::Client, None, &key, &ikeys), AEADCipherCodec::new(kind));
    let server: SessionCodec<32> = SessionCodec::new(Context::new(Mode::Server, None, &key, &ikeys), AEADCipherCodec::new(kind));
    let addr = Address::Socket(SocketAddr::V4(SocketAddrV4::new(Ipv4Addr::LOCALHOST, 53)));
    let mut ok = 0;
    for i in 0..n {
        // a new session id per datagram: every call inserts into the shared cache
        let session = Session::new(id * 1000 + i + 1, 0, i + 1, None);
        let mut wire = BytesMut::new();
        client.encode((BytesMut::from(&b"datagram"[..]), addr.clone(), session), &mut wire).expect("encode");
        if let Ok(Some((payload, a, _))) = server.decode(&mut wire) {
            if &payload[..] == b"datagram" && a == addr {
                ok += 1;
            }
        }
    }
    ok
}

fn main() {
    let args: Vec<String> = std::env::args().collect();
    let threads: u64 = args.get(1).and_then(|s| s.parse().ok()).unwrap_or(2);
    let n: u64 = args.get(2).and_then(|s| s.parse().ok()).unwrap_or(3);
    let kind = match args.get(3).map(|s| s.as_str()) {
        Some("chacha8") => CipherKind::Aead2022Blake3ChaCha8Poly1305,
        Some("aes256") => CipherKind::Aead2022Blake3Aes256Gcm,
        _ => CipherKind::Aead2022Blake3ChaCha20Poly1305,
    };
    let hs: Vec<_> = (0..threads).map(|t| std::thread::spawn(move || worker(t, n, kind))).collect();
    let ok: u64 = hs.into_iter().map(|h| h.join().expect("worker panicked")).sum();
    println!("miricheck: {ok} of {} datagrams round-tripped", threads * n);
    if ok != threads * n {
        std::process::exit(1);
    }
}
