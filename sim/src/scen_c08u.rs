//! C08, datagram half – after any sequence of misbehaving datagram flows the client and the server still relay
//! datagrams for other, well-behaved users.
//!
//! One run = a UDP-capable cell (Shadowsocks over udp, VMess / Trojan over their stream carriers), a canary exchange
//! before the faults, a sequence of 1..5 faults from the catalogue below, then a canary exchange from a *fresh*
//! local application (another socket, hence another binding / session) that must be answered within 60 simulated
//! seconds; the UDP sockets must still be bound and no main() may have returned.

use std::collections::BTreeMap;
use std::net::IpAddr;
use std::net::Ipv4Addr;
use std::net::SocketAddr;
use std::time::Duration;

use octo_squirrel::verif::net::UdpSocket;
use octo_squirrel::verif::world;
use octo_squirrel::verif::world::FaultKind;
use serde::Deserialize;
use serde::Serialize;

use crate::nodes::*;
use crate::plan::*;
use crate::report::Outcome;
use crate::report::Violation;
use crate::rnd::Gen;
use crate::rt;
use crate::scen_udp::*;

#[derive(Clone, Debug, Serialize, Deserialize, PartialEq)]
pub enum UFault {
    /// malformed SOCKS5-UDP datagrams to the client's local port
    LocalMalformed { which: u8 },
    /// datagrams to the server's port (Shadowsocks): 0 random, 1 a captured valid datagram again (replay), 2 a captured one
    /// with a flipped bit, 3 a captured one cut short, 4 empty
    ToServer { kind: u8, n: u8 },
    /// a datagram for a name that does not resolve / for a port nobody listens on
    BadTarget { unresolvable: bool },
    /// a datagram too large to be forwarded to the server
    OversizeUp,
    /// the target answers with a datagram too large to go back
    OversizeReply,
    /// `send_to` fails once on the server (true) or the client (false)
    SendErr { on_server: bool },
    /// the server cannot bind the socket of a new association / the client cannot bind, once
    BindErr { on_server: bool },
    /// stream carriers: the server is unreachable (refused) when the binding is made
    CarrierRefused,
    /// stream carriers: the carrying connection of an existing binding is reset
    CarrierReset,
    /// a long idle period (the tables expire), then traffic again
    Idle { secs: u64 },
}

pub fn ufault_name(f: &UFault) -> String {
    match f {
        UFault::LocalMalformed { which } => format!("local-malformed-{which}"),
        UFault::ToServer { kind, .. } => format!("to-server-{}", ["random", "replay", "bitflip", "truncated", "empty"][*kind as usize % 5]),
        UFault::BadTarget { unresolvable } => format!("target-{}", if *unresolvable { "unresolvable" } else { "closed-port" }),
        UFault::OversizeUp => "oversize-datagram".into(),
        UFault::OversizeReply => "oversize-reply".into(),
        UFault::SendErr { on_server } => format!("send-error-{}", if *on_server { "server" } else { "client" }),
        UFault::BindErr { on_server } => format!("bind-error-{}", if *on_server { "server" } else { "client" }),
        UFault::CarrierRefused => "carrier-refused".into(),
        UFault::CarrierReset => "carrier-reset".into(),
        UFault::Idle { secs } => format!("idle-{}", if *secs >= 600 { "over-600s" } else if *secs >= 300 { "over-300s" } else { "short" }),
    }
}

pub const LOCAL_MALFORMED: [&[u8]; 12] = [
    &[],
    &[0],
    &[0, 0, 0, 1],
    &[0, 0, 1, 1, 127, 0, 0, 1, 0, 80, b'x'],
    &[0, 0, 0, 9, 1, 2, 3, 4, 5, 6],
    &[0, 0, 0, 5, 1, 2, 3, 4, 5, 6, 7, 8, 9],
    &[0, 0, 0, 0, 0, 0, 0, 0, 0, 0, 0],
    &[0, 0, 0, 3, 200, b'a', b'b'],
    &[0, 0, 0, 1, 127, 0],
    &[0, 0, 0, 3, 2, 0xff, 0xfe, 0, 80, b'x'],
    &[0, 0, 0, 3, 0, 0, 80, b'x'],
    &[0, 0, 0, 4, 1, 2, 3],
];

fn gen_ufault(g: &mut Gen, proto: Proto) -> UFault {
    loop {
        let f = match g.below(14) {
            0 | 1 => UFault::LocalMalformed { which: g.below(LOCAL_MALFORMED.len() as u64) as u8 },
            2 | 3 => UFault::ToServer { kind: g.below(5) as u8, n: g.range(1, 4) as u8 },
            4 => UFault::BadTarget { unresolvable: g.chance(50) },
            5 => UFault::OversizeUp,
            6 | 7 => UFault::OversizeReply,
            8 => UFault::SendErr { on_server: g.chance(60) },
            9 => UFault::BindErr { on_server: g.chance(70) },
            10 => UFault::CarrierRefused,
            11 => UFault::CarrierReset,
            _ => UFault::Idle { secs: *g.pick(&[2, 310, 620]) },
        };
        let stream = proto != Proto::Shadowsocks;
        let ok = match f {
            UFault::ToServer { .. } => !stream,
            UFault::CarrierRefused | UFault::CarrierReset => stream,
            // a stream carrier has no datagram socket on the server's inbound side
            UFault::SendErr { on_server: true } => !stream,
            _ => true,
        };
        if ok {
            return f;
        }
    }
}

pub fn gen_c08u(seed: u64, thorough: bool) -> Plan {
    let mut g = Gen::new(seed, 81);
    let cells = udp_cells();
    let (proto, cipher, transport, n_users) = cells[seed as usize % cells.len()];
    let config = udp_config(&mut g, proto, cipher, transport, n_users);
    let n = if (seed / cells.len() as u64) % 2 == 0 { 1 } else { g.range(2, if thorough { 8 } else { 5 }) } as usize;
    let faults: Vec<UFault> = (0..n).map(|_| gen_ufault(&mut g, proto)).collect();
    Plan {
        property: "C08".into(),
        scenario: "survival-udp".into(),
        seed,
        net_seed: g.next(),
        config,
        knobs: KnobsPlan { latency_us: *g.pick(&[0, 0, 300, 5000]), ..KnobsPlan::simple() }.for_transport(transport),
        flows: vec![],
        extra: serde_json::json!({ "faults": faults }),
    }
}

const ECHO_IP: [u8; 4] = [127, 0, 8, 1];
const ECHO_PORT: u16 = 5300;
const BIG_PORT: u16 = 5301;

/// echo target; the one on BIG_PORT answers with a datagram of 65507 bytes
async fn echo_target(port: u16) {
    let Ok(s) = UdpSocket::bind(SocketAddr::new(IpAddr::V4(Ipv4Addr::from(ECHO_IP)), port)).await else { return };
    let mut buf = vec![0u8; 65536];
    loop {
        let Ok((n, from)) = s.recv_from(&mut buf).await else { return };
        if port == BIG_PORT {
            let _ = s.send_to(&vec![0x42u8; 65507], from).await;
        } else {
            let _ = s.send_to(&buf[..n], from).await;
        }
    }
}

struct App {
    sock: UdpSocket,
}

impl App {
    async fn new() -> App {
        App { sock: UdpSocket::bind(SocketAddr::new(IpAddr::V4(Ipv4Addr::LOCALHOST), 0)).await.expect("app bind") }
    }

    async fn send(&self, t: &UdpTarget, data: &[u8]) {
        let _ = self.sock.send_to(&socks5_udp_wrap(t, data), SocketAddr::new(IpAddr::V4(Ipv4Addr::LOCALHOST), CLIENT_PORT)).await;
    }

    /// send `tag` to the echo target (again every 5 s: datagrams may be lost legitimately while a carrier is re-established)
    /// until the echo comes back; Ok(simulated ms) or what was seen instead
    async fn canary(&self, tag: &[u8], limit_s: u64) -> Result<u64, String> {
        let t = UdpTarget { ip: ECHO_IP, port: ECHO_PORT, name: None, replies: 1, reply_size: 0 };
        let t0 = now_ns();
        let mut buf = vec![0u8; 65536];
        let mut seen = 0usize;
        for _ in 0..limit_s.div_ceil(5) {
            self.send(&t, tag).await;
            let until = tokio::time::Instant::now() + Duration::from_secs(5);
            while let Ok(Ok((n, _))) = tokio::time::timeout_at(until, self.sock.recv_from(&mut buf)).await {
                seen += 1;
                if let Some((_, _, data)) = socks5_udp_unwrap(&buf[..n]) {
                    if data == tag {
                        return Ok((now_ns() - t0) / 1_000_000);
                    }
                }
            }
        }
        Err(format!("no echo within {limit_s} simulated seconds ({seen} other datagrams arrived)"))
    }
}

async fn inject(f: &UFault, first: &App, cfg: &Config) {
    let echo = UdpTarget { ip: ECHO_IP, port: ECHO_PORT, name: None, replies: 1, reply_size: 0 };
    match f {
        UFault::LocalMalformed { which } => {
            let d = LOCAL_MALFORMED[*which as usize % LOCAL_MALFORMED.len()];
            let s = UdpSocket::bind(SocketAddr::new(IpAddr::V4(Ipv4Addr::LOCALHOST), 0)).await.unwrap();
            let _ = s.send_to(d, SocketAddr::new(IpAddr::V4(Ipv4Addr::LOCALHOST), CLIENT_PORT)).await;
            tokio::time::sleep(Duration::from_millis(20)).await;
        }
        UFault::ToServer { kind, n } => {
            let captured: Option<Vec<u8>> = world::with(|w| w.udp_capture.as_ref().and_then(|c| c.iter().rev().find(|(_, to, _)| to.port() == SERVER_PORT).map(|(_, _, d)| d.clone())));
            let s = UdpSocket::bind(SocketAddr::new(IpAddr::V4(Ipv4Addr::LOCALHOST), 0)).await.unwrap();
            let mut g = Gen::new(*n as u64 + 17, 82);
            for _ in 0..*n {
                let d: Vec<u8> = match (kind % 5, &captured) {
                    (1, Some(c)) => c.clone(),
                    (2, Some(c)) if !c.is_empty() => {
                        let mut c = c.clone();
                        let at = g.below(c.len() as u64) as usize;
                        c[at] ^= 1 << g.below(8);
                        c
                    }
                    (3, Some(c)) => c[..g.below(c.len() as u64 + 1) as usize].to_vec(),
                    (4, _) => vec![],
                    _ => {
                        let len = g.range(1, 200) as usize;
                        g.bytes(len)
                    }
                };
                let _ = s.send_to(&d, server_addr()).await;
            }
            tokio::time::sleep(Duration::from_millis(20)).await;
        }
        UFault::BadTarget { unresolvable } => {
            let t = if *unresolvable { UdpTarget { ip: [127, 0, 8, 9], port: 53, name: Some("nx.c08u.test".into()), replies: 0, reply_size: 0 } } else { UdpTarget { ip: [127, 0, 8, 9], port: 9, name: None, replies: 0, reply_size: 0 } };
            first.send(&t, b"to-a-bad-target").await;
            tokio::time::sleep(Duration::from_millis(50)).await;
        }
        UFault::OversizeUp => {
            first.send(&echo, &vec![7u8; if cfg.proto == Proto::Vmess { 5000 } else { 65480 }]).await;
            tokio::time::sleep(Duration::from_millis(50)).await;
        }
        UFault::OversizeReply => {
            let big = UdpTarget { ip: ECHO_IP, port: BIG_PORT, name: None, replies: 1, reply_size: 0 };
            first.send(&big, b"answer-me-with-65507-bytes").await;
            tokio::time::sleep(Duration::from_millis(100)).await;
        }
        UFault::SendErr { on_server } => {
            world::with(|w| w.add_fault(FaultKind::UdpSendErr, 0, if *on_server { rt::NODE_SERVER } else { rt::NODE_CLIENT }, 1));
            first.send(&echo, b"this-one-hits-a-send-error").await;
            tokio::time::sleep(Duration::from_millis(100)).await;
        }
        UFault::BindErr { on_server } => {
            world::with(|w| w.add_fault(FaultKind::UdpBindErr, 0, if *on_server { rt::NODE_SERVER } else { rt::NODE_CLIENT }, 1));
            // a new application (new session / association) is what needs a new socket
            let a = App::new().await;
            a.send(&echo, b"this-one-needs-a-new-socket").await;
            tokio::time::sleep(Duration::from_millis(100)).await;
        }
        UFault::CarrierRefused => {
            world::with(|w| w.add_fault(FaultKind::ConnectRefuse, SERVER_PORT, rt::NODE_CLIENT, 1));
            let a = App::new().await;
            a.send(&echo, b"the-server-refuses-this-carrier").await;
            tokio::time::sleep(Duration::from_millis(100)).await;
        }
        UFault::CarrierReset => {
            let cids: Vec<usize> = world::with(|w| w.conns.iter().enumerate().filter(|(_, c)| (c.open[0] || c.open[1]) && c.b_addr.port() == SERVER_PORT).map(|(i, _)| i).collect());
            for c in cids {
                reset_conn(c);
            }
            tokio::time::sleep(Duration::from_millis(50)).await;
        }
        UFault::Idle { secs } => tokio::time::sleep(Duration::from_secs(*secs)).await,
    }
}

pub fn execute_c08u(plan: &Plan) -> Outcome {
    let faults: Vec<UFault> = serde_json::from_value(plan.extra["faults"].clone()).unwrap_or_default();
    let cell = plan.config.label();
    let out = rt::run_sim(plan.seed, plan.net_seed, plan.knobs.to_knobs(), || async {
        world::with(|w| {
            w.udp_capture = Some(Vec::new());
            if is_2022(&plan.config.cipher) && plan.config.proto == Proto::Shadowsocks {
                w.first_atomic_ports.push(SERVER_PORT);
            }
        });
        let mains = match start_system(&plan.config, "127.0.0.1", SERVER_PORT).await {
            Ok(m) => m,
            Err(e) => return (Some(e), None, None, None, (false, false), (false, false)),
        };
        let _t1 = spawn_scoped(echo_target(ECHO_PORT));
        let _t2 = spawn_scoped(echo_target(BIG_PORT));
        tokio::task::yield_now().await;
        let first = App::new().await;
        let before = first.canary(b"canary-before-the-faults", 20).await;
        for f in &faults {
            inject(f, &first, &plan.config).await;
        }
        tokio::time::sleep(Duration::from_secs(1)).await;
        let fresh = App::new().await;
        let after = fresh.canary(b"canary-after-the-faults", 60).await;
        // the application that was there all along is a well-behaved user too (its binding may have to be re-made)
        let old = first.canary(b"canary-of-the-first-application", 60).await;
        let bound = (udp_bound(CLIENT_PORT), plan.config.proto != Proto::Shadowsocks || udp_bound(SERVER_PORT));
        let finished = (mains.client.is_finished(), mains.server.is_finished());
        (None, Some(before), Some(after), Some(old), bound, finished)
    });
    let (startup_err, before, after, old, bound, finished) = out.result.clone();
    let names: Vec<String> = faults.iter().map(ufault_name).collect();
    let class = if names.len() == 1 { names[0].clone() } else { let mut n = names.clone(); n.sort(); n.dedup(); n.join("+") };
    let mut v = Vec::new();
    if let Some(e) = startup_err {
        v.push(Violation::new("C08", format!("C08/udp-startup/{cell}"), e));
    } else if let Some(Err(e)) = before {
        v.push(Violation::new("C08", format!("C08/udp-canary-before-faults/{cell}"), e));
    } else {
        if let Some(Err(e)) = after {
            v.push(Violation::new("C08", format!("C08/udp-canary-failed/{cell}/{class}"), format!("after datagram faults {names:?}: a fresh application got {e}; udp sockets bound (client, server) = {bound:?}, mains finished = {finished:?}")));
        }
        if let Some(Err(e)) = old {
            v.push(Violation::new("C08", format!("C08/udp-first-application-cut-off/{cell}/{class}"), format!("after datagram faults {names:?}: the application that was served before got {e}")));
        }
        if !bound.0 || !bound.1 {
            v.push(Violation::new("C08", format!("C08/udp-socket-gone/{cell}/{class}"), format!("after datagram faults {names:?}: client udp bound = {}, server udp bound = {}", bound.0, bound.1)));
        }
        if finished.0 || finished.1 {
            v.push(Violation::new("C08", format!("C08/main-returned/{cell}/{class}"), format!("after datagram faults {names:?}: client main returned = {}, server main returned = {}", finished.0, finished.1)));
        }
    }
    for p in &out.panics {
        v.push(Violation::new("C08", format!("C08/panic/{cell}/{}", p.frame), format!("after datagram faults {names:?}: panic in node {}: {} at {}", p.node, p.message, p.location)));
    }
    let mut probes = BTreeMap::new();
    for n in &names {
        *probes.entry(format!("fault_udp_{n}")).or_insert(0u64) += 1;
    }
    probes.insert("udp_faults_in_sequence".to_owned(), names.len() as u64);
    let mut h = 0xcbf29ce484222325u64;
    for b in class.bytes().chain(cell.bytes()) {
        h = (h ^ b as u64).wrapping_mul(0x100000001b3);
    }
    Outcome {
        violations: v,
        ev_hash: out.world.ev_hash,
        ev_count: out.world.ev_count,
        poll_hash: out.poll_hash,
        polls: out.polls,
        sim_ns: out.sim_ns,
        stats: crate::report::world_stats(&out.world),
        nontrivial: matches!(out.result.1, Some(Ok(_))),
        case_hash: out.poll_hash ^ h,
        probes,
        panics: out.panics,
        extra_evaluations: 0,
        extra_cases: Vec::new(),
    }
}
