//! File-open seam for descriptor exhaustion.
//!
//! A process at its descriptor limit fails in `accept`, `socket` *and* `open`: the simulated kernel covers the first two,
//! this module the third. It defines the `open64` / `open` symbols of the process (the static linker binds std's
//! references to them, as with `clock_gettime` in `clock.rs`): while the node of the task that is running is listed in
//! `World::fd_exhausted_nodes` with the file-open bit, opening a file fails with EMFILE - a certificate that is read per
//! connection, a key file, a log file. Everything else goes to the kernel unchanged.

use std::ffi::CStr;

fn exhausted(path: *const libc::c_char) -> bool {
    if path.is_null() {
        return false;
    }
    let p = unsafe { CStr::from_ptr(path) }.to_bytes();
    if p.starts_with(b"/proc") || p.starts_with(b"/sys") || p.starts_with(b"/dev") {
        return false;
    }
    octo_squirrel::verif::world::try_with(|w| {
        let node = octo_squirrel::verif::world::current_node();
        w.fd_exhausted(node, "emfile_open")
    })
    .unwrap_or(false)
}

/// # Safety
/// the C contract of `open(2)`
#[unsafe(no_mangle)]
pub unsafe extern "C" fn open64(path: *const libc::c_char, flags: libc::c_int, mode: libc::mode_t) -> libc::c_int {
    if exhausted(path) {
        unsafe { *libc::__errno_location() = libc::EMFILE };
        return -1;
    }
    unsafe { libc::syscall(libc::SYS_openat, libc::AT_FDCWD, path, flags, mode as libc::c_uint) as libc::c_int }
}

/// # Safety
/// the C contract of `open(2)`
#[unsafe(no_mangle)]
pub unsafe extern "C" fn open(path: *const libc::c_char, flags: libc::c_int, mode: libc::mode_t) -> libc::c_int {
    unsafe { open64(path, flags, mode) }
}
