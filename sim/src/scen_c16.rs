//! C16 – configuration names select exactly the documented behaviour.
//!
//! Exhaustive over the documented names: every cipher name (7 + alias) x every
//! server mode, every client mode x protocol, every 2022 key length 0..=48 on
//! client, server and user table, and a list of undocumented strings. Each case
//! boots the real `main()` functions with that JSON and looks at the simulated
//! socket registry: which listeners / datagram sockets exist, whether a canary
//! flow works over them, whether start-up ended with an error.

use std::collections::BTreeMap;
use std::net::IpAddr;
use std::net::Ipv4Addr;
use std::net::SocketAddr;
use std::sync::Arc;
use std::sync::Mutex;
use std::time::Duration;

use octo_squirrel::verif::world;
use serde::Deserialize;
use serde::Serialize;

use crate::nodes::*;
use crate::plan::*;
use crate::report::Outcome;
use crate::report::Violation;
use crate::rnd::Gen;
use crate::rt;
use crate::scen_tcp::*;
use crate::scen_udp;

pub const CIPHER_NAMES: [&str; 8] = [
    "aes-128-gcm",
    "aes-256-gcm",
    "chacha20-poly1305",
    "chacha20-ietf-poly1305",
    "2022-blake3-aes-128-gcm",
    "2022-blake3-aes-256-gcm",
    "2022-blake3-chacha8-poly1305",
    "2022-blake3-chacha20-poly1305",
];
pub const SERVER_MODES: [&str; 5] = ["tcp", "udp", "tcp_and_udp", "quic", "tcp_and_quic"];
pub const CLIENT_MODES: [&str; 3] = ["tcp", "udp", "tcp_and_udp"];

#[derive(Clone, Debug, Serialize, Deserialize, PartialEq)]
pub struct Case {
    pub class: String,
    pub label: String,
    pub server_json: String,
    pub client_json: String,
    /// expected sockets: (server tcp, server udp, client tcp, client udp); None = start-up must fail (nothing bound)
    pub expect: Option<(bool, bool, bool, bool)>,
    /// which side is expected to refuse to start ("server", "client") when `expect` is None
    pub failing_side: String,
    pub canary_tcp: bool,
    pub canary_udp: bool,
}

fn canonical(c: &str) -> &str {
    if c == "chacha20-ietf-poly1305" { "chacha20-poly1305" } else { c }
}

fn key_for(g: &mut Gen, cipher: &str) -> String {
    if is_2022(cipher) {
        let mut k = vec![0u8; key_len(cipher)];
        g.fill(&mut k);
        b64(&k)
    } else {
        gen_password(g)
    }
}

fn server_json(proto: &str, cipher: &str, mode: Option<&str>, password: &str, users: &[(String, String)], ssl: bool) -> String {
    let mut s = serde_json::json!({ "host": "127.0.0.1", "port": SERVER_PORT, "password": password, "protocol": proto, "cipher": cipher,
        "user": users.iter().map(|(n, p)| serde_json::json!({"name": n, "password": p})).collect::<Vec<_>>() });
    if let Some(m) = mode {
        s["mode"] = m.into();
    }
    if ssl {
        s["ssl"] = serde_json::json!({"certificateFile": CERT, "keyFile": KEY, "serverName": "sim.test"});
    }
    serde_json::Value::Array(vec![s]).to_string()
}

fn client_json(proto: &str, cipher: &str, mode: Option<&str>, password: &str, ssl: bool) -> String {
    let mut s = serde_json::json!({ "host": "127.0.0.1", "port": SERVER_PORT, "password": password, "protocol": proto, "cipher": cipher });
    if ssl {
        s["ssl"] = serde_json::json!({"certificateFile": CERT, "serverName": "sim.test"});
    }
    let mut c = serde_json::json!({ "port": CLIENT_PORT, "index": 0, "servers": [s] });
    if let Some(m) = mode {
        c["mode"] = m.into();
    }
    c.to_string()
}

/// The whole enumeration (its order is the seed order).
pub fn all_cases() -> Vec<Case> {
    let mut g = Gen::new(16, 16);
    let mut v = Vec::new();
    // A. every cipher name x every server mode (Shadowsocks); the client uses the mode that matches
    for cipher in CIPHER_NAMES {
        for mode in SERVER_MODES {
            let pw = key_for(&mut g, cipher);
            let (stcp, sudp) = match mode {
                "tcp" => (true, false),
                "udp" => (false, true),
                "tcp_and_udp" => (true, true),
                "quic" => (false, false),
                _ => (true, false), // tcp_and_quic: TCP and QUIC (no quic section in this case: the QUIC half is not simulated)
            };
            let cmode = match (stcp, sudp) {
                (true, true) => "tcp_and_udp",
                (false, true) => "udp",
                _ => "tcp",
            };
            v.push(Case {
                class: "server-mode".into(),
                label: format!("shadowsocks/{cipher}/{mode}"),
                server_json: server_json("shadowsocks", cipher, Some(mode), &pw, &[], false),
                client_json: client_json("shadowsocks", cipher, Some(cmode), &pw, false),
                expect: Some((stcp, sudp, cmode != "udp", cmode != "tcp")),
                failing_side: String::new(),
                canary_tcp: stcp,
                canary_udp: sudp,
            });
        }
    }
    // default modes (no "mode" key): tcp on both sides
    for cipher in ["aes-256-gcm", "2022-blake3-aes-128-gcm"] {
        let pw = key_for(&mut g, cipher);
        v.push(Case { class: "default-mode".into(), label: format!("shadowsocks/{cipher}/default"), server_json: server_json("shadowsocks", cipher, None, &pw, &[], false), client_json: client_json("shadowsocks", cipher, None, &pw, false), expect: Some((true, false, true, false)), failing_side: String::new(), canary_tcp: true, canary_udp: false });
    }
    // B. every client mode x protocol (VMess over tcp, Trojan over tls – its UDP needs tls)
    for (proto, cipher, ssl) in [("shadowsocks", "2022-blake3-aes-256-gcm", false), ("vmess", "aes-128-gcm", false), ("vmess", "chacha20-poly1305", false), ("trojan", "aes-128-gcm", true)] {
        for mode in CLIENT_MODES {
            let (pw_s, pw_c, users) = match proto {
                "vmess" => {
                    let id = gen_uuid(&mut g);
                    ("unused".to_owned(), id.clone(), vec![("u".to_owned(), id)])
                }
                _ => {
                    let k = key_for(&mut g, cipher);
                    (k.clone(), k, vec![])
                }
            };
            let smode = if proto == "shadowsocks" { Some(mode) } else { None };
            v.push(Case {
                class: "client-mode".into(),
                label: format!("{proto}/{cipher}/{mode}"),
                server_json: server_json(proto, cipher, smode, &pw_s, &users, ssl),
                client_json: client_json(proto, cipher, Some(mode), &pw_c, ssl),
                expect: Some((proto != "shadowsocks" || mode != "udp", proto == "shadowsocks" && mode != "tcp", mode != "udp", mode != "tcp")),
                failing_side: String::new(),
                canary_tcp: mode != "udp",
                canary_udp: mode != "tcp",
            });
        }
    }
    // C. every key length 0..=48 for the 2022 ciphers: client key, server key, user key
    for cipher in CIPHER_NAMES.iter().filter(|c| is_2022(c)) {
        let n = key_len(cipher);
        for k in 0..=48usize {
            for side in ["server", "client", "user"] {
                if side == "user" && !supports_eih(cipher) {
                    continue;
                }
                let good = b64(&g.bytes(n));
                let odd = b64(&g.bytes(k));
                let good_user = b64(&g.bytes(n));
                let (spw, cpw, users) = match side {
                    "server" => (odd.clone(), good.clone(), vec![]),
                    "client" => (good.clone(), odd.clone(), vec![]),
                    _ => (good.clone(), format!("{good}:{good_user}"), vec![("u".to_owned(), odd.clone())]),
                };
                let ok = k == n;
                v.push(Case {
                    class: format!("key-length-{side}"),
                    label: format!("{cipher}/{k}-byte-{side}-key"),
                    server_json: server_json("shadowsocks", cipher, Some("tcp_and_udp"), &spw, &users, false),
                    client_json: client_json("shadowsocks", cipher, Some("tcp_and_udp"), &cpw, false),
                    expect: if ok { Some((true, true, true, true)) } else { None },
                    failing_side: if side == "client" { "client".into() } else { "server".into() },
                    canary_tcp: false,
                    canary_udp: false,
                });
            }
        }
    }
    // D. undocumented strings
    for (field, value) in [
        ("cipher", "aes-192-gcm"),
        ("cipher", "AES-128-GCM"),
        ("cipher", ""),
        ("cipher", "2022-blake3-aes-512-gcm"),
        ("cipher", "none"),
        ("cipher", "chacha20"),
        ("protocol", "ss"),
        ("protocol", "socks5"),
        ("protocol", "VMess"),
        ("mode", "both"),
        ("mode", "tcp+udp"),
        ("mode", "TCP"),
    ] {
        for side in ["server", "client"] {
            let pw = key_for(&mut g, "aes-256-gcm");
            let mut sj: serde_json::Value = serde_json::from_str(&server_json("shadowsocks", "aes-256-gcm", Some("tcp"), &pw, &[], false)).unwrap();
            let mut cj: serde_json::Value = serde_json::from_str(&client_json("shadowsocks", "aes-256-gcm", Some("tcp"), &pw, false)).unwrap();
            if side == "server" {
                sj[0][field] = value.into();
            } else if field == "mode" {
                cj[field] = value.into();
            } else {
                cj["servers"][0][field] = value.into();
            }
            v.push(Case { class: format!("unknown-{field}"), label: format!("{side}/{field}={value:?}"), server_json: sj.to_string(), client_json: cj.to_string(), expect: None, failing_side: side.into(), canary_tcp: false, canary_udp: false });
        }
    }
    // E. transport sections: none / ssl / ws / ssl + ws / quic for every protocol, with a flow through each; with a quic section
    //    the Shadowsocks modes quic and tcp_and_quic open the QUIC endpoint (a UDP socket), VMess and Trojan open TCP and QUIC
    let section = |j: &str, server: bool, which: &str| -> String {
        let mut v: serde_json::Value = serde_json::from_str(j).unwrap();
        let ssl = if server { serde_json::json!({"certificateFile": CERT, "keyFile": KEY, "serverName": "sim.test"}) } else { serde_json::json!({"certificateFile": CERT, "serverName": "sim.test"}) };
        let ws = serde_json::json!({"header": {"Host": "sim.test"}, "path": "/ws"});
        let t = if server { &mut v[0] } else { &mut v["servers"][0] };
        for part in which.split('+') {
            match part {
                "ssl" => t["ssl"] = ssl.clone(),
                "ws" => t["ws"] = ws.clone(),
                "quic" => t["quic"] = ssl.clone(),
                _ => {}
            }
        }
        v.to_string()
    };
    for (proto, cipher) in [("shadowsocks", "aes-128-gcm"), ("shadowsocks", "2022-blake3-aes-256-gcm"), ("shadowsocks", "chacha20-ietf-poly1305"), ("vmess", "chacha20-poly1305"), ("trojan", "aes-128-gcm")] {
        for which in ["none", "ssl", "ws", "ssl+ws", "quic"] {
            let smodes: Vec<Option<&str>> = if proto == "shadowsocks" && which == "quic" { vec![Some("quic"), Some("tcp_and_quic")] } else if proto == "shadowsocks" { vec![Some("tcp")] } else { vec![None] };
            for smode in smodes {
                let (pw_s, pw_c, users) = match proto {
                    "vmess" => {
                        let id = gen_uuid(&mut g);
                        ("unused".to_owned(), id.clone(), vec![("u".to_owned(), id)])
                    }
                    _ => {
                        let k = key_for(&mut g, cipher);
                        (k.clone(), k, vec![])
                    }
                };
                let stcp = !(proto == "shadowsocks" && smode == Some("quic"));
                let sudp = which == "quic";
                v.push(Case {
                    class: "transport-section".into(),
                    label: format!("{proto}/{cipher}/{which}/{}", smode.unwrap_or("default")),
                    server_json: section(&server_json(proto, cipher, smode, &pw_s, &users, false), true, which),
                    client_json: section(&client_json(proto, cipher, Some("tcp"), &pw_c, false), false, which),
                    expect: Some((stcp, sudp, true, false)),
                    failing_side: String::new(),
                    canary_tcp: true,
                    canary_udp: false,
                });
            }
        }
    }
    // datagrams of the stream-carried protocols (VMess, Trojan) over every transport section: the datagram relay of a client
    // in mode tcp_and_udp has to take the same carrier as its stream relay (tls where `ssl` is set, ...) - the server, which
    // has the same sections, serves nothing else
    for (proto, cipher) in [("vmess", "aes-128-gcm"), ("vmess", "chacha20-poly1305"), ("trojan", "aes-128-gcm")] {
        for which in ["quic", "none", "ssl", "ws", "ssl+ws"] {
            if proto == "trojan" && !which.contains("ssl") && which != "quic" {
                // (the README lists Trojan datagrams over tls / wss / quic only)
                continue;
            }
            let (pw_s, pw_c, users) = if proto == "vmess" {
                let id = gen_uuid(&mut g);
                ("unused".to_owned(), id.clone(), vec![("u".to_owned(), id)])
            } else {
                let k = key_for(&mut g, cipher);
                (k.clone(), k, vec![])
            };
            v.push(Case {
                class: "transport-section".into(),
                label: format!("{proto}/{cipher}/{which}/datagrams"),
                server_json: section(&server_json(proto, cipher, None, &pw_s, &users, false), true, which),
                client_json: section(&client_json(proto, cipher, Some("tcp_and_udp"), &pw_c, false), false, which),
                expect: Some((true, which == "quic", true, true)),
                failing_side: String::new(),
                canary_tcp: true,
                canary_udp: true,
            });
        }
    }
    // E2. configurations with several entries. The server's configuration is an array: every entry is served, also two
    //     entries on one port that bind different kinds of socket (a tcp entry and a udp entry). The client's `index` names the
    //     entry of `servers` it uses (the other entry here carries a wrong password, so a flow only works through the right one).
    {
        let first = |json: String| -> serde_json::Value { serde_json::from_str::<serde_json::Value>(&json).unwrap()[0].clone() };
        let client_entry = |json: String| -> serde_json::Value { serde_json::from_str::<serde_json::Value>(&json).unwrap()["servers"][0].clone() };
        for cipher in ["aes-256-gcm", "2022-blake3-aes-128-gcm", "2022-blake3-chacha20-poly1305"] {
            let k = key_for(&mut g, cipher);
            let tcp_entry = first(server_json("shadowsocks", cipher, Some("tcp"), &k, &[], false));
            let udp_entry = first(server_json("shadowsocks", cipher, Some("udp"), &k, &[], false));
            v.push(Case {
                class: "entries".into(),
                label: format!("shared-port/shadowsocks-tcp+shadowsocks-udp/{cipher}"),
                server_json: serde_json::Value::Array(vec![tcp_entry.clone(), udp_entry.clone()]).to_string(),
                client_json: client_json("shadowsocks", cipher, Some("tcp_and_udp"), &k, false),
                expect: Some((true, true, true, true)),
                failing_side: String::new(),
                canary_tcp: true,
                canary_udp: true,
            });
            let tk = key_for(&mut g, "aes-128-gcm");
            let trojan_entry = first(server_json("trojan", "aes-128-gcm", None, &tk, &[], false));
            v.push(Case {
                class: "entries".into(),
                label: format!("shared-port/trojan+shadowsocks-udp/{cipher}"),
                server_json: serde_json::Value::Array(vec![trojan_entry, udp_entry.clone()]).to_string(),
                client_json: client_json("shadowsocks", cipher, Some("udp"), &k, false),
                expect: Some((true, true, false, true)),
                failing_side: String::new(),
                canary_tcp: false,
                canary_udp: true,
            });
            // two entries on two ports, and the client's index
            let mut second = first(server_json("shadowsocks", cipher, Some("tcp"), &k, &[], false));
            second["port"] = (SERVER_PORT + 1).into();
            let other = key_for(&mut g, "aes-128-gcm");
            let first_entry = first(server_json("shadowsocks", "aes-128-gcm", Some("tcp"), &other, &[], false));
            for index in [0usize, 1] {
                let mut good = client_entry(client_json("shadowsocks", cipher, Some("tcp"), &k, false));
                good["port"] = (SERVER_PORT + 1).into();
                let bad = client_entry(client_json("shadowsocks", "aes-128-gcm", Some("tcp"), &key_for(&mut g, "aes-128-gcm"), false));
                let servers = if index == 0 { vec![good, bad] } else { vec![bad, good] };
                v.push(Case {
                    class: "entries".into(),
                    label: format!("two-ports/index-{index}/{cipher}"),
                    server_json: serde_json::Value::Array(vec![first_entry.clone(), second.clone()]).to_string(),
                    client_json: serde_json::json!({ "port": CLIENT_PORT, "index": index, "mode": "tcp", "servers": servers }).to_string(),
                    expect: Some((true, false, true, false)),
                    failing_side: String::new(),
                    canary_tcp: true,
                    canary_udp: false,
                });
            }
        }
    }
    // E3. the certificate file of the `ssl` / `quic` section is put in place only after the client has started and has tried
    //     its first flow: that flow fails, the flows after it use the certificate the section names (the documented meaning of
    //     `certificateFile`: the certificate the server is checked against - not some other trust store once the first read failed)
    for (proto, cipher, which) in [("trojan", "aes-128-gcm", "ssl"), ("vmess", "aes-128-gcm", "ssl+ws"), ("shadowsocks", "2022-blake3-aes-128-gcm", "ssl"), ("trojan", "aes-128-gcm", "quic")] {
        let (pw_s, pw_c, users) = if proto == "vmess" {
            let id = gen_uuid(&mut g);
            ("unused".to_owned(), id.clone(), vec![("u".to_owned(), id)])
        } else {
            let k = key_for(&mut g, cipher);
            (k.clone(), k, vec![])
        };
        let smode = if proto == "shadowsocks" { Some("tcp") } else { None };
        // (a path of this worker's own: several checks may run side by side)
        let late = format!("/dev/shm/verif-late-certificate-{}-{proto}-{}.crt", std::process::id(), which.replace('+', "-"));
        v.push(Case {
            class: "late-certificate".into(),
            label: format!("{proto}/{cipher}/{which}"),
            server_json: section(&server_json(proto, cipher, smode, &pw_s, &users, false), true, which),
            client_json: section(&client_json(proto, cipher, Some("tcp"), &pw_c, false), false, which).replace(CERT, &late),
            expect: Some((true, which == "quic", true, false)),
            failing_side: String::new(),
            canary_tcp: true,
            canary_udp: false,
        });
    }
    // F. key lists "iPSK1:...:iPSKn:uPSK" of the Shadowsocks 2022 AES ciphers: the identity headers the client puts on the
    //    wire (stream and datagram) must be the chain the list spells, in that order
    for cipher in ["2022-blake3-aes-128-gcm", "2022-blake3-aes-256-gcm"] {
        for n_keys in [2usize, 3, 4] {
            let keys: Vec<String> = (0..n_keys).map(|_| b64(&g.bytes(key_len(cipher)))).collect();
            let pw = keys.join(":");
            v.push(Case {
                class: "key-list".into(),
                label: format!("{cipher}/{n_keys}-keys"),
                server_json: String::new(),
                client_json: client_json("shadowsocks", cipher, Some("tcp_and_udp"), &pw, false),
                expect: Some((false, false, true, true)),
                failing_side: String::new(),
                canary_tcp: false,
                canary_udp: false,
            });
        }
    }
    // a missing cipher on a Shadowsocks entry is no cipher at all
    {
        let pw = key_for(&mut g, "aes-256-gcm");
        let mut sj: serde_json::Value = serde_json::from_str(&server_json("shadowsocks", "aes-256-gcm", Some("tcp"), &pw, &[], false)).unwrap();
        sj[0].as_object_mut().unwrap().remove("cipher");
        v.push(Case { class: "unknown-cipher".into(), label: "server/cipher missing".into(), server_json: sj.to_string(), client_json: client_json("shadowsocks", "aes-256-gcm", Some("tcp"), &pw, false), expect: None, failing_side: "server".into(), canary_tcp: false, canary_udp: false });
        let mut cj: serde_json::Value = serde_json::from_str(&client_json("shadowsocks", "aes-256-gcm", Some("tcp"), &pw, false)).unwrap();
        cj["servers"][0].as_object_mut().unwrap().remove("cipher");
        v.push(Case { class: "unknown-cipher".into(), label: "client/cipher missing".into(), server_json: server_json("shadowsocks", "aes-256-gcm", Some("tcp"), &pw, &[], false), client_json: cj.to_string(), expect: None, failing_side: "client".into(), canary_tcp: false, canary_udp: false });
    }
    // H. the ws section as the configuration allows it: path omitted, empty, with a query, with a trailing slash - the same
    //    value on both sides carries the flow (the section documents no constraint on the path)
    for (proto, cipher) in [("shadowsocks", "aes-256-gcm"), ("trojan", "aes-128-gcm"), ("vmess", "aes-128-gcm")] {
        for (label, ws) in [
            ("no-path", serde_json::json!({"header": {"Host": "sim.test"}})),
            ("empty-section", serde_json::json!({})),
            ("query", serde_json::json!({"header": {"Host": "sim.test"}, "path": "/ws?ed=2048"})),
            ("deep", serde_json::json!({"header": {"Host": "sim.test"}, "path": "/a/b/c/"})),
            ("root", serde_json::json!({"path": "/"})),
        ] {
            for with_ssl in [false, true] {
                let (pw_s, pw_c, users) = match proto {
                    "vmess" => {
                        let id = gen_uuid(&mut g);
                        ("unused".to_owned(), id.clone(), vec![("u".to_owned(), id)])
                    }
                    _ => {
                        let k = key_for(&mut g, cipher);
                        (k.clone(), k, vec![])
                    }
                };
                let mut sj: serde_json::Value = serde_json::from_str(&server_json(proto, cipher, if proto == "shadowsocks" { Some("tcp") } else { None }, &pw_s, &users, with_ssl)).unwrap();
                let mut cj: serde_json::Value = serde_json::from_str(&client_json(proto, cipher, Some("tcp"), &pw_c, with_ssl)).unwrap();
                sj[0]["ws"] = ws.clone();
                cj["servers"][0]["ws"] = ws.clone();
                v.push(Case { class: "ws-section".into(), label: format!("{proto}/{label}/{}", if with_ssl { "wss" } else { "ws" }), server_json: sj.to_string(), client_json: cj.to_string(), expect: Some((true, false, true, false)), failing_side: String::new(), canary_tcp: true, canary_udp: false });
            }
        }
    }
    // G. undocumented cipher strings on VMess and Trojan entries: the name is part of every entry, whatever the protocol
    //    does with it - a misspelt or foreign name must stop start-up there too (never a silent aes-128-gcm)
    for proto in ["vmess", "trojan"] {
        for value in ["aes-192-gcm", "AES-128-GCM", "", "chacha20-poly-1305", "aes-128-cfb", "none", "2022-blake3-aes-192-gcm"] {
            for side in ["server", "client"] {
                let (pw_s, pw_c, users) = if proto == "vmess" {
                    let id = gen_uuid(&mut g);
                    ("unused".to_owned(), id.clone(), vec![("u".to_owned(), id)])
                } else {
                    let k = gen_password(&mut g);
                    (k.clone(), k, vec![])
                };
                let mut sj: serde_json::Value = serde_json::from_str(&server_json(proto, "aes-128-gcm", None, &pw_s, &users, false)).unwrap();
                let mut cj: serde_json::Value = serde_json::from_str(&client_json(proto, "aes-128-gcm", Some("tcp"), &pw_c, false)).unwrap();
                if side == "server" {
                    sj[0]["cipher"] = value.into();
                } else {
                    cj["servers"][0]["cipher"] = value.into();
                }
                v.push(Case { class: "unknown-cipher".into(), label: format!("{proto}/{side}/cipher={value:?}"), server_json: sj.to_string(), client_json: cj.to_string(), expect: None, failing_side: side.into(), canary_tcp: false, canary_udp: false });
            }
        }
    }
    v
}

pub fn gen_c16(seed: u64, _thorough: bool) -> Plan {
    let cases = all_cases();
    let case = cases[seed as usize % cases.len()].clone();
    let mut g = Gen::new(seed, 160);
    Plan {
        property: "C16".into(),
        scenario: "config-names".into(),
        seed,
        net_seed: g.next(),
        config: gen_config(&mut g, Proto::Shadowsocks, "aes-128-gcm", Transport::Tcp, 0),
        knobs: KnobsPlan::simple(),
        flows: vec![],
        extra: serde_json::json!({ "case": case, "total_cases": cases.len(), "fresh_process": case.class == "late-certificate" }),
    }
}

#[derive(Default, Clone)]
struct Seen {
    bound: (bool, bool, bool, bool),
    server_finished: bool,
    client_finished: bool,
    server_err: Option<String>,
    client_err: Option<String>,
    tcp_canary: Option<Result<(), String>>,
    udp_canary: Option<Result<(), String>>,
}

async fn tcp_canary() -> Result<(), String> {
    let mut g = Gen::new(1, 1);
    let mut fl = gen_flow(&mut g, 0, LocalHs::Socks5V4, Ending::None, 500);
    fl.up = vec![Op::Write(333)];
    fl.down = vec![Op::Write(222)];
    fl.start_ms = 0;
    fl.target_waits_for = 333;
    let obs = Arc::new(Mutex::new(FlowObs::default()));
    let _t = spawn_scoped(run_target(0, fl.clone(), obs.clone()));
    tokio::task::yield_now().await;
    let _a = spawn_scoped(run_app(0, fl.clone(), obs.clone(), true));
    for _ in 0..300 {
        tokio::time::sleep(Duration::from_millis(100)).await;
        let o = obs.lock().unwrap();
        if let Some(e) = &o.hs_err {
            return Err(e.clone());
        }
        if o.app.recv.len() >= 222 && o.target.recv.len() >= 333 {
            return if o.app.recv == expected_down(&fl, 0) && o.target.recv == expected_up(&fl, 0) { Ok(()) } else { Err("data corrupted".into()) };
        }
    }
    let o = obs.lock().unwrap();
    Err(format!("not served within 30 simulated seconds (target got {}, application got {})", o.target.recv.len(), o.app.recv.len()))
}

async fn udp_canary() -> Result<(), String> {
    let t = scen_udp::UdpTarget { ip: [127, 0, 9, 9], port: 5353, name: None, replies: 1, reply_size: 99 };
    let obs = Arc::new(Mutex::new(scen_udp::UdpObs { sent: vec![vec![]], app_recv: vec![vec![]], target_recv: vec![vec![]], app_send_err: vec![None] }));
    let _t = spawn_scoped(scen_udp::udp_target_pub(0, t.clone(), obs.clone()));
    tokio::task::yield_now().await;
    let _a = spawn_scoped(scen_udp::udp_app_pub(0, vec![scen_udp::UdpOp::Send { t: 0, size: 120 }, scen_udp::UdpOp::Pause(500), scen_udp::UdpOp::Send { t: 0, size: 64 }], vec![t], CLIENT_PORT, obs.clone()));
    for _ in 0..300 {
        tokio::time::sleep(Duration::from_millis(100)).await;
        let o = obs.lock().unwrap();
        if o.target_recv[0].len() >= 2 && o.app_recv[0].len() >= 2 {
            return Ok(());
        }
    }
    let o = obs.lock().unwrap();
    Err(format!("not served within 30 simulated seconds (target got {} of 2 datagrams, application got {} of 2 replies)", o.target_recv[0].len(), o.app_recv[0].len()))
}

/// class "key-list": the real client against a capturing peer; what it sends is compared with the chain of identity headers
/// the reference computes from the same key list
fn execute_key_list(plan: &Plan, case: &Case) -> Outcome {
    use base64ct::Encoding;
    let cj: serde_json::Value = serde_json::from_str(&case.client_json).unwrap();
    let cipher = cj["servers"][0]["cipher"].as_str().unwrap().to_owned();
    let keys: Vec<Vec<u8>> = cj["servers"][0]["password"].as_str().unwrap().split(':').map(|k| base64ct::Base64::decode_vec(k).unwrap()).collect();
    let n = key_len(&cipher);
    let out = rt::run_sim(plan.seed, plan.net_seed, plan.knobs.to_knobs(), || async {
        let mut findings: Vec<(String, String)> = Vec::new();
        let Ok(listener) = octo_squirrel::verif::net::TcpListener::bind(server_addr()).await else { return (Some("capture bind".to_owned()), findings) };
        let Ok(usock) = octo_squirrel::verif::net::UdpSocket::bind(server_addr()).await else { return (Some("capture udp bind".to_owned()), findings) };
        let client = start_client_json(rt::NODE_CLIENT, case.client_json.clone());
        tokio::task::yield_now().await;
        if !settle(|| tcp_listening(CLIENT_PORT) && udp_bound(CLIENT_PORT)).await {
            return (Some(format!("client did not come up (finished={})", client.is_finished())), findings);
        }
        // stream
        let mut g = Gen::new(7, 7);
        let mut fl = gen_flow(&mut g, 0, LocalHs::Socks5V4, Ending::None, 100);
        fl.up = vec![Op::Write(40)];
        fl.down = vec![];
        fl.start_ms = 0;
        let obs = Arc::new(Mutex::new(FlowObs::default()));
        let _a = spawn_scoped(run_app(0, fl, obs, true));
        let mut first = Vec::new();
        if let Ok(Ok((mut s, _))) = tokio::time::timeout(Duration::from_secs(5), listener.accept()).await {
            use tokio::io::AsyncReadExt;
            let mut buf = vec![0u8; 8192];
            while first.len() < n + 16 * (keys.len() - 1) + 27 {
                match tokio::time::timeout(Duration::from_secs(2), s.read(&mut buf)).await {
                    Ok(Ok(k)) if k > 0 => first.extend_from_slice(&buf[..k]),
                    _ => break,
                }
            }
        }
        let eih_len = 16 * (keys.len() - 1);
        if first.len() < n + eih_len + 27 {
            findings.push(("no-request".into(), format!("the client sent {} bytes, a request with {} identity headers needs {}", first.len(), keys.len() - 1, n + eih_len + 27)));
        } else {
            let salt = &first[..n];
            let want = refimpl::ss2022::tcp_eih(&keys, salt);
            if first[n..n + eih_len] != want[..] {
                let which = (0..keys.len() - 1).find(|i| first[n + 16 * i..n + 16 * i + 16] != want[16 * i..16 * i + 16]).unwrap_or(0);
                findings.push(("identity-chain-stream".into(), format!("identity header {} of {} on the stream is not AES(identity-subkey(key {}), hash(key {})) as the key list spells it", which + 1, keys.len() - 1, which + 1, which + 2)));
            }
            let sub = refimpl::ss2022::session_subkey(keys.last().unwrap(), salt, n);
            let aead = refimpl::ss2022::tcp_aead(&cipher).unwrap();
            if aead.open(&sub, &[0u8; 12], &[], &first[n + eih_len..n + eih_len + 27]).is_err() {
                findings.push(("body-key-stream".into(), "the fixed header does not open under the session key of the last key of the list".into()));
            }
        }
        // datagram
        let app = octo_squirrel::verif::net::UdpSocket::bind(SocketAddr::new(IpAddr::V4(Ipv4Addr::LOCALHOST), 0)).await.unwrap();
        let t = scen_udp::UdpTarget { ip: [127, 0, 9, 9], port: 5353, name: None, replies: 0, reply_size: 0 };
        let _ = app.send_to(&scen_udp::socks5_udp_wrap(&t, b"key-list-datagram"), SocketAddr::new(IpAddr::V4(Ipv4Addr::LOCALHOST), CLIENT_PORT)).await;
        let mut buf = vec![0u8; 65536];
        match tokio::time::timeout(Duration::from_secs(3), usock.recv_from(&mut buf)).await {
            Ok(Ok((len, _))) => {
                let pkt = &buf[..len];
                match refimpl::ss2022::udp_open_aes(&cipher, &keys[0], &[keys.last().unwrap().clone()], keys.len() - 1, pkt, false) {
                    Err(e) => findings.push(("body-key-datagram".into(), format!("the datagram does not open with header key = first key, body key = last key: {e}"))),
                    Ok((body, _, _, _)) => {
                        let want = refimpl::ss2022::udp_packet_aes(&cipher, &keys, &body);
                        if want.len() < 16 + eih_len || pkt[16..16 + eih_len] != want[16..16 + eih_len] {
                            findings.push(("identity-chain-datagram".into(), format!("the {} identity header(s) of the datagram are not the chain the key list spells", keys.len() - 1)));
                        }
                    }
                }
            }
            _ => findings.push(("no-datagram".into(), "the client forwarded no datagram".into())),
        }
        (None, findings)
    });
    let (startup, findings) = out.result.clone();
    let mut v = Vec::new();
    if let Some(e) = startup {
        v.push(Violation::new("C16", format!("C16/key-list-startup/{}", case.label), e));
    }
    for (oracle, detail) in &findings {
        v.push(Violation::new("C16", format!("C16/key-list/{oracle}/{}", case.label), format!("{}: {detail}", case.label)));
    }
    for p in &out.panics {
        v.push(Violation::new("C16", format!("C16/panic/key-list/{}", p.frame), format!("{}: panic in node {}: {} at {}", case.label, p.node, p.message, p.location)));
    }
    let mut probes = BTreeMap::new();
    probes.insert("cases_key-list".to_owned(), 1);
    let mut h = 0xcbf29ce484222325u64;
    for b in case.label.bytes() {
        h = (h ^ b as u64).wrapping_mul(0x100000001b3);
    }
    Outcome {
        violations: v,
        ev_hash: out.world.ev_hash,
        ev_count: out.world.ev_count,
        poll_hash: out.poll_hash,
        polls: out.polls,
        sim_ns: out.sim_ns,
        stats: crate::report::world_stats(&out.world),
        nontrivial: true,
        case_hash: h,
        probes,
        panics: out.panics,
        extra_evaluations: 0,
        extra_cases: Vec::new(),
    }
}

pub fn execute_c16(plan: &Plan) -> Outcome {
    let case: Case = serde_json::from_value(plan.extra["case"].clone()).expect("case");
    if case.class == "key-list" {
        return execute_key_list(plan, &case);
    }
    let out = rt::run_sim(plan.seed, plan.net_seed, plan.knobs.to_knobs(), || async {
        world::with(|w| w.first_atomic_ports.push(SERVER_PORT));
        let server = start_server_json(case.server_json.clone());
        tokio::task::yield_now().await;
        let client = start_client_json(rt::NODE_CLIENT, case.client_json.clone());
        tokio::task::yield_now().await;
        // give both mains time to bind (or to give up)
        for _ in 0..30 {
            tokio::task::yield_now().await;
        }
        tokio::time::sleep(Duration::from_millis(50)).await;
        let mut seen = Seen { bound: (tcp_listening(SERVER_PORT), udp_bound(SERVER_PORT), tcp_listening(CLIENT_PORT), udp_bound(CLIENT_PORT)), ..Default::default() };
        if case.class == "late-certificate" && case.expect == Some(seen.bound) {
            // the path the client's section names: absent for the first flow, the certificate afterwards
            let path = serde_json::from_str::<serde_json::Value>(&case.client_json).ok().and_then(|v| {
                let s = &v["servers"][0];
                s["ssl"]["certificateFile"].as_str().or(s["quic"]["certificateFile"].as_str()).map(|x| x.to_owned())
            });
            if let Some(path) = path.filter(|p| p.starts_with("/dev/shm/verif-late-certificate-")) {
                let _ = std::fs::remove_file(&path);
                let first = tcp_canary().await;
                let _ = std::fs::copy(CERT, &path);
                tokio::time::sleep(Duration::from_secs(1)).await;
                seen.tcp_canary = Some(match (first, tcp_canary().await) {
                    (Ok(()), _) => Err("a flow was served although the certificate file the section names did not exist".to_owned()),
                    (Err(_), second) => second.map_err(|e| format!("the certificate file was put in place after the first (failed) flow; the next flow still fails: {e}")),
                });
                let _ = std::fs::remove_file(&path);
            }
        } else if case.expect == Some(seen.bound) {
            if case.canary_tcp {
                seen.tcp_canary = Some(tcp_canary().await);
            }
            if case.canary_udp {
                seen.udp_canary = Some(udp_canary().await);
            }
        }
        seen.server_finished = server.is_finished();
        seen.client_finished = client.is_finished();
        if server.is_finished() {
            seen.server_err = match server.await {
                Ok(Ok(())) => None,
                Ok(Err(e)) => Some(e.to_string()),
                Err(e) => Some(format!("task failed: {e}")),
            };
        }
        if client.is_finished() {
            seen.client_err = match client.await {
                Ok(Ok(())) => None,
                Ok(Err(e)) => Some(e.to_string()),
                Err(e) => Some(format!("task failed: {e}")),
            };
        }
        seen
    });
    let seen = out.result.clone();
    let mut v = Vec::new();
    let class = &case.class;
    let label = &case.label;
    let fmt = |b: (bool, bool, bool, bool)| format!("server tcp={} udp={}, client tcp={} udp={}", b.0, b.1, b.2, b.3);
    match case.expect {
        Some(want) => {
            if seen.bound != want {
                v.push(Violation::new("C16", format!("C16/wrong-sockets/{class}/{label}"), format!("{label}: documented sockets [{}], found [{}]; server main finished={} ({:?}), client main finished={} ({:?})", fmt(want), fmt(seen.bound), seen.server_finished, seen.server_err, seen.client_finished, seen.client_err)));
            }
            if let Some(Err(e)) = &seen.tcp_canary {
                v.push(Violation::new("C16", format!("C16/tcp-flow-failed/{class}/{label}"), format!("{label}: {e}")));
            }
            if let Some(Err(e)) = &seen.udp_canary {
                v.push(Violation::new("C16", format!("C16/udp-flow-failed/{class}/{label}"), format!("{label}: {e}")));
            }
            // a "quic" mode without a quic section (the QUIC half is not simulated) legitimately has nothing to run
            let quic_only = label.ends_with("/quic");
            if seen.bound == want && (seen.client_finished || (seen.server_finished && !quic_only)) {
                v.push(Violation::new("C16", format!("C16/main-returned/{class}/{label}"), format!("{label}: server main finished={} ({:?}), client main finished={} ({:?})", seen.server_finished, seen.server_err, seen.client_finished, seen.client_err)));
            }
        }
        None => {
            // the named side must refuse to start: nothing of it may be listening
            let (side_tcp, side_udp, finished, err) = if case.failing_side == "client" { (seen.bound.2, seen.bound.3, seen.client_finished, &seen.client_err) } else { (seen.bound.0, seen.bound.1, seen.server_finished, &seen.server_err) };
            if side_tcp || side_udp {
                v.push(Violation::new("C16", format!("C16/started-despite-bad-config/{class}/{}", case.failing_side), format!("{label}: the {} is serving (tcp={side_tcp}, udp={side_udp}) although its configuration must be refused; main finished={finished} ({err:?})", case.failing_side)));
            } else if !finished {
                v.push(Violation::new("C16", format!("C16/neither-error-nor-service/{class}/{}", case.failing_side), format!("{label}: the {} neither serves nor ended with an error", case.failing_side)));
            }
        }
    }
    for p in &out.panics {
        v.push(Violation::new("C16", format!("C16/panic/{class}/{}", p.frame), format!("{label}: panic in node {}: {} at {}", p.node, p.message, p.location)));
    }
    let mut probes = BTreeMap::new();
    probes.insert(format!("cases_{class}"), 1);
    probes.insert("tcp_canaries".to_owned(), seen.tcp_canary.is_some() as u64);
    probes.insert("udp_canaries".to_owned(), seen.udp_canary.is_some() as u64);
    let mut h = 0xcbf29ce484222325u64;
    for b in label.bytes().chain(class.bytes()) {
        h = (h ^ b as u64).wrapping_mul(0x100000001b3);
    }
    Outcome {
        violations: v,
        ev_hash: out.world.ev_hash,
        ev_count: out.world.ev_count,
        poll_hash: out.poll_hash,
        polls: out.polls,
        sim_ns: out.sim_ns,
        stats: crate::report::world_stats(&out.world),
        nontrivial: true,
        case_hash: h,
        probes,
        panics: out.panics,
        extra_evaluations: 0,
        extra_cases: Vec::new(),
    }
}
