//! Seeded OS entropy. `--cfg getrandom_backend="custom"` routes getrandom 0.3 and
//! 0.4 (and through them `rand::rng()`, which every random draw in /repo uses)
//! to this function. The state is thread-local, so each simulated world (one
//! thread) owns its stream.

use std::cell::Cell;

thread_local! {
    static STATE: Cell<u64> = const { Cell::new(0x1234_5678_9abc_def0) };
    static DRAWS: Cell<u64> = const { Cell::new(0) };
}

fn next() -> u64 {
    STATE.with(|s| {
        let mut x = s.get().wrapping_add(0x9E37_79B9_7F4A_7C15);
        s.set(x);
        x = (x ^ (x >> 30)).wrapping_mul(0xBF58_476D_1CE4_E5B9);
        x = (x ^ (x >> 27)).wrapping_mul(0x94D0_49BB_1331_11EB);
        x ^ (x >> 31)
    })
}

#[unsafe(no_mangle)]
unsafe extern "Rust" fn __getrandom_v03_custom(dest: *mut u8, len: usize) -> Result<(), getrandom::Error> {
    DRAWS.with(|d| d.set(d.get() + 1));
    let buf = unsafe { std::slice::from_raw_parts_mut(dest, len) };
    for chunk in buf.chunks_mut(8) {
        let v = next().to_le_bytes();
        chunk.copy_from_slice(&v[..chunk.len()]);
    }
    Ok(())
}

/// Make every subsequent `rand::rng()` draw on this thread a function of `seed`.
pub fn reseed(seed: u64) {
    use rand::RngCore;
    // the thread RNG must exist before the seed is set, otherwise its lazy
    // initialisation consumes entropy at a run-dependent point
    let mut rng = rand::rng();
    let _ = rng.next_u32();
    // rand 0.10 (used by quinn-proto) keeps a thread generator of its own
    let mut rng10 = rand10::rng();
    {
        use rand10::Rng as _;
        let _ = rng10.next_u32();
    }
    STATE.with(|s| s.set(seed ^ 0xA5A5_5A5A_C3C3_3C3C));
    rng.reseed().expect("reseed");
    rng10.reseed().expect("reseed rand 0.10");
}

pub fn draws() -> u64 {
    DRAWS.with(|d| d.get())
}
