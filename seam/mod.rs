//! Deterministic simulation seam for octo-squirrel.
//!
//! This module lives in /verif and is compiled *into* the `octo_squirrel`
//! library crate only under `--cfg octo_squirrel_verif` (hook H1 in
//! /repo/octo-squirrel/src/lib.rs). It replaces the kernel network, DNS, the
//! wall clock and the process environment (config file / logger) by a
//! simulator that lives in a thread-local [`world::World`]. One world = one
//! run; everything random inside it is derived from `World::net_seed`.
//!
//! Nothing in here is reachable in a normal build of /repo.

pub mod clock;
pub mod dns;
pub mod net;
pub mod prng;
pub mod proc;
pub mod quic;
pub mod udp_framed;
pub mod world;
