//! Simulated `tokio::net::{TcpListener, TcpStream, UdpSocket}` with the method
//! surface /repo uses (DESIGN.md appendix A), plus a few harness-only helpers.
//!
//! Fidelity rule: the simulator only does what a real kernel may do – any
//! positive read size up to what has arrived, any positive write size up to the
//! buffer space, spurious `Pending`, arbitrary finite delay, FIN after all
//! data. RST is only ever an explicit harness action ([`TcpStream::reset`]).

use std::future::poll_fn;
use std::io;
use std::marker::PhantomData;
use std::net::IpAddr;
use std::net::Ipv4Addr;
use std::net::SocketAddr;
use std::net::SocketAddrV4;
use std::pin::Pin;
use std::task::Context;
use std::task::Poll;
use std::time::Duration;

use tokio::io::AsyncRead;
use tokio::io::AsyncWrite;
use tokio::io::ReadBuf;
use tokio::time::Instant;

pub use super::udp_framed::UdpFramed;
use super::world;
use super::world::Conn;
use super::world::ConnectRec;
use super::world::Dgram;
use super::world::FaultKind;
use super::world::Listener;
use super::world::UdpSendRec;
use super::world::UdpSock;
use super::world::World;

const LOOPBACK: IpAddr = IpAddr::V4(Ipv4Addr::LOCALHOST);
pub const MAX_DGRAM: usize = 65507;

// ---------------------------------------------------------------- addresses

/// Something `TcpStream::connect` accepts.
pub trait ToTarget {
    fn to_target(&self) -> Target;
}

pub enum Target {
    Addr(SocketAddr),
    Name(String, u16),
}

impl ToTarget for SocketAddr {
    fn to_target(&self) -> Target {
        Target::Addr(*self)
    }
}

impl ToTarget for SocketAddrV4 {
    fn to_target(&self) -> Target {
        Target::Addr(SocketAddr::V4(*self))
    }
}

impl ToTarget for (&str, u16) {
    fn to_target(&self) -> Target {
        match self.0.parse::<IpAddr>() {
            Ok(ip) => Target::Addr(SocketAddr::new(ip, self.1)),
            Err(_) => Target::Name(self.0.to_owned(), self.1),
        }
    }
}

impl ToTarget for (String, u16) {
    fn to_target(&self) -> Target {
        (self.0.as_str(), self.1).to_target()
    }
}

impl ToTarget for &str {
    fn to_target(&self) -> Target {
        match self.parse::<SocketAddr>() {
            Ok(a) => Target::Addr(a),
            Err(_) => match self.rsplit_once(':') {
                Some((h, p)) => Target::Name(h.to_owned(), p.parse().unwrap_or(0)),
                None => Target::Name((*self).to_owned(), 0),
            },
        }
    }
}

impl ToTarget for String {
    fn to_target(&self) -> Target {
        self.as_str().to_target()
    }
}

/// Something `bind` accepts.
pub trait ToBind {
    fn to_bind(&self) -> io::Result<SocketAddr>;
}

impl ToBind for SocketAddrV4 {
    fn to_bind(&self) -> io::Result<SocketAddr> {
        Ok(SocketAddr::V4(*self))
    }
}

impl ToBind for SocketAddr {
    fn to_bind(&self) -> io::Result<SocketAddr> {
        Ok(*self)
    }
}

impl ToBind for String {
    fn to_bind(&self) -> io::Result<SocketAddr> {
        self.as_str().to_bind()
    }
}

impl ToBind for &str {
    fn to_bind(&self) -> io::Result<SocketAddr> {
        if let Ok(a) = self.parse::<SocketAddr>() {
            return Ok(a);
        }
        match self.rsplit_once(':') {
            Some((h, p)) => {
                let port: u16 = p.parse().map_err(|_| io::Error::new(io::ErrorKind::InvalidInput, "invalid port value"))?;
                super::dns::resolve(h, port)
            }
            None => Err(io::Error::new(io::ErrorKind::InvalidInput, "invalid socket address")),
        }
    }
}

fn concrete(addr: SocketAddr) -> SocketAddr {
    if addr.ip().is_unspecified() { SocketAddr::new(LOOPBACK, addr.port()) } else { addr }
}

// ---------------------------------------------------------------- listener

pub struct TcpListener {
    lid: usize,
}

impl TcpListener {
    pub async fn bind<A: ToBind>(addr: A) -> io::Result<TcpListener> {
        let mut addr = addr.to_bind()?;
        world::with(|w| {
            if addr.port() == 0 {
                addr.set_port(w.alloc_port());
            }
            if w.tcp_port_in_use(&addr) {
                return Err(io::Error::new(io::ErrorKind::AddrInUse, "Address already in use"));
            }
            let lid = w.listeners.len();
            w.listeners.push(Listener { addr, backlog: Default::default(), waker: None, owner: world::current_node(), open: true, accepted: 0 });
            w.log(1, lid as u64, addr.port() as u64);
            Ok(TcpListener { lid })
        })
    }

    pub fn local_addr(&self) -> io::Result<SocketAddr> {
        Ok(world::with(|w| w.listeners[self.lid].addr))
    }

    pub async fn accept(&self) -> io::Result<(TcpStream, SocketAddr)> {
        poll_fn(|cx| self.poll_accept(cx)).await
    }

    pub fn poll_accept(&self, cx: &mut Context<'_>) -> Poll<io::Result<(TcpStream, SocketAddr)>> {
        world::with(|w| {
            let node = w.listeners[self.lid].owner;
            let port = w.listeners[self.lid].addr.port();
            loop {
                let Some(&cid) = w.listeners[self.lid].backlog.front() else {
                    w.listeners[self.lid].waker = Some(cx.waker().clone());
                    return Poll::Pending;
                };
                if w.take_fault(FaultKind::AcceptErr, port, node) || w.fd_exhausted(node, "emfile_accept") {
                    w.log(2, self.lid as u64, u64::MAX);
                    // EMFILE: the connection stays in the queue
                    return Poll::Ready(Err(io::Error::from_raw_os_error(24)));
                }
                w.listeners[self.lid].backlog.pop_front();
                let conn = &mut w.conns[cid];
                if conn.reset {
                    // aborted while queued; Linux reports ECONNABORTED only rarely – just skip it
                    conn.open[1] = false;
                    continue;
                }
                conn.accepted = true;
                conn.owner[1] = node;
                let peer = conn.a_addr;
                w.listeners[self.lid].accepted += 1;
                w.stats.tcp_accepts += 1;
                w.log(2, self.lid as u64, cid as u64);
                return Poll::Ready(Ok((TcpStream { cid, side: 1 }, peer)));
            }
        })
    }
}

impl Drop for TcpListener {
    fn drop(&mut self) {
        world::try_with(|w| {
            let l = &mut w.listeners[self.lid];
            l.open = false;
            l.waker = None;
            let pending: Vec<usize> = l.backlog.drain(..).collect();
            for cid in pending {
                reset_conn(w, cid);
                w.conns[cid].open[1] = false;
            }
            w.log(3, self.lid as u64, 0);
        });
    }
}

// ---------------------------------------------------------------- stream

pub struct TcpStream {
    cid: usize,
    side: u8,
}

pub struct ReadHalf<'a> {
    cid: usize,
    side: u8,
    _p: PhantomData<&'a mut TcpStream>,
}

pub struct WriteHalf<'a> {
    cid: usize,
    side: u8,
    _p: PhantomData<&'a mut TcpStream>,
}

fn reset_conn(w: &mut World, cid: usize) {
    let c = &mut w.conns[cid];
    if c.reset {
        return;
    }
    c.reset = true;
    for p in c.pipes.iter_mut() {
        p.inflight.clear();
        p.inflight_bytes = 0;
        p.rbuf.clear();
        p.timer = None;
        if let Some(wk) = p.reader_waker.take() {
            wk.wake();
        }
        if let Some(wk) = p.writer_waker.take() {
            wk.wake();
        }
    }
    w.stats.tcp_resets += 1;
    w.log(9, cid as u64, 0);
}

impl TcpStream {
    pub async fn connect<A: ToTarget>(addr: A) -> io::Result<TcpStream> {
        let node = world::current_node();
        let (dst, name) = match addr.to_target() {
            Target::Addr(a) => (a, None),
            Target::Name(host, port) => match super::dns::resolve(&host, port) {
                Ok(a) => (a, Some(host)),
                Err(e) => {
                    world::with(|w| {
                        let t_ns = w.now_ns();
                        w.connects.push(ConnectRec { t_ns, node, dst: SocketAddr::new(IpAddr::V4(Ipv4Addr::UNSPECIFIED), port), name: Some(host), ok: false });
                    });
                    return Err(e);
                }
            },
        };
        if world::with(|w| w.fd_exhausted(node, "emfile_connect")) {
            // socket(2) fails before anything reaches the network
            return Err(io::Error::from_raw_os_error(24));
        }
        // decide the outcome now, deliver it after one round trip
        enum Outcome {
            Ok(usize),
            Refused,
            Hang,
            Unreachable,
        }
        let (outcome, rtt) = world::with(|w| {
            let t_ns = w.now_ns();
            let rtt = Duration::from_nanos(2 * w.knobs.latency_ns);
            let outcome = if w.take_fault(FaultKind::ConnectHang, dst.port(), node) {
                Outcome::Hang
            } else if w.take_fault(FaultKind::ConnectRefuse, dst.port(), node) {
                Outcome::Refused
            } else if let Some(lid) = w.find_listener(&dst) {
                let port = w.alloc_port();
                let cid = w.conns.len();
                let a_addr = SocketAddr::new(if dst.is_ipv4() { LOOPBACK } else { IpAddr::V6(std::net::Ipv6Addr::LOCALHOST) }, port);
                let harness_a = node == world::NODE_HARNESS;
                let harness_b = w.listeners[lid].owner == world::NODE_HARNESS;
                let mut p0 = w.new_pipe(cid as u64, 0, harness_a);
                let mut p1 = w.new_pipe(cid as u64, 1, harness_b);
                if w.first_atomic_ports.contains(&dst.port()) {
                    p0.first_atomic = true;
                    p1.first_atomic = true;
                }
                let owner_b = w.listeners[lid].owner;
                w.conns.push(Conn { a_addr, b_addr: dst, pipes: [p0, p1], open: [true, true], owner: [node, owner_b], reset: false, accepted: false });
                w.listeners[lid].backlog.push_back(cid);
                if let Some(wk) = w.listeners[lid].waker.take() {
                    wk.wake();
                }
                w.stats.tcp_connects += 1;
                Outcome::Ok(cid)
            } else if dst.is_ipv6() {
                Outcome::Unreachable
            } else {
                Outcome::Refused
            };
            let ok = matches!(outcome, Outcome::Ok(_));
            w.connects.push(ConnectRec { t_ns, node, dst, name: name.clone(), ok });
            w.log(4, dst.port() as u64, ok as u64);
            (outcome, rtt)
        });
        match outcome {
            Outcome::Ok(cid) => {
                let stream = TcpStream { cid, side: 0 };
                if !rtt.is_zero() {
                    tokio::time::sleep(rtt).await;
                }
                Ok(stream)
            }
            Outcome::Refused => {
                if !rtt.is_zero() {
                    tokio::time::sleep(rtt).await;
                }
                Err(io::Error::new(io::ErrorKind::ConnectionRefused, "Connection refused"))
            }
            Outcome::Unreachable => Err(io::Error::from_raw_os_error(101)),
            Outcome::Hang => {
                tokio::time::sleep(Duration::from_secs(127)).await;
                Err(io::Error::new(io::ErrorKind::TimedOut, "Connection timed out"))
            }
        }
    }

    pub fn local_addr(&self) -> io::Result<SocketAddr> {
        Ok(world::with(|w| {
            let c = &w.conns[self.cid];
            if self.side == 0 { c.a_addr } else { concrete(c.b_addr) }
        }))
    }

    pub fn peer_addr(&self) -> io::Result<SocketAddr> {
        Ok(world::with(|w| {
            let c = &w.conns[self.cid];
            if self.side == 0 { concrete(c.b_addr) } else { c.a_addr }
        }))
    }

    pub async fn peek(&self, buf: &mut [u8]) -> io::Result<usize> {
        let (cid, side) = (self.cid, self.side);
        poll_fn(|cx| {
            let mut rb = ReadBuf::new(buf);
            match poll_read_impl(cid, side, cx, &mut rb, true) {
                Poll::Ready(Ok(())) => Poll::Ready(Ok(rb.filled().len())),
                Poll::Ready(Err(e)) => Poll::Ready(Err(e)),
                Poll::Pending => Poll::Pending,
            }
        })
        .await
    }

    pub fn split(&mut self) -> (ReadHalf<'_>, WriteHalf<'_>) {
        (ReadHalf { cid: self.cid, side: self.side, _p: PhantomData }, WriteHalf { cid: self.cid, side: self.side, _p: PhantomData })
    }

    pub fn set_nodelay(&self, _: bool) -> io::Result<()> {
        Ok(())
    }

    // ---- harness-only helpers (never called from /repo)

    /// Abort the connection: both ends see ECONNRESET, data in flight is discarded.
    /// harness-only: the next close of this end is an abort that follows the data already written (see `Pipe::fin_is_rst`)
    pub fn abort_after_data(&self) {
        world::with(|w| {
            let wr = if self.side == 0 { 0 } else { 1 };
            w.conns[self.cid].pipes[wr].fin_is_rst = true;
        });
    }

    pub fn reset(&self) {
        world::with(|w| reset_conn(w, self.cid));
    }

    /// Style of the reads / writes this end performs (see `Knobs`).
    pub fn set_own_styles(&self, read_style: u8, write_style: u8) {
        world::with(|w| {
            let c = &mut w.conns[self.cid];
            let (rd, wr) = if self.side == 0 { (1, 0) } else { (0, 1) };
            c.pipes[rd].read_style = read_style;
            c.pipes[wr].write_style = write_style;
        });
    }

    /// Style of the reads the *peer* performs on what this end writes.
    pub fn set_peer_read_style(&self, read_style: u8) {
        world::with(|w| {
            let c = &mut w.conns[self.cid];
            let wr = if self.side == 0 { 0 } else { 1 };
            c.pipes[wr].read_style = read_style;
        });
    }

    /// (own read style, own write style, peer read style)
    pub fn styles(&self) -> (u8, u8, u8) {
        world::with(|w| {
            let c = &w.conns[self.cid];
            let (rd, wr) = if self.side == 0 { (1, 0) } else { (0, 1) };
            (c.pipes[rd].read_style, c.pipes[wr].write_style, c.pipes[wr].read_style)
        })
    }

    /// buffer capacities of (the pipe this end writes, the pipe this end reads); returns the previous values
    pub fn set_caps(&self, wr_cap: usize, rd_cap: usize) -> (usize, usize) {
        world::with(|w| {
            let c = &mut w.conns[self.cid];
            let (rd, wr) = if self.side == 0 { (1, 0) } else { (0, 1) };
            let old = (c.pipes[wr].cap, c.pipes[rd].cap);
            c.pipes[wr].cap = wr_cap.max(1);
            c.pipes[rd].cap = rd_cap.max(1);
            if let Some(wk) = c.pipes[wr].writer_waker.take() {
                wk.wake();
            }
            if let Some(wk) = c.pipes[rd].writer_waker.take() {
                wk.wake();
            }
            old
        })
    }

    pub fn conn_id(&self) -> usize {
        self.cid
    }

    /// bytes this end has written that the peer has not read yet
    pub fn unread_by_peer(&self) -> usize {
        world::with(|w| {
            let c = &w.conns[self.cid];
            let p = &c.pipes[if self.side == 0 { 0 } else { 1 }];
            p.inflight_bytes + p.rbuf.len()
        })
    }
}

fn read_limit(style: u8, rng: &mut super::prng::Prng) -> usize {
    match style {
        0 => usize::MAX,
        1 => 1,
        2 => rng.range(1, 16) as usize,
        3 => rng.range(1, 4096) as usize,
        _ => match rng.below(6) {
            0 => 1,
            1 => rng.range(1, 4) as usize,
            2 => rng.range(1, 64) as usize,
            3 => rng.range(1, 1500) as usize,
            _ => usize::MAX,
        },
    }
}

fn write_limit(style: u8, rng: &mut super::prng::Prng, n: usize) -> usize {
    match style {
        0 => n,
        1 => rng.range(1, n as u64) as usize,
        _ => rng.range(1, 8.min(n) as u64) as usize,
    }
}

fn poll_read_impl(cid: usize, side: u8, cx: &mut Context<'_>, buf: &mut ReadBuf<'_>, peek: bool) -> Poll<io::Result<()>> {
    world::with(|w| {
        let pending_pm = w.knobs.pending_pm;
        let rd = if side == 0 { 1 } else { 0 };
        let c = &mut w.conns[cid];
        if c.reset {
            return Poll::Ready(Err(io::Error::new(io::ErrorKind::ConnectionReset, "Connection reset by peer")));
        }
        if buf.remaining() == 0 {
            return Poll::Ready(Ok(()));
        }
        let p = &mut c.pipes[rd];
        loop {
            let now = Instant::now();
            while let Some((at, _)) = p.inflight.front() {
                if *at <= now {
                    let (_, seg) = p.inflight.pop_front().unwrap();
                    p.inflight_bytes -= seg.len();
                    p.rbuf.extend(seg);
                } else {
                    break;
                }
            }
            if !p.rbuf.is_empty() {
                if !p.last_pending_rd && p.rng.permille(pending_pm) {
                    p.last_pending_rd = true;
                    w.stats.tcp_spurious_pending += 1;
                    cx.waker().wake_by_ref();
                    return Poll::Pending;
                }
                p.last_pending_rd = false;
                let limit = if p.first_atomic && p.read == 0 { usize::MAX } else { read_limit(p.read_style, &mut p.rng) };
                let n = p.rbuf.len().min(buf.remaining()).min(limit);
                {
                    let (a, b) = p.rbuf.as_slices();
                    if n <= a.len() {
                        buf.put_slice(&a[..n]);
                    } else {
                        buf.put_slice(a);
                        buf.put_slice(&b[..n - a.len()]);
                    }
                }
                if peek {
                    log::trace!("sim peek cid={cid} side={side} n={n} avail={} limit={limit} style={}", p.rbuf.len(), p.read_style);
                }
                if !peek {
                    let short = n < p.rbuf.len();
                    p.rbuf.drain(..n);
                    p.read += n as u64;
                    p.timer = None;
                    if let Some(wk) = p.writer_waker.take() {
                        wk.wake();
                    }
                    w.stats.tcp_reads += 1;
                    if short {
                        w.stats.tcp_short_reads += 1;
                    }
                    log::trace!("sim read cid={cid} side={side} n={n}");
                    w.log(5, (cid as u64) << 1 | side as u64, n as u64);
                }
                return Poll::Ready(Ok(()));
            }
            // nothing readable
            if p.inflight.is_empty() {
                if let Some(fin) = p.fin_at {
                    if fin <= now {
                        if p.fin_is_rst {
                            // everything the aborting peer had sent has been read: now its RST is seen
                            c.reset = true;
                            w.stats.tcp_resets += 1;
                            w.log(9, (cid as u64) << 1 | side as u64, 2);
                            return Poll::Ready(Err(io::Error::new(io::ErrorKind::ConnectionReset, "Connection reset by peer")));
                        }
                        if !peek {
                            log::trace!("sim eof cid={cid} side={side}");
                            w.log(6, (cid as u64) << 1 | side as u64, 0);
                        }
                        return Poll::Ready(Ok(())); // EOF
                    }
                }
            }
            let next = p.inflight.front().map(|(at, _)| *at).or(p.fin_at);
            p.reader_waker = Some(cx.waker().clone());
            match next {
                None => {
                    p.timer = None;
                    return Poll::Pending;
                }
                Some(at) => {
                    let mut sleep = Box::pin(tokio::time::sleep_until(at));
                    match sleep.as_mut().poll(cx) {
                        Poll::Ready(()) => continue,
                        Poll::Pending => {
                            p.timer = Some(sleep);
                            return Poll::Pending;
                        }
                    }
                }
            }
        }
    })
}

use std::future::Future;

fn poll_write_impl(cid: usize, side: u8, cx: &mut Context<'_>, data: &[u8]) -> Poll<io::Result<usize>> {
    world::with(|w| {
        let pending_pm = w.knobs.pending_pm;
        let (lat, jit) = (w.knobs.latency_ns, w.knobs.jitter_ns);
        let wr = if side == 0 { 0 } else { 1 };
        let c = &mut w.conns[cid];
        if c.reset {
            return Poll::Ready(Err(io::Error::new(io::ErrorKind::ConnectionReset, "Connection reset by peer")));
        }
        let p = &mut c.pipes[wr];
        if p.fin_at.is_some() {
            return Poll::Ready(Err(io::Error::new(io::ErrorKind::BrokenPipe, "Broken pipe")));
        }
        if data.is_empty() {
            return Poll::Ready(Ok(0));
        }
        if p.reader_gone {
            // The peer has closed its socket. A real kernel accepts the first write (it cannot know yet), the peer
            // answers with RST, and only writes after that round trip fail.
            let now = Instant::now();
            match p.rst_at {
                Some(at) if at <= now => {
                    w.stats.tcp_epipe += 1;
                    return Poll::Ready(Err(io::Error::new(io::ErrorKind::BrokenPipe, "Broken pipe")));
                }
                Some(_) => {}
                None => p.rst_at = Some(now + Duration::from_nanos(2 * lat)),
            }
            p.written += data.len() as u64;
            log::trace!("sim write-to-closed cid={cid} side={side} n={} discarded", data.len());
            w.log(7, (cid as u64) << 1 | side as u64, data.len() as u64);
            return Poll::Ready(Ok(data.len()));
        }
        let used = p.inflight_bytes + p.rbuf.len();
        let atomic = p.first_atomic && p.written == 0;
        if used >= p.cap && !atomic {
            p.writer_waker = Some(cx.waker().clone());
            w.stats.tcp_backpressure += 1;
            return Poll::Pending;
        }
        if p.harness_writer && !p.last_pending_wr && p.rng.permille(pending_pm) {
            p.last_pending_wr = true;
            w.stats.tcp_spurious_pending += 1;
            cx.waker().wake_by_ref();
            return Poll::Pending;
        }
        p.last_pending_wr = false;
        let n = if atomic {
            data.len()
        } else {
            let space = p.cap - used;
            let max = data.len().min(space);
            write_limit(p.write_style, &mut p.rng, max)
        };
        let now = Instant::now();
        let delay = lat + if jit > 0 { p.rng.below(jit + 1) } else { 0 };
        if delay == 0 && p.inflight.is_empty() {
            p.rbuf.extend(&data[..n]);
        } else {
            let mut at = now + Duration::from_nanos(delay);
            if at < p.last_deliver {
                at = p.last_deliver;
            }
            p.last_deliver = at;
            p.inflight.push_back((at, data[..n].to_vec()));
            p.inflight_bytes += n;
            w.stats.tcp_delayed_segments += 1;
        }
        p.written += n as u64;
        if let Some(wk) = p.reader_waker.take() {
            wk.wake();
        }
        w.stats.tcp_writes += 1;
        if n < data.len() {
            w.stats.tcp_partial_writes += 1;
        }
        log::trace!("sim write cid={cid} side={side} n={n} of {}", data.len());
        w.log(7, (cid as u64) << 1 | side as u64, n as u64);
        Poll::Ready(Ok(n))
    })
}

fn shutdown_impl(cid: usize, side: u8) {
    world::try_with(|w| {
        let lat = w.knobs.latency_ns;
        let wr = if side == 0 { 0 } else { 1 };
        let p = &mut w.conns[cid].pipes[wr];
        if p.fin_at.is_none() {
            let mut at = Instant::now() + Duration::from_nanos(lat);
            if at < p.last_deliver {
                at = p.last_deliver;
            }
            p.fin_at = Some(at);
            if let Some(wk) = p.reader_waker.take() {
                wk.wake();
            }
            log::trace!("sim shutdown cid={cid} side={side}");
            w.log(8, (cid as u64) << 1 | side as u64, 0);
        }
    });
}

impl Drop for TcpStream {
    fn drop(&mut self) {
        shutdown_impl(self.cid, self.side);
        world::try_with(|w| {
            let rd = if self.side == 0 { 1 } else { 0 };
            let c = &mut w.conns[self.cid];
            c.open[self.side as usize] = false;
            let p = &mut c.pipes[rd];
            p.reader_gone = true;
            p.timer = None;
            p.reader_waker = None;
            // unread data is discarded; the peer's further writes fail (EPIPE)
            p.rbuf.clear();
            p.inflight.clear();
            p.inflight_bytes = 0;
            if let Some(wk) = p.writer_waker.take() {
                wk.wake();
            }
            log::trace!("sim drop cid={} side={}", self.cid, self.side);
            w.log(10, (self.cid as u64) << 1 | self.side as u64, 0);
        });
    }
}

macro_rules! impl_io {
    ($t:ty) => {
        impl AsyncRead for $t {
            fn poll_read(self: Pin<&mut Self>, cx: &mut Context<'_>, buf: &mut ReadBuf<'_>) -> Poll<io::Result<()>> {
                poll_read_impl(self.cid, self.side, cx, buf, false)
            }
        }
    };
}

macro_rules! impl_write {
    ($t:ty) => {
        impl AsyncWrite for $t {
            fn poll_write(self: Pin<&mut Self>, cx: &mut Context<'_>, buf: &[u8]) -> Poll<io::Result<usize>> {
                poll_write_impl(self.cid, self.side, cx, buf)
            }

            fn poll_flush(self: Pin<&mut Self>, _: &mut Context<'_>) -> Poll<io::Result<()>> {
                Poll::Ready(Ok(()))
            }

            fn poll_shutdown(self: Pin<&mut Self>, _: &mut Context<'_>) -> Poll<io::Result<()>> {
                shutdown_impl(self.cid, self.side);
                Poll::Ready(Ok(()))
            }
        }
    };
}

impl_io!(TcpStream);
impl_io!(ReadHalf<'_>);
impl_write!(TcpStream);
impl_write!(WriteHalf<'_>);

// ---------------------------------------------------------------- udp

pub struct UdpSocket {
    sid: usize,
}

impl UdpSocket {
    pub async fn bind<A: ToBind>(addr: A) -> io::Result<UdpSocket> {
        Self::bind_now(addr.to_bind()?)
    }

    /// synchronous form of `bind` (the QUIC seam builds its endpoints outside an `async fn`)
    pub fn bind_now(mut addr: SocketAddr) -> io::Result<UdpSocket> {
        world::with(|w| {
            let node = world::current_node();
            if w.take_fault(FaultKind::UdpBindErr, addr.port(), node) || w.fd_exhausted(node, "emfile_udp_bind") {
                return Err(io::Error::from_raw_os_error(24));
            }
            if addr.port() == 0 {
                addr.set_port(w.alloc_port());
            }
            if w.udp_port_in_use(&addr) {
                return Err(io::Error::new(io::ErrorKind::AddrInUse, "Address already in use"));
            }
            let sid = w.udp.len();
            w.udp.push(UdpSock { addr, queue: Vec::new(), waker: None, timer: None, owner: node, open: true, sent: 0, received: 0 });
            w.log(11, sid as u64, addr.port() as u64);
            Ok(UdpSocket { sid })
        })
    }

    pub fn local_addr(&self) -> io::Result<SocketAddr> {
        Ok(world::with(|w| w.udp[self.sid].addr))
    }

    pub async fn send_to<A: ToTarget>(&self, buf: &[u8], target: A) -> io::Result<usize> {
        let dst = match target.to_target() {
            Target::Addr(a) => a,
            Target::Name(h, p) => super::dns::resolve(&h, p)?,
        };
        poll_fn(|cx| self.poll_send_to(cx, buf, dst)).await
    }

    pub fn poll_send_to(&self, _cx: &mut Context<'_>, buf: &[u8], dst: SocketAddr) -> Poll<io::Result<usize>> {
        Poll::Ready(self.send_now(buf, dst))
    }

    /// a datagram socket never blocks in this model: it delivers, loses or refuses at once
    pub fn send_now(&self, buf: &[u8], dst: SocketAddr) -> io::Result<usize> {
        world::with(|w| {
            let node = w.udp[self.sid].owner;
            let from = concrete(w.udp[self.sid].addr);
            let t_ns = w.now_ns();
            let mut rec = UdpSendRec { t_ns, node, from, to: dst, len: buf.len(), fate: 0, dup: false };
            if buf.len() > MAX_DGRAM {
                rec.fate = 4;
                w.udp_sends.push(rec);
                w.stats.udp_oversize += 1;
                return Err(io::Error::from_raw_os_error(90)); // EMSGSIZE
            }
            if w.udp[self.sid].addr.is_ipv4() != dst.is_ipv4() {
                // a socket of one address family cannot send to an address of the other (EAFNOSUPPORT)
                rec.fate = 6;
                w.udp_sends.push(rec);
                w.stats.udp_wrong_family += 1;
                return Err(io::Error::from_raw_os_error(97));
            }
            if w.take_fault(FaultKind::UdpSendErr, dst.port(), node) {
                rec.fate = 3;
                w.udp_sends.push(rec);
                return Err(io::Error::from_raw_os_error(105)); // ENOBUFS
            }
            w.udp[self.sid].sent += 1;
            w.stats.udp_sent += 1;
            if let Some(cap) = w.udp_capture.as_mut() {
                cap.push((from, dst, buf.to_vec()));
            }
            if w.udp_drop_to_ports.contains(&dst.port()) {
                rec.fate = 1;
                w.udp_sends.push(rec);
                w.stats.udp_lost += 1;
                w.log(12, self.sid as u64, buf.len() as u64);
                return Ok(buf.len());
            }
            if !w.udp_hold_ports.is_empty() && (w.udp_hold_ports.contains(&dst.port()) || w.udp_hold_ports.contains(&from.port())) {
                // parked by the in-path attacker; what becomes of it is the harness's decision
                rec.fate = 5;
                w.udp_sends.push(rec);
                w.udp_held.push((from, dst, buf.to_vec()));
                w.log(17, self.sid as u64, buf.len() as u64);
                return Ok(buf.len());
            }
            let Some(did) = w.find_udp(&dst) else {
                rec.fate = 2;
                w.udp_sends.push(rec);
                w.stats.udp_no_socket += 1;
                w.log(12, self.sid as u64, buf.len() as u64);
                return Ok(buf.len());
            };
            let (pf, pu) = w.knobs.udp_partition_ns;
            if pu > pf && t_ns >= pf && t_ns < pu && (w.knobs.udp_fault_ports.contains(&dst.port()) || w.knobs.udp_fault_ports.contains(&from.port())) {
                rec.fate = 1;
                w.udp_sends.push(rec);
                w.stats.udp_partitioned += 1;
                w.log(12, self.sid as u64, buf.len() as u64);
                return Ok(buf.len());
            }
            let k = &w.knobs;
            let faulty = (k.udp_loss_pm > 0 || k.udp_dup_pm > 0 || k.udp_reorder_pm > 0)
                && (k.udp_fault_ports.is_empty() || k.udp_fault_ports.contains(&dst.port()) || k.udp_fault_ports.contains(&from.port()));
            let (loss, dup, reorder, reorder_max, lat, jit) =
                (k.udp_loss_pm, k.udp_dup_pm, k.udp_reorder_pm, k.udp_reorder_max_ns, k.latency_ns, k.jitter_ns);
            let mut copies = 1;
            if faulty {
                if w.udp_rng.permille(loss) {
                    rec.fate = 1;
                    w.udp_sends.push(rec);
                    w.stats.udp_lost += 1;
                    w.log(12, self.sid as u64, buf.len() as u64);
                    return Ok(buf.len());
                }
                if w.udp_rng.permille(dup) {
                    copies = 2;
                    rec.dup = true;
                    w.stats.udp_dup += 1;
                }
            }
            let now = Instant::now();
            for _ in 0..copies {
                let mut delay = lat + if jit > 0 { w.udp_rng.below(jit + 1) } else { 0 };
                if faulty && w.udp_rng.permille(reorder) {
                    delay += w.udp_rng.below(reorder_max + 1);
                    w.stats.udp_reordered += 1;
                }
                w.dgram_seq += 1;
                let seq = w.dgram_seq;
                let d = &mut w.udp[did];
                d.queue.push(Dgram { at: now + Duration::from_nanos(delay), seq, from, data: buf.to_vec() });
                if let Some(wk) = d.waker.take() {
                    wk.wake();
                }
            }
            w.udp_sends.push(rec);
            w.log(12, self.sid as u64, buf.len() as u64);
            Ok(buf.len())
        })
    }

    pub async fn recv_from(&self, buf: &mut [u8]) -> io::Result<(usize, SocketAddr)> {
        poll_fn(|cx| {
            let mut rb = ReadBuf::new(buf);
            match self.poll_recv_from(cx, &mut rb) {
                Poll::Ready(Ok(a)) => Poll::Ready(Ok((rb.filled().len(), a))),
                Poll::Ready(Err(e)) => Poll::Ready(Err(e)),
                Poll::Pending => Poll::Pending,
            }
        })
        .await
    }

    pub fn poll_recv_from(&self, cx: &mut Context<'_>, buf: &mut ReadBuf<'_>) -> Poll<io::Result<SocketAddr>> {
        world::with(|w| {
            loop {
                let now = Instant::now();
                let s = &mut w.udp[self.sid];
                // earliest deliverable datagram (by time, then by send order)
                let mut best: Option<usize> = None;
                let mut next_at: Option<Instant> = None;
                for (i, d) in s.queue.iter().enumerate() {
                    if d.at <= now {
                        match best {
                            Some(b) if (s.queue[b].at, s.queue[b].seq) <= (d.at, d.seq) => {}
                            _ => best = Some(i),
                        }
                    } else {
                        next_at = Some(next_at.map_or(d.at, |n: Instant| n.min(d.at)));
                    }
                }
                if let Some(i) = best {
                    let d = s.queue.remove(i);
                    let n = d.data.len().min(buf.remaining());
                    buf.put_slice(&d.data[..n]);
                    s.received += 1;
                    s.timer = None;
                    let sid = self.sid as u64;
                    w.log(13, sid, n as u64);
                    return Poll::Ready(Ok(d.from));
                }
                s.waker = Some(cx.waker().clone());
                match next_at {
                    None => {
                        s.timer = None;
                        return Poll::Pending;
                    }
                    Some(at) => {
                        let mut sleep = Box::pin(tokio::time::sleep_until(at));
                        match sleep.as_mut().poll(cx) {
                            Poll::Ready(()) => continue,
                            Poll::Pending => {
                                s.timer = Some(sleep);
                                return Poll::Pending;
                            }
                        }
                    }
                }
            }
        })
    }

    pub fn sid(&self) -> usize {
        self.sid
    }
}

impl Drop for UdpSocket {
    fn drop(&mut self) {
        world::try_with(|w| {
            let s = &mut w.udp[self.sid];
            s.open = false;
            s.queue.clear();
            s.timer = None;
            s.waker = None;
            w.log(14, self.sid as u64, 0);
        });
    }
}

/// harness-only (an on-path attacker): deliver `data` to whatever socket is bound at `to`, as if it had been sent by
/// `from`. Returns false if nothing is bound there.
pub fn inject_datagram(from: SocketAddr, to: SocketAddr, data: &[u8]) -> bool {
    world::with(|w| {
        let Some(did) = w.find_udp(&to) else { return false };
        w.dgram_seq += 1;
        let seq = w.dgram_seq;
        let d = &mut w.udp[did];
        d.queue.push(Dgram { at: Instant::now(), seq, from, data: data.to_vec() });
        if let Some(wk) = d.waker.take() {
            wk.wake();
        }
        w.stats.udp_sent += 1;
        w.log(16, did as u64, data.len() as u64);
        true
    })
}
