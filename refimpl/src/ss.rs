//! Shadowsocks AEAD (SIP004): EVP_BytesToKey, HKDF-SHA1 "ss-subkey", little-endian
//! counter nonces, `salt | (AEAD(len) AEAD(payload))*`, length <= 0x3FFF,
//! UDP `salt | AEAD(nonce 0; addr | payload)`.

use crate::Addr;
use crate::Aead;
use crate::KeyNonce;
use crate::LeCounter;

pub const MAX_CHUNK: usize = 0x3FFF;

pub fn aead_of(cipher: &str) -> Option<Aead> {
    match cipher {
        "aes-128-gcm" => Some(Aead::Aes128Gcm),
        "aes-256-gcm" => Some(Aead::Aes256Gcm),
        "chacha20-poly1305" | "chacha20-ietf-poly1305" => Some(Aead::ChaCha20Poly1305),
        _ => None,
    }
}

/// OpenSSL EVP_BytesToKey with MD5, no salt, one iteration.
pub fn evp_bytes_to_key(password: &[u8], key_len: usize) -> Vec<u8> {
    use md5::Digest;
    let mut out = Vec::new();
    let mut prev: Vec<u8> = Vec::new();
    while out.len() < key_len {
        let mut h = md5::Md5::new();
        h.update(&prev);
        h.update(password);
        prev = h.finalize().to_vec();
        out.extend_from_slice(&prev);
    }
    out.truncate(key_len);
    out
}

pub fn subkey(master: &[u8], salt: &[u8]) -> Vec<u8> {
    let hk = hkdf::Hkdf::<sha1::Sha1>::new(Some(salt), master);
    let mut okm = vec![0u8; master.len()];
    hk.expand(b"ss-subkey", &mut okm).expect("hkdf");
    okm
}

pub struct StreamEnc {
    pub aead: Aead,
    pub key: Vec<u8>,
    pub ctr: LeCounter,
    pub max_chunk: usize,
}

impl StreamEnc {
    pub fn new(aead: Aead, master: &[u8], salt: &[u8]) -> Self {
        StreamEnc { aead, key: subkey(master, salt), ctr: LeCounter::default(), max_chunk: MAX_CHUNK }
    }

    pub fn with_key(aead: Aead, key: Vec<u8>, max_chunk: usize) -> Self {
        StreamEnc { aead, key, ctr: LeCounter::default(), max_chunk }
    }

    /// seal one unit with the next nonce
    pub fn seal(&mut self, pt: &[u8]) -> Vec<u8> {
        let n = self.ctr.next();
        self.aead.seal(&self.key, &n, &[], pt)
    }

    /// `[len][payload]` chunks for one application write
    pub fn write(&mut self, data: &[u8]) -> Vec<u8> {
        let mut out = Vec::new();
        for piece in data.chunks(self.max_chunk.max(1)) {
            out.extend(self.seal(&(piece.len() as u16).to_be_bytes()));
            out.extend(self.seal(piece));
        }
        out
    }
}

/// Strict incremental chunk decoder. `max_len`: 0x3FFF for SIP004, 0xFFFF for SIP022.
pub struct StreamDec {
    pub aead: Aead,
    pub key: Vec<u8>,
    pub ctr: LeCounter,
    pub buf: Vec<u8>,
    pub want_payload: Option<usize>,
    pub max_len: usize,
    pub used: Vec<KeyNonce>,
    /// plaintext length of every chunk seen (for sender-limit checks)
    pub chunk_lens: Vec<usize>,
    /// stream offset (in ciphertext bytes fed) at which each completed unit ended
    pub unit_ends: Vec<usize>,
    pub fed: usize,
    pub consumed: usize,
}

impl StreamDec {
    pub fn with_key(aead: Aead, key: Vec<u8>, max_len: usize) -> Self {
        StreamDec { aead, key, ctr: LeCounter::default(), buf: Vec::new(), want_payload: None, max_len, used: Vec::new(), chunk_lens: Vec::new(), unit_ends: Vec::new(), fed: 0, consumed: 0 }
    }

    pub fn open(&mut self, ct: &[u8]) -> Result<Vec<u8>, String> {
        let n = self.ctr.next();
        self.used.push(KeyNonce { key: self.key.clone(), nonce: n.to_vec() });
        self.aead.open(&self.key, &n, &[], ct)
    }

    /// Feed ciphertext; returns the plaintext that became available.
    pub fn feed(&mut self, data: &[u8]) -> Result<Vec<u8>, String> {
        self.buf.extend_from_slice(data);
        self.fed += data.len();
        let mut out = Vec::new();
        loop {
            match self.want_payload {
                None => {
                    if self.buf.len() < 2 + 16 {
                        break;
                    }
                    let ct: Vec<u8> = self.buf.drain(..18).collect();
                    self.consumed += 18;
                    let pt = self.open(&ct)?;
                    let len = u16::from_be_bytes([pt[0], pt[1]]) as usize;
                    if len > self.max_len {
                        return Err(format!("chunk length {len} exceeds the sender limit {:#x}", self.max_len));
                    }
                    self.unit_ends.push(self.consumed);
                    self.want_payload = Some(len);
                }
                Some(len) => {
                    if self.buf.len() < len + 16 {
                        break;
                    }
                    let ct: Vec<u8> = self.buf.drain(..len + 16).collect();
                    self.consumed += len + 16;
                    let pt = self.open(&ct)?;
                    self.chunk_lens.push(len);
                    self.unit_ends.push(self.consumed);
                    out.extend(pt);
                    self.want_payload = None;
                }
            }
        }
        Ok(out)
    }
}

/// A whole client->server stream for the given writes (the first write is preceded by the target address).
pub fn client_stream(cipher: &str, password: &[u8], salt: &[u8], addr: &Addr, writes: &[Vec<u8>]) -> Vec<u8> {
    let aead = aead_of(cipher).expect("legacy cipher");
    let master = evp_bytes_to_key(password, aead.key_len());
    let mut enc = StreamEnc::new(aead, &master, salt);
    let mut out = salt.to_vec();
    let mut first = addr.socks();
    if let Some(w) = writes.first() {
        first.extend_from_slice(w);
    }
    out.extend(enc.write(&first));
    for w in writes.iter().skip(1) {
        out.extend(enc.write(w));
    }
    out
}

pub fn server_stream(cipher: &str, password: &[u8], salt: &[u8], writes: &[Vec<u8>]) -> Vec<u8> {
    let aead = aead_of(cipher).expect("legacy cipher");
    let master = evp_bytes_to_key(password, aead.key_len());
    let mut enc = StreamEnc::new(aead, &master, salt);
    let mut out = salt.to_vec();
    for w in writes {
        out.extend(enc.write(w));
    }
    out
}

/// Strict parser of one direction: strips the salt, then chunks. `with_addr`: the plaintext starts with the address.
pub struct StreamParser {
    pub cipher: String,
    pub master: Vec<u8>,
    pub salt: Option<Vec<u8>>,
    pub pre: Vec<u8>,
    pub dec: Option<StreamDec>,
    pub plain: Vec<u8>,
    pub with_addr: bool,
    pub addr: Option<Addr>,
}

impl StreamParser {
    pub fn new(cipher: &str, password: &[u8], with_addr: bool) -> Self {
        let aead = aead_of(cipher).expect("legacy cipher");
        StreamParser { cipher: cipher.to_owned(), master: evp_bytes_to_key(password, aead.key_len()), salt: None, pre: Vec::new(), dec: None, plain: Vec::new(), with_addr, addr: None }
    }

    /// returns newly released payload bytes (after the address)
    pub fn feed(&mut self, data: &[u8]) -> Result<Vec<u8>, String> {
        let aead = aead_of(&self.cipher).unwrap();
        let mut data = data.to_vec();
        if self.dec.is_none() {
            self.pre.append(&mut data);
            if self.pre.len() < aead.key_len() {
                return Ok(Vec::new());
            }
            let salt: Vec<u8> = self.pre.drain(..aead.key_len()).collect();
            self.dec = Some(StreamDec::with_key(aead, subkey(&self.master, &salt), MAX_CHUNK));
            self.salt = Some(salt);
            data = std::mem::take(&mut self.pre);
        }
        let pt = self.dec.as_mut().unwrap().feed(&data)?;
        self.plain.extend(pt);
        if self.with_addr && self.addr.is_none() {
            match Addr::parse_socks(&self.plain) {
                Ok((a, used)) => {
                    self.addr = Some(a);
                    self.plain.drain(..used);
                }
                Err(_) if self.plain.len() < 260 => return Ok(Vec::new()),
                Err(e) => return Err(format!("address: {e}")),
            }
            return Ok(self.plain.clone());
        }
        if self.with_addr && self.addr.is_none() {
            return Ok(Vec::new());
        }
        Ok(self.plain.clone())
    }
}

pub fn udp_packet(cipher: &str, password: &[u8], salt: &[u8], addr: &Addr, payload: &[u8]) -> Vec<u8> {
    let aead = aead_of(cipher).expect("legacy cipher");
    let master = evp_bytes_to_key(password, aead.key_len());
    let key = subkey(&master, salt);
    let mut pt = addr.socks();
    pt.extend_from_slice(payload);
    let mut out = salt.to_vec();
    out.extend(aead.seal(&key, &[0u8; 12], &[], &pt));
    out
}

pub fn udp_open(cipher: &str, password: &[u8], packet: &[u8]) -> Result<(Vec<u8>, Addr, Vec<u8>, KeyNonce), String> {
    let aead = aead_of(cipher).expect("legacy cipher");
    let n = aead.key_len();
    if packet.len() < n + 16 {
        return Err("short packet".into());
    }
    let master = evp_bytes_to_key(password, n);
    let key = subkey(&master, &packet[..n]);
    let pt = aead.open(&key, &[0u8; 12], &[], &packet[n..])?;
    let (addr, used) = Addr::parse_socks(&pt)?;
    Ok((packet[..n].to_vec(), addr, pt[used..].to_vec(), KeyNonce { key, nonce: vec![0; 12] }))
}
