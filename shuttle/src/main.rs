//! E3 – thread-level engine: the real Shadowsocks-2022 server-side handshake
//! decoder with its shared salt cache, run by several threads under shuttle's
//! controlled scheduler (hook H6 takes the cache's Mutex from shuttle, so every
//! lock / try_lock is a scheduling point the scheduler decides).
//!
//!   shuttlecheck run --seed S --iterations N --out FILE [--replay-dir DIR]
//!   shuttlecheck replay <schedule file>
//!
//! Scenarios (drawn from shuttle's own seeded PRNG):
//!   same     2..4 threads present the *same* valid request  -> at most one acceptance
//!   distinct 2..4 threads present distinct valid requests   -> every one accepted
//!   mixed    two copies of one request plus distinct ones   -> copies <= 1, distinct all
//! Never a panic.

use std::collections::BTreeSet;
use std::sync::Arc;
use std::sync::Mutex as StdMutex;
use std::time::SystemTime;
use std::time::UNIX_EPOCH;

use bytes::BytesMut;
use octo_squirrel::codec::aead::CipherKind;
use octo_squirrel::codec::shadowsocks::tcp::AEADCipherCodec;
use octo_squirrel::codec::shadowsocks::tcp::Context;
use octo_squirrel::codec::shadowsocks::tcp::Identity;
use octo_squirrel::codec::shadowsocks::tcp::Session;
use octo_squirrel::protocol::shadowsocks::Mode;
use shuttle::rand::Rng;
use shuttle::scheduler::PctScheduler;
use shuttle::scheduler::RandomScheduler;
use shuttle::Config;
use shuttle::FailurePersistence;
use shuttle::Runner;

static ORDERS: StdMutex<BTreeSet<u64>> = StdMutex::new(BTreeSet::new());
static STATS: StdMutex<[u64; 8]> = StdMutex::new([0; 8]);

fn now() -> u64 {
    SystemTime::now().duration_since(UNIX_EPOCH).unwrap().as_secs()
}

fn request(key: &[u8; 32], salt: &[u8; 32], tag: u8) -> Vec<u8> {
    let addr = refimpl::Addr::V4([127, 0, 0, 9], 9000 + tag as u16);
    let o = refimpl::ss2022::ReqOpts { stream_type: 0, timestamp: now(), padding: 0, initial_payload: true };
    refimpl::ss2022::request("2022-blake3-aes-256-gcm", &[key.to_vec()], salt, &addr, &[tag; 20], &o).0
}

fn scenario() {
    let mut rng = shuttle::rand::thread_rng();
    let kind: u8 = rng.gen_range(0..3);
    let threads: usize = rng.gen_range(2..5);
    let mut key = [0u8; 32];
    rng.fill(&mut key);
    let ctx = Arc::new(Context::<32>::new(key, Vec::new(), CipherKind::Aead2022Blake3Aes256Gcm, None));
    // requests: index of the salt each thread presents
    let salts: Vec<[u8; 32]> = (0..threads).map(|_| { let mut s = [0u8; 32]; rng.fill(&mut s); s }).collect();
    let which: Vec<usize> = match kind {
        0 => vec![0; threads],
        1 => (0..threads).collect(),
        _ => (0..threads).map(|i| if i < 2 { 0 } else { i }).collect(),
    };
    let order = Arc::new(StdMutex::new(Vec::<u8>::new()));
    let mut handles = Vec::new();
    for t in 0..threads {
        let ctx = ctx.clone();
        let wire = request(&key, &salts[which[t]], which[t] as u8);
        let order = order.clone();
        handles.push(shuttle::thread::spawn(move || {
            let mut session = Session::<32>::new(Mode::Server, Identity::default(), None);
            let mut codec = AEADCipherCodec::<32>::default();
            let mut src = BytesMut::from(&wire[..]);
            order.lock().unwrap().push(t as u8);
            let r = codec.decode(&ctx, &mut session, &mut src);
            order.lock().unwrap().push(0x80 | t as u8);
            matches!(r, Ok(Some(_)))
        }));
    }
    let accepted: Vec<bool> = handles.into_iter().map(|h| h.join().expect("a decoding thread panicked")).collect();
    {
        let o = order.lock().unwrap();
        let mut h = 0xcbf29ce484222325u64 ^ kind as u64;
        for b in o.iter() {
            h = (h ^ *b as u64).wrapping_mul(0x100000001b3);
        }
        ORDERS.lock().unwrap().insert(h);
        let mut s = STATS.lock().unwrap();
        s[kind as usize] += 1;
        s[3] += 1;
        s[4] += threads as u64;
    }
    // group by request
    for r in 0..threads {
        let copies: Vec<usize> = (0..threads).filter(|t| which[*t] == r).collect();
        if copies.is_empty() {
            continue;
        }
        let n = copies.iter().filter(|t| accepted[**t]).count();
        if copies.len() == 1 {
            assert!(n == 1, "C09 distinct-refused: a fresh request presented once was refused (threads {threads}, scenario {kind})");
        } else {
            assert!(n <= 1, "C09 concurrent-replay-accepted: {n} of {} concurrent copies of one request were accepted", copies.len());
            assert!(n == 1, "C09 all-copies-refused: none of {} concurrent copies of a fresh request was accepted", copies.len());
        }
    }
}

fn main() {
    let args: Vec<String> = std::env::args().collect();
    let opt = |name: &str| args.iter().position(|a| a == name).and_then(|i| args.get(i + 1)).cloned();
    if args.get(1).map(|s| s.as_str()) == Some("replay") {
        let r = std::panic::catch_unwind(|| shuttle::replay_from_file(scenario, &args[2]));
        match r {
            Ok(()) => {
                println!("replay: the schedule runs clean on this tree");
                std::process::exit(0);
            }
            Err(e) => {
                let msg = e.downcast_ref::<String>().cloned().or_else(|| e.downcast_ref::<&str>().map(|s| s.to_string())).unwrap_or_default();
                println!("replay: reproduced: {}", msg.lines().next().unwrap_or(""));
                std::process::exit(1);
            }
        }
    }
    let seed: u64 = opt("--seed").and_then(|s| s.parse().ok()).unwrap_or(1);
    let iterations: usize = opt("--iterations").and_then(|s| s.parse().ok()).unwrap_or(2000);
    let dir = opt("--replay-dir").unwrap_or_else(|| "/verif/replays/shuttle".to_owned());
    std::fs::create_dir_all(&dir).ok();
    let mut violations = Vec::new();
    let t0 = std::time::Instant::now();
    for (name, pct) in [("random", false), ("pct", true)] {
        let mut cfg = Config::new();
        cfg.failure_persistence = FailurePersistence::File(Some(std::path::PathBuf::from(&dir)));
        let before: BTreeSet<String> = std::fs::read_dir(&dir).map(|d| d.filter_map(|e| e.ok()).map(|e| e.path().display().to_string()).collect()).unwrap_or_default();
        let r = std::panic::catch_unwind(move || {
            if pct {
                Runner::new(PctScheduler::new_from_seed(seed, 3, iterations), cfg).run(scenario);
            } else {
                Runner::new(RandomScheduler::new_from_seed(seed, iterations), cfg).run(scenario);
            }
        });
        if let Err(e) = r {
            let msg = e.downcast_ref::<String>().cloned().or_else(|| e.downcast_ref::<&str>().map(|s| s.to_string())).unwrap_or_default();
            let after: BTreeSet<String> = std::fs::read_dir(&dir).map(|d| d.filter_map(|e| e.ok()).map(|e| e.path().display().to_string()).collect()).unwrap_or_default();
            let file = after.difference(&before).next().cloned().unwrap_or_default();
            let line = msg.lines().find(|l| l.contains("C09 ")).unwrap_or(msg.lines().next().unwrap_or("")).to_owned();
            let oracle = line.split("C09 ").nth(1).and_then(|s| s.split(':').next()).unwrap_or("panic").to_owned();
            violations.push(serde_json::json!({ "signature": format!("C09/shuttle/{oracle}"), "detail": format!("[{name} scheduler, seed {seed}] {line}"), "replay": file }));
        }
    }
    let s = *STATS.lock().unwrap();
    let out = serde_json::json!({
        "violations": violations,
        "schedules": s[3],
        "threads_run": s[4],
        "scenario_same": s[0], "scenario_distinct": s[1], "scenario_mixed": s[2],
        "distinct_orders": ORDERS.lock().unwrap().len(),
        "wall_s": t0.elapsed().as_secs_f64(),
        "seed": seed,
    });
    match opt("--out") {
        Some(p) => std::fs::write(p, out.to_string()).unwrap(),
        None => println!("{out}"),
    }
}
