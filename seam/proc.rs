//! Process seam (hook H5): the harness hands the JSON configuration to the
//! real `main()` functions and suppresses log4rs initialisation (which can only
//! happen once per process).

use super::world;

pub fn take_client_config() -> Option<String> {
    world::try_with(|w| w.client_config.take()).flatten()
}

pub fn take_server_config() -> Option<String> {
    world::try_with(|w| w.server_config.take()).flatten()
}

pub fn skip_log_init() -> bool {
    true
}
