//! System-level TCP scenario: the real client and server `main()` on the
//! simulated network, scripted applications and targets, and the C01 oracle.

use std::collections::BTreeMap;
use std::net::IpAddr;
use std::net::Ipv4Addr;
use std::net::SocketAddr;
use std::sync::Arc;
use std::sync::Mutex;
use std::time::Duration;

use octo_squirrel::verif::world;

use crate::nodes::*;
use crate::plan::*;
use crate::report::Outcome;
use crate::report::Violation;
use crate::rnd::Gen;
use crate::rt;

pub struct TcpRun {
    pub startup_err: Option<String>,
    pub flows: Vec<FlowObs>,
    pub timed_out: bool,
    /// (streams, listeners, udp) open per node right after start-up and at the end
    pub idle_sockets: [(usize, usize, usize); 2],
    pub end_sockets: [(usize, usize, usize); 2],
    pub idle_tasks: [i64; 2],
    pub end_tasks: [i64; 2],
    pub mains_finished: (bool, bool),
    pub stall_dump: String,
    pub end_dump: String,
    /// the same counts taken when every flow had ended but before the harness peers let go of their sockets
    pub mid_sockets: Option<[(usize, usize, usize); 2]>,
    pub mid_tasks: Option<[i64; 2]>,
    pub mid_dump: String,
}

pub fn install_zone(plan: &Plan) {
    world::with(|w| {
        for f in &plan.flows {
            if let Some(n) = &f.target_name {
                if f.target_fault.as_deref() != Some("unresolvable") {
                    w.zone.insert(n.clone(), Some(IpAddr::V4(Ipv4Addr::from(f.target_ip))));
                }
            }
            if f.target_fault.as_deref() == Some("blackhole") {
                w.add_fault(world::FaultKind::ConnectHang, f.target_port, rt::NODE_SERVER, 1);
            }
        }
    });
}

pub fn flow_complete(f: &TcpFlow, ix: usize, o: &FlowObs) -> bool {
    if o.hs_err.is_some() {
        return true;
    }
    match f.ending {
        Ending::None => (o.app.script_done && o.target.script_done && o.app.recv.len() >= f.down_total() && o.target.recv.len() >= expected_up(f, ix).len()) || (o.app.end.is_some() && (o.target.end.is_some() || o.target_accepts == 0)),
        _ if f.target_fault.is_some() => o.app.end.is_some() || o.app.closed_ns.is_some(),
        Ending::AppAfterWrite | Ending::AppAfterAll | Ending::AppReset | Ending::AppAbandon | Ending::AppResetAfterWrite => o.app.closed_ns.is_some() && o.target.end.is_some(),
        Ending::TargetAfterWrite | Ending::TargetAfterAll | Ending::TargetReset | Ending::TargetAbandon | Ending::TargetResetAfterWrite => o.target.closed_ns.is_some() && o.app.end.is_some(),
    }
}

pub fn script_ms(f: &TcpFlow) -> u64 {
    let p = |ops: &Vec<Op>| ops.iter().map(|o| if let Op::Pause(ms) = o { *ms } else { 0 }).sum::<u64>();
    f.start_ms + p(&f.up) + p(&f.down)
}

/// Run all flows of the plan through the real system and collect what every endpoint saw.
pub async fn run_tcp_system(plan: &Plan, atomic_handshake: bool) -> TcpRun {
    run_tcp_system_via(plan, atomic_handshake, None).await.0
}

/// Same, optionally with the man-in-the-middle proxy on the client <-> server link.
pub async fn run_tcp_system_via(
    plan: &Plan,
    atomic_handshake: bool,
    link: Option<(crate::proxy::DirScript, crate::proxy::DirScript)>,
) -> (TcpRun, crate::proxy::ProxyObs) {
    let pobs = Arc::new(Mutex::new(crate::proxy::ProxyObs::default()));
    let proxy_task = link.map(|(a, b)| tokio::spawn(crate::proxy::run_proxy(a, b, pobs.clone())));
    let via_port = if proxy_task.is_some() { crate::proxy::PROXY_PORT } else { SERVER_PORT };
    let run = run_tcp_system_inner(plan, atomic_handshake, via_port).await;
    if let Some(t) = proxy_task {
        t.abort();
        let _ = t.await;
    }
    let o = std::mem::take(&mut *pobs.lock().unwrap());
    (run, o)
}

async fn run_tcp_system_inner(plan: &Plan, atomic_handshake: bool, via_port: u16) -> TcpRun {
    install_zone(plan);
    if is_2022(&plan.config.cipher) && plan.config.proto == Proto::Shadowsocks {
        // SIP022: salt and fixed-length header must arrive in the first read – the boundary the properties exempt
        world::with(|w| {
            w.first_atomic_ports.push(SERVER_PORT);
            w.first_atomic_ports.push(crate::proxy::PROXY_PORT);
        });
    }
    let mut run = TcpRun {
        startup_err: None,
        flows: Vec::new(),
        timed_out: false,
        idle_sockets: [(0, 0, 0); 2],
        end_sockets: [(0, 0, 0); 2],
        idle_tasks: [0; 2],
        end_tasks: [0; 2],
        mains_finished: (false, false),
        stall_dump: String::new(),
        end_dump: String::new(),
        mid_sockets: None,
        mid_tasks: None,
        mid_dump: String::new(),
    };
    let mains = match start_system(&plan.config, "127.0.0.1", via_port).await {
        Ok(m) => m,
        Err(e) => {
            run.startup_err = Some(e);
            return run;
        }
    };
    run.idle_sockets = world::with(|w| [w.open_sockets(rt::NODE_CLIENT), w.open_sockets(rt::NODE_SERVER)]);
    run.idle_tasks = [rt::alive_tasks_of(rt::NODE_CLIENT), rt::alive_tasks_of(rt::NODE_SERVER)];

    // applications that begin a local handshake and leave it unfinished: the bytes are written, then the connection is closed
    // or simply held. The client gives such a connection up at its 30 s handshake deadline at the latest.
    // (third element: the peer is not a local application but someone who connects to the *server's* port, sends the beginning
    // of a carrier / protocol handshake and closes)
    let abandoned: Vec<(Vec<u8>, bool, bool)> = plan.extra.get("abandoned_handshakes").and_then(|v| serde_json::from_value(v.clone()).ok()).unwrap_or_default();
    let mut abandoned_guards = Vec::new();
    for (bytes, close, to_server) in abandoned.iter().cloned() {
        abandoned_guards.push(spawn_scoped(async move {
            use tokio::io::AsyncWriteExt;
            let Ok(mut s) = octo_squirrel::verif::net::TcpStream::connect(if to_server { SocketAddr::new(IpAddr::V4(Ipv4Addr::LOCALHOST), via_port) } else { client_addr() }).await else { return };
            s.set_own_styles(0, 0);
            // (through a tiny window the bytes may not all go out: the peer does not wait for that)
            let _ = tokio::time::timeout(Duration::from_secs(2), s.write_all(&bytes)).await;
            if close {
                let _ = tokio::time::timeout(Duration::from_secs(1), s.shutdown()).await;
                // (a closed application no longer reads: the descriptor goes after a moment)
                tokio::time::sleep(Duration::from_millis(200)).await;
                drop(s);
            }
            std::future::pending::<()>().await;
        }));
    }
    let obs: Vec<Shared<FlowObs>> = plan.flows.iter().map(|_| Arc::new(Mutex::new(FlowObs::default()))).collect();
    let mut tasks = Vec::new();
    let skipped = |f: &TcpFlow| f.target_fault.as_deref() == Some("skip");
    for (ix, f) in plan.flows.iter().enumerate().filter(|(_, f)| !skipped(f)) {
        tasks.push(tokio::spawn(run_target(ix, f.clone(), obs[ix].clone())));
    }
    tokio::task::yield_now().await;
    for (ix, f) in plan.flows.iter().enumerate().filter(|(_, f)| !skipped(f)) {
        tasks.push(tokio::spawn(run_app(ix, f.clone(), obs[ix].clone(), atomic_handshake)));
    }
    let mut budget_ms = 150_000 + plan.flows.iter().map(script_ms).max().unwrap_or(0);
    let mut waited = 0u64;
    let mut last_ev = 0u64;
    loop {
        let done = plan.flows.iter().enumerate().all(|(ix, f)| skipped(f) || flow_complete(f, ix, &obs[ix].lock().unwrap()));
        if done {
            break;
        }
        if waited >= budget_ms {
            // slow is not stalled: while sockets are still moving bytes, keep waiting (bounded)
            // (progress = bytes moving on stream sockets; QUIC keep-alive datagrams are not progress)
            let ev = world::with(|w| w.stats.tcp_reads + w.stats.tcp_writes);
            if ev != last_ev && waited < 40 * budget_ms {
                last_ev = ev;
                budget_ms += 30_000;
            } else {
                run.timed_out = true;
                break;
            }
        }
        let step = if waited < 1000 { 5 } else { 250 };
        tokio::time::sleep(Duration::from_millis(step)).await;
        waited += step;
    }
    if !abandoned.is_empty() {
        // past the client's handshake deadline for all of them
        let now_ms = now_ns() / 1_000_000;
        if now_ms < 36_000 {
            tokio::time::sleep(Duration::from_millis(36_000 - now_ms)).await;
        }
    }
    if run.timed_out {
        run.stall_dump = dump_conns();
    } else {
        // every flow has ended at both of its ends while the peers that did not close still hold their sockets:
        // the proxies must have let go of everything already (release must not wait for the second peer to close)
        let ended = |o: &FlowObs| (o.app.end.is_some() || o.app.closed_ns.is_some()) && (o.target.end.is_some() || o.target.closed_ns.is_some() || o.target_accepts == 0);
        if plan.flows.iter().enumerate().all(|(ix, f)| skipped(f) || ended(&obs[ix].lock().unwrap())) {
            tokio::time::sleep(Duration::from_secs(if plan.config.transport == Transport::Quic { 50 } else { 20 })).await;
            if plan.config.transport == Transport::Quic && (plan.knobs.dgram_loss_pm > 0 || plan.extra.get("quic_outage").is_some_and(|v| v.is_object())) {
                // a QUIC connection whose peer has gone is given up by quinn's timers (30 s idle time-out, then the closing /
                // draining period of three probe time-outs, which repeated loss has backed off): on a lossy datagram link that
                // was seen to take 65 s after the connection's last packet. Those are the transport's clocks, not the relay's:
                // the measurement waits for them (bounded), a task that is still there afterwards is held by the relay.
                for _ in 0..70 {
                    if rt::alive_tasks_of(rt::NODE_SERVER) == run.idle_tasks[1] && rt::alive_tasks_of(rt::NODE_CLIENT) == run.idle_tasks[0] {
                        break;
                    }
                    tokio::time::sleep(Duration::from_secs(1)).await;
                }
            }
            run.mid_sockets = Some(world::with(|w| [w.open_sockets(rt::NODE_CLIENT), w.open_sockets(rt::NODE_SERVER)]));
            run.mid_tasks = Some([rt::alive_tasks_of(rt::NODE_CLIENT), rt::alive_tasks_of(rt::NODE_SERVER)]);
            if std::env::var_os("VERIF_DEBUG_MID").is_some() {
                eprintln!("MID at {:.3} s: tasks {:?} idle {:?} sockets {:?} idle {:?}", now_ns() as f64 / 1e9, run.mid_tasks, run.idle_tasks, run.mid_sockets, run.idle_sockets);
                for (ix, o) in obs.iter().enumerate() {
                    let o = o.lock().unwrap();
                    eprintln!("  flow {ix}: app fin {:?} first write {:?} target recv log {:?} app recv log {:?}", o.app.fin_ns.map(|x| x as f64 / 1e9), o.app.first_write_ns.map(|x| x as f64 / 1e9), o.target.recv_log.iter().map(|(t, n)| (*t as f64 / 1e9, *n)).collect::<Vec<_>>().iter().rev().take(4).collect::<Vec<_>>(), o.app.recv_log.iter().rev().take(2).collect::<Vec<_>>());
                    eprintln!("  flow {ix}: app end {:?} at {:.3} closed {:?}; target end {:?} at {:.3} closed {:?} accepts {}", o.app.end, o.app.end_ns as f64 / 1e9, o.app.closed_ns.map(|x| x as f64 / 1e9), o.target.end, o.target.end_ns as f64 / 1e9, o.target.closed_ns.map(|x| x as f64 / 1e9), o.target_accepts);
                }
                for s in 0..60 {
                    if rt::alive_tasks_of(rt::NODE_SERVER) == run.idle_tasks[1] {
                        eprintln!("  server tasks back at idle {s} s after the mid measurement, at {:.3}", now_ns() as f64 / 1e9);
                        break;
                    }
                    tokio::time::sleep(Duration::from_secs(1)).await;
                }
                world::with(|w| {
                    let n = w.udp_sends.len();
                    for r in &w.udp_sends[n.saturating_sub(40)..] {
                        eprintln!("  UDP t={:.3} n{} {} -> {} len {} fate {}", r.t_ns as f64 / 1e9, r.node, r.from, r.to, r.len, r.fate);
                    }
                });
            }
            if run.mid_sockets != Some(run.idle_sockets) {
                run.mid_dump = dump_conns();
            }
        }
    }
    // grace period: let teardown finish everywhere
    for t in &tasks {
        t.abort();
    }
    for t in tasks {
        let _ = t.await;
    }
    // (QUIC connections drain and time out on their own clock: up to the 30 s idle timeout after the last flow ended)
    tokio::time::sleep(Duration::from_secs(if plan.config.transport == Transport::Quic { 50 } else { 20 })).await;
    run.end_sockets = world::with(|w| [w.open_sockets(rt::NODE_CLIENT), w.open_sockets(rt::NODE_SERVER)]);
    run.end_tasks = [rt::alive_tasks_of(rt::NODE_CLIENT), rt::alive_tasks_of(rt::NODE_SERVER)];
    if run.end_sockets != run.idle_sockets {
        run.end_dump = dump_conns();
    }
    run.mains_finished = (mains.client.is_finished(), mains.server.is_finished());
    drop(abandoned_guards);
    for o in obs {
        let mut g = o.lock().unwrap();
        run.flows.push(std::mem::take(&mut *g));
    }
    run
}

/// State of every open connection (for diagnosing a stall): who holds it, bytes written/read per direction,
/// what is buffered and who is parked on it.
pub fn dump_conns() -> String {
    world::with(|w| {
        let mut out = String::new();
        for (i, c) in w.conns.iter().enumerate() {
            if !c.open[0] && !c.open[1] {
                continue;
            }
            out.push_str(&format!("[c{i} {}->{} n{}/n{} open={:?}", c.a_addr.port(), c.b_addr.port(), c.owner[0], c.owner[1], c.open));
            for (d, p) in c.pipes.iter().enumerate() {
                out.push_str(&format!(
                    " {}: w{} r{} buf{} cap{} rdwait={} wrwait={} fin={}",
                    if d == 0 { "a>b" } else { "b>a" },
                    p.written,
                    p.read,
                    p.inflight_bytes + p.rbuf.len(),
                    p.cap,
                    p.reader_waker.is_some(),
                    p.writer_waker.is_some(),
                    p.fin_at.is_some()
                ));
            }
            out.push_str("] ");
        }
        out
    })
}

pub fn first_mismatch(got: &[u8], want: &[u8]) -> Option<usize> {
    let n = got.len().min(want.len());
    for i in 0..n {
        if got[i] != want[i] {
            return Some(i);
        }
    }
    if got.len() > want.len() { Some(want.len()) } else { None }
}

pub fn hs_name(h: LocalHs) -> &'static str {
    match h {
        LocalHs::Socks5V4 => "socks5-v4",
        LocalHs::Socks5Domain => "socks5-domain",
        LocalHs::HttpConnect => "http-connect",
        LocalHs::HttpPlain => "http-plain",
    }
}

pub fn ending_name(e: Ending) -> &'static str {
    match e {
        Ending::None => "open",
        Ending::AppAfterWrite => "app-close-after-write",
        Ending::AppAfterAll => "app-close-after-all",
        Ending::TargetAfterWrite => "target-close-after-write",
        Ending::TargetAfterAll => "target-close-after-all",
        Ending::AppReset => "app-reset",
        Ending::TargetReset => "target-reset",
        Ending::AppAbandon => "app-abandon",
        Ending::TargetAbandon => "target-abandon",
        Ending::AppResetAfterWrite => "app-reset-after-write",
        Ending::TargetResetAfterWrite => "target-reset-after-write",
    }
}

/// The C01 oracle over the recorded history.
pub fn check_c01(plan: &Plan, run: &TcpRun, w: &world::World) -> Vec<Violation> {
    let mut v = Vec::new();
    let cell = plan.config.label();
    let sig = |oracle: &str, f: &TcpFlow| format!("C01/{oracle}/{cell}/{}/{}", hs_name(f.hs), ending_name(f.ending));
    if let Some(e) = &run.startup_err {
        v.push(Violation::new("C01", format!("C01/startup/{cell}"), e.clone()));
        return v;
    }
    let server_connects: Vec<_> = w.connects.iter().filter(|c| c.node == rt::NODE_SERVER).collect();
    let mut claimed = vec![false; server_connects.len()];
    for (ix, f) in plan.flows.iter().enumerate() {
        let o = &run.flows[ix];
        if let Some(e) = &o.hs_err {
            v.push(Violation::new("C01", sig("local-handshake", f), format!("flow {ix}: {e}")));
            continue;
        }
        let want_up = expected_up(f, ix);
        let want_down = expected_down(f, ix);
        // (1) exactly one dial, to exactly the requested address
        let taddr = target_addr(f);
        let mut dials = 0;
        for (i, c) in server_connects.iter().enumerate() {
            if c.dst == taddr {
                dials += 1;
                claimed[i] = true;
            }
        }
        let wrote_any = o.app.wrote > 0;
        if wrote_any && dials != 1 {
            v.push(Violation::new("C01", sig(if dials == 0 { "no-dial" } else { "dial-count" }, f), format!("flow {ix}: server dialled {taddr} {dials} times (target accepted {})", o.target_accepts)));
        }
        if let Some(name) = &f.target_name {
            let asked = w.dns_queries.iter().filter(|q| q.node == rt::NODE_SERVER && &q.name == name).count();
            if wrote_any && asked == 0 && dials > 0 {
                v.push(Violation::new("C01", sig("dns-name", f), format!("flow {ix}: target reached without resolving {name:?}")));
            }
        }
        // (2) exactly once, in order, unmodified
        if let Some(at) = first_mismatch(&o.target.recv, &want_up) {
            v.push(Violation::new("C01", sig("corrupt-up", f), format!("flow {ix}: target stream differs from what the application wrote at offset {at} (got {} bytes, sent {}); got {:02x?} expected {:02x?}", o.target.recv.len(), want_up.len(), &o.target.recv[at..(at + 24).min(o.target.recv.len())], &want_up[at.min(want_up.len())..(at + 24).min(want_up.len())])));
        }
        if let Some(at) = first_mismatch(&o.app.recv, &want_down) {
            v.push(Violation::new("C01", sig("corrupt-down", f), format!("flow {ix}: application stream differs from what the target wrote at offset {at} (got {} bytes, sent {}); got {:02x?} expected {:02x?}", o.app.recv.len(), want_down.len(), &o.app.recv[at..(at + 24).min(o.app.recv.len())], &want_down[at.min(want_down.len())..(at + 24).min(want_down.len())])));
        }
        // (3) completeness
        let up_complete = o.target.recv.len() >= want_up.len();
        let down_complete = o.app.recv.len() >= want_down.len();
        // an abort that follows the data (RST ordered after it, see `Pipe::fin_is_rst`): the proxy has read every byte before the
        // error, so they are owed to the other end - demanded while the opposite direction is at rest (the teardown race of
        // the known finding is a different matter)
        let rest_up = o.target.recv.len() >= want_up.len() && o.app.script_done;
        let rest_down = o.app.recv.len() >= want_down.len() && o.target.script_done;
        let (need_up, need_down, need_app_eof, need_target_eof) = match f.ending {
            Ending::TargetResetAfterWrite => (false, rest_up, false, false),
            Ending::AppResetAfterWrite => (rest_down, false, false, false),
            Ending::None => (true, true, false, false),
            Ending::TargetAfterAll => (true, true, true, false),
            Ending::TargetAfterWrite => (false, true, true, false),
            Ending::AppAfterAll => (true, true, false, true),
            Ending::AppAfterWrite => (true, false, false, true),
            Ending::AppReset | Ending::TargetReset | Ending::AppAbandon | Ending::TargetAbandon => (false, false, false, false),
        };
        // was the opposite direction still moving when this one ended? (qualifies the teardown-race finding)
        let down_active = !down_complete || !o.target.script_done;
        let up_active = !up_complete || !o.app.script_done;
        let up_oracle = if o.target.end.is_some() { if down_active { "truncated-up+down-active" } else { "truncated-up" } } else { "stalled-up" };
        let down_oracle = if o.app.end.is_some() { if up_active { "truncated-down+up-active" } else { "truncated-down" } } else { "stalled-down" };
        if need_up && !up_complete && o.app.write_err.is_none() {
            v.push(Violation::new("C01", sig(up_oracle, f), format!("flow {ix}: target received {} of {} bytes (timed_out={}, target end={:?}) {}", o.target.recv.len(), want_up.len(), run.timed_out, o.target.end, run.stall_dump)));
        }
        if need_up && o.app.write_err.is_some() && !matches!(f.ending, Ending::TargetAfterWrite | Ending::TargetReset) {
            v.push(Violation::new("C01", sig("app-write-failed", f), format!("flow {ix}: application write failed with {:?} after {} bytes", o.app.write_err, o.app.wrote)));
        }
        if need_down && !down_complete {
            v.push(Violation::new("C01", sig(down_oracle, f), format!("flow {ix}: application received {} of {} bytes (timed_out={}, app end={:?}, target wrote {}, target write_err={:?})", o.app.recv.len(), want_down.len(), run.timed_out, o.app.end, o.target.wrote, o.target.write_err)));
        }
        if need_app_eof && down_complete && o.app.end != Some(End::Eof) {
            v.push(Violation::new("C01", sig("no-eof-at-app", f), format!("flow {ix}: target closed after answering but the application saw {:?}", o.app.end)));
        }
        if need_target_eof && up_complete && o.target.end != Some(End::Eof) {
            v.push(Violation::new("C01", sig("no-eof-at-target", f), format!("flow {ix}: application closed after writing but the target saw {:?}", o.target.end)));
        }
    }
    for (i, c) in server_connects.iter().enumerate() {
        if !claimed[i] {
            v.push(Violation::new("C01", format!("C01/stray-dial/{cell}"), format!("server dialled {} (name {:?}) which no application asked for", c.dst, c.name)));
        }
    }
    v
}

pub fn gen_flow(g: &mut Gen, ix: usize, hs: LocalHs, ending: Ending, max_bytes: usize) -> TcpFlow {
    let by_name = matches!(hs, LocalHs::Socks5Domain) || (matches!(hs, LocalHs::HttpConnect | LocalHs::HttpPlain) && g.chance(60));
    let target_ip = [127, 0, 1 + ix as u8, g.range(1, 254) as u8];
    let target_port = if hs == LocalHs::HttpPlain && g.chance(30) { 80 } else { g.range(1024, 39_999) as u16 };
    let target_name = if by_name {
        let n = g.range(1, 40) as usize;
        let mut s: String = (0..n).map(|_| *g.pick(&[b'a', b'b', b'z', b'0', b'9', b'-', b'x']) as char).collect();
        s.push_str(&format!(".t{ix}.test"));
        Some(s)
    } else {
        None
    };
    let mut up = gen_ops(g, max_bytes);
    if !up.iter().any(|o| matches!(o, Op::Write(_))) {
        up.push(Op::Write(g.range(1, 2000) as usize));
    }
    let down = gen_ops(g, max_bytes);
    let up_total: usize = up.iter().map(|o| if let Op::Write(n) = o { *n } else { 0 }).sum();
    let target_waits_for = if g.chance(50) { 1 } else { g.range(1, up_total as u64) as usize };
    TcpFlow { hs, target_name, target_ip, target_port, start_ms: *g.pick(&[0, 0, 0, 1, 7, 300]), up, down, target_waits_for, ending, target_fault: None }
}

pub const C01_ENDINGS: [Ending; 7] = [Ending::None, Ending::AppAfterWrite, Ending::AppAfterAll, Ending::TargetAfterWrite, Ending::TargetAfterAll, Ending::TargetResetAfterWrite, Ending::AppResetAfterWrite];
pub const ALL_HS: [LocalHs; 4] = [LocalHs::Socks5V4, LocalHs::Socks5Domain, LocalHs::HttpConnect, LocalHs::HttpPlain];
pub const TCP_TRANSPORTS: [Transport; 4] = [Transport::Tcp, Transport::Tls, Transport::Ws, Transport::Wss];
/// every client <-> server transport of the README table
pub const ALL_TRANSPORTS: [Transport; 5] = [Transport::Tcp, Transport::Tls, Transport::Ws, Transport::Wss, Transport::Quic];

/// C01 plan for a seed: the configuration cell cycles through the README table, everything else is drawn.
pub fn gen_c01(seed: u64, thorough: bool) -> Plan {
    let mut g = Gen::new(seed, 1);
    let cells = all_proto_ciphers();
    let (proto, cipher) = cells[(seed as usize) % cells.len()];
    let transport = ALL_TRANSPORTS[((seed as usize) / cells.len()) % ALL_TRANSPORTS.len()];
    let n_users = if proto == Proto::Shadowsocks && supports_eih(cipher) && g.chance(50) { g.range(1, 3) as usize } else { 0 };
    let config = gen_config(&mut g, proto, cipher, transport, n_users);
    let n_flows = if thorough { g.range(1, 12) } else { g.range(1, 4) } as usize;
    let max_bytes = if thorough && g.chance(10) { 3_000_000 } else if g.chance(20) { 200_000 } else { 20_000 };
    let knobs = KnobsPlan::generate(&mut g).for_transport(transport).with_dgram_faults(&mut g, transport);
    let max_bytes = if knobs.sndbuf <= 64 { max_bytes.min(6000) } else { max_bytes };
    // byte-at-a-time reads under TLS cost a deframer pass per byte: keep those runs short, not absent
    let tlsish = matches!(transport, Transport::Tls | Transport::Wss);
    let max_bytes = match (knobs.read_style, tlsish) {
        (1, true) => max_bytes.min(3000),
        (1, false) | (2, true) => max_bytes.min(20_000),
        _ => max_bytes,
    };
    let mut flows = Vec::new();
    for ix in 0..n_flows {
        let hs = *g.pick(&ALL_HS);
        let ending = *g.pick(&C01_ENDINGS);
        flows.push(gen_flow(&mut g, ix, hs, ending, max_bytes));
    }
    if proto == Proto::Vmess && g.chance(6) {
        // a flow of very many very small writes: more chunks in one direction than VMess's 16-bit chunk counter counts
        // (the counter wraps by design; the flow goes on)
        let n = 66_000 + g.range(0, 3000) as usize;
        let f = &mut flows[0];
        f.ending = Ending::None;
        f.target_waits_for = 1;
        if g.chance(50) {
            f.up = (0..n).flat_map(|_| [Op::Write(1), Op::Pause(1)]).collect();
            f.down = vec![Op::Write(64)];
        } else {
            f.up = vec![Op::Write(64)];
            f.down = (0..n).flat_map(|_| [Op::Write(1), Op::Pause(1)]).collect();
        }
        flows.truncate(1);
    }
    Plan { property: "C01".into(), scenario: "tcp-system".into(), seed, net_seed: g.next(), config, knobs, flows, extra: serde_json::Value::Null }
}

pub fn plan_shape_hash(plan: &Plan) -> u64 {
    let s = serde_json::to_string(&(&plan.config.proto, &plan.config.cipher, &plan.config.transport, &plan.knobs, &plan.flows)).unwrap();
    let mut h = 0xcbf29ce484222325u64;
    for b in s.bytes() {
        h = (h ^ b as u64).wrapping_mul(0x100000001b3);
    }
    h
}

pub fn execute_c01(plan: &Plan) -> Outcome {
    let out = rt::run_sim(plan.seed, plan.net_seed, plan.knobs.to_knobs(), || run_tcp_system(plan, true));
    let mut violations = check_c01(plan, &out.result, &out.world);
    for p in &out.panics {
        violations.push(Violation::new("C01", format!("C01/panic/{}/{}", plan.config.label(), p.frame), format!("panic in node {}: {} at {}", p.node, p.message, p.location)));
    }
    let relayed: usize = out.result.flows.iter().map(|f| f.app.recv.len() + f.target.recv.len()).sum();
    let mut probes = BTreeMap::new();
    probes.insert("bytes_relayed".to_owned(), relayed as u64);
    probes.insert("flows".to_owned(), plan.flows.len() as u64);
    probes.insert("runs_timed_out".to_owned(), out.result.timed_out as u64);
    Outcome {
        violations,
        ev_hash: out.world.ev_hash,
        ev_count: out.world.ev_count,
        poll_hash: out.poll_hash,
        polls: out.polls,
        sim_ns: out.sim_ns,
        stats: crate::report::world_stats(&out.world),
        nontrivial: relayed > 0,
        case_hash: out.poll_hash ^ plan_shape_hash(plan),
        probes,
        panics: out.panics,
        extra_evaluations: 0,
        extra_cases: Vec::new(),
    }
}

// ---------------------------------------------------------------- C09 (task level)

#[derive(Debug, PartialEq, Eq, Clone)]
pub struct FlowSummary {
    pub handshake_ok: bool,
    pub dialled: usize,
    pub up_bytes: usize,
    pub up_intact: bool,
    pub down_bytes: usize,
    pub down_intact: bool,
    pub app_end: Option<String>,
    pub target_end: Option<String>,
}

pub fn summarise(plan: &Plan, run: &TcpRun, w: &world::World) -> Vec<FlowSummary> {
    plan.flows
        .iter()
        .enumerate()
        .map(|(ix, f)| {
            let o = &run.flows[ix];
            let taddr = target_addr(f);
            let end = |e: &Option<End>| e.as_ref().map(|e| match e { End::Eof => "eof".to_owned(), End::Err(k) => k.clone() });
            FlowSummary {
                handshake_ok: o.hs_err.is_none(),
                dialled: w.connects.iter().filter(|c| c.node == rt::NODE_SERVER && c.dst == taddr).count(),
                up_bytes: o.target.recv.len(),
                up_intact: first_mismatch(&o.target.recv, &expected_up(f, ix)).is_none(),
                down_bytes: o.app.recv.len(),
                down_intact: first_mismatch(&o.app.recv, &expected_down(f, ix)).is_none(),
                app_end: end(&o.app.end),
                target_end: end(&o.target.end),
            }
        })
        .collect()
}

/// C09: k flows at once, then every flow alone; a flow's observable result must not depend on its neighbours.
pub fn gen_c09(seed: u64, thorough: bool) -> Plan {
    let mut g = Gen::new(seed, 9);
    let cells = all_proto_ciphers();
    let (proto, cipher) = cells[(seed as usize) % cells.len()];
    let transport = ALL_TRANSPORTS[((seed as usize) / cells.len()) % ALL_TRANSPORTS.len()];
    let n_users = if proto == Proto::Shadowsocks && supports_eih(cipher) && g.chance(50) { 2 } else { 0 };
    let config = gen_config(&mut g, proto, cipher, transport, n_users);
    // (clean datagram link under QUIC: with loss the together / alone comparison would be between two different random experiments)
    let mut knobs = KnobsPlan::generate(&mut g).for_transport(transport);
    // a crowd: many small flows that are all open at the same time for minutes (each exchanges a little, stays silent for
    // 100 simulated seconds, exchanges a little more) - a flow's handshake and data must not wait for other flows to end
    let crowd = g.chance(3);
    if crowd {
        knobs = KnobsPlan::simple().for_transport(transport);
    }
    let n_flows = if crowd { g.range(40, if thorough { 400 } else { 160 }) } else if g.chance(10) { g.range(9, if thorough { 64 } else { 24 }) } else { g.range(2, 8) } as usize;
    let max_bytes = if knobs.sndbuf <= 64 || knobs.read_style == 1 { 2000 } else { 12_000 };
    let mut flows = Vec::new();
    for ix in 0..n_flows {
        let hs = *g.pick(&ALL_HS);
        // endings whose outcome does not hinge on a race with the opposite direction
        let ending = *g.pick(&[Ending::None, Ending::AppAfterAll, Ending::TargetAfterAll]);
        let mut f = gen_flow(&mut g, ix % 200, hs, ending, if crowd { 300 } else { max_bytes });
        f.target_ip = [127, 0, 1 + (ix / 200) as u8 + (ix % 200) as u8 % 50, 1 + (ix as u8 % 250)];
        f.target_port = 10_000 + ix as u16;
        f.start_ms = *g.pick(&[0, 0, 0, 1, 3]);
        if crowd {
            f.up = vec![Op::Write(g.range(1, 200) as usize), Op::Pause(100_000), Op::Write(g.range(1, 200) as usize)];
            f.down = vec![Op::Write(g.range(1, 200) as usize)];
            f.target_waits_for = 1;
            f.ending = if g.chance(50) { Ending::None } else { Ending::AppAfterAll };
        }
        flows.push(f);
    }
    Plan { property: "C09".into(), scenario: "independence".into(), seed, net_seed: g.next(), config, knobs, flows, extra: serde_json::Value::Null }
}

pub fn execute_c09(plan: &Plan) -> Outcome {
    let cell = plan.config.label();
    let all = rt::run_sim(plan.seed, plan.net_seed, plan.knobs.to_knobs(), || run_tcp_system(plan, true));
    let together = summarise(plan, &all.result, &all.world);
    let mut v = Vec::new();
    let mut stats = crate::report::world_stats(&all.world);
    let mut panics = all.panics.clone();
    let (mut sim_ns, mut polls, mut ev_count) = (all.sim_ns, all.polls, all.world.ev_count);
    let mut extra_cases = Vec::new();
    if let Some(e) = &all.result.startup_err {
        v.push(Violation::new("C09", format!("C09/startup/{cell}"), e.clone()));
    } else {
        for ix in 0..plan.flows.len() {
            // the same flow alone, at the same place in the plan (its index decides payload and target address)
            let mut single = plan.clone();
            for (j, f) in single.flows.iter_mut().enumerate() {
                if j != ix {
                    // keep the slot (indices stay), but the flow never starts
                    f.start_ms = u64::MAX / 4;
                }
            }
            let alone_run = rt::run_sim(plan.seed, plan.net_seed, plan.knobs.to_knobs(), || run_single(&single, ix));
            let alone = summarise(&single, &alone_run.result, &alone_run.world)[ix].clone();
            sim_ns += alone_run.sim_ns;
            polls += alone_run.polls;
            ev_count += alone_run.world.ev_count;
            for (k, val) in crate::report::world_stats(&alone_run.world) {
                *stats.entry(k).or_insert(0) += val;
            }
            panics.extend(alone_run.panics.clone());
            extra_cases.push(alone_run.poll_hash ^ plan_shape_hash(plan) ^ ix as u64);
            if alone != together[ix] {
                let f = &plan.flows[ix];
                v.push(Violation::new(
                    "C09",
                    format!("C09/depends-on-neighbours/{cell}/{}/{}", hs_name(f.hs), ending_name(f.ending)),
                    format!("flow {ix} of {}: alone {:?}, together with the others {:?}", plan.flows.len(), alone, together[ix]),
                ));
            }
        }
    }
    for p in &panics {
        v.push(Violation::new("C09", format!("C09/panic/{cell}/{}", p.frame), format!("panic in node {}: {} at {}", p.node, p.message, p.location)));
    }
    v.dedup_by(|a, b| a.signature == b.signature);
    let relayed: usize = all.result.flows.iter().map(|f| f.app.recv.len() + f.target.recv.len()).sum();
    let mut probes = BTreeMap::new();
    probes.insert("flows_compared".to_owned(), plan.flows.len() as u64);
    probes.insert("concurrent_flows_max".to_owned(), 0);
    probes.insert(format!("batches_of_{}", if plan.flows.len() > 8 { "9_or_more" } else { "2_to_8" }), 1);
    Outcome {
        violations: v,
        ev_hash: all.world.ev_hash,
        ev_count,
        poll_hash: all.poll_hash,
        polls,
        sim_ns,
        stats,
        nontrivial: relayed > 0,
        case_hash: all.poll_hash ^ plan_shape_hash(plan),
        probes,
        panics,
        extra_evaluations: plan.flows.len() as u64,
        extra_cases,
    }
}

/// Run only flow `ix` of the plan (the others keep their slots but are never started).
async fn run_single(plan: &Plan, ix: usize) -> TcpRun {
    let mut p = plan.clone();
    // flows that never start would keep the driver waiting: mark them so that the driver ignores them
    for (j, f) in p.flows.iter_mut().enumerate() {
        if j != ix {
            f.target_fault = Some("skip".to_owned());
        }
    }
    run_tcp_system(&p, true).await
}
