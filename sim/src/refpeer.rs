//! Reference peers: the independent implementation (`/verif/refimpl`) wrapped as
//! a client and a server of every protocol, with the knobs the adversarial
//! scenarios need. They never touch the entropy of the code under test.

use base64ct::Encoding;
use refimpl::Addr;
use refimpl::KeyNonce;

use crate::plan::*;
use crate::rnd::Gen;

#[derive(Clone, Debug)]
pub struct Creds {
    pub proto: Proto,
    pub cipher: String,
    /// Shadowsocks legacy / Trojan password
    pub password: Vec<u8>,
    /// 2022: server key (PSK, or iPSK when users exist)
    pub psk: Vec<u8>,
    /// 2022: registered user keys
    pub user_keys: Vec<Vec<u8>>,
    /// 2022: what the client sends with: [iPSK.., uPSK] or [PSK]
    pub client_keys: Vec<Vec<u8>>,
    /// VMess: registered users' cmd keys and the client's
    pub cmd_keys: Vec<[u8; 16]>,
    pub client_cmd_key: [u8; 16],
}

fn b64d(s: &str) -> Vec<u8> {
    base64ct::Base64::decode_vec(s).unwrap_or_default()
}

pub fn creds(cfg: &Config) -> Creds {
    let mut c = Creds { proto: cfg.proto, cipher: cfg.cipher.clone(), password: cfg.client_password.as_bytes().to_vec(), psk: vec![], user_keys: vec![], client_keys: vec![], cmd_keys: vec![], client_cmd_key: [0; 16] };
    match cfg.proto {
        Proto::Shadowsocks if is_2022(&cfg.cipher) => {
            c.psk = b64d(&cfg.server_password);
            c.user_keys = cfg.users.iter().map(|(_, p)| b64d(p)).collect();
            c.client_keys = cfg.client_password.split(':').map(b64d).collect();
        }
        Proto::Vmess => {
            c.cmd_keys = cfg.users.iter().filter_map(|(_, p)| refimpl::vmess::parse_uuid(p)).map(|u| refimpl::vmess::cmd_key(&u)).collect();
            c.client_cmd_key = refimpl::vmess::parse_uuid(&cfg.client_password).map(|u| refimpl::vmess::cmd_key(&u)).unwrap_or([0; 16]);
        }
        _ => {}
    }
    c
}

pub fn to_addr(host: &str, port: u16) -> Addr {
    match host.parse::<std::net::IpAddr>() {
        Ok(std::net::IpAddr::V4(v4)) => Addr::V4(v4.octets(), port),
        Ok(std::net::IpAddr::V6(v6)) => Addr::V6(v6.octets(), port),
        Err(_) => Addr::Name(host.as_bytes().to_vec(), port),
    }
}

/// What a (possibly hostile) reference client varies.
#[derive(Clone, Debug, serde::Serialize, serde::Deserialize, PartialEq)]
pub struct ClientOpts {
    /// seconds added to the receiver's clock in every timestamp
    #[serde(default)]
    pub ts_offset: i64,
    /// Shadowsocks 2022 stream type byte (0 = request)
    #[serde(default)]
    pub stream_type: u8,
    /// reuse this salt / these VMess session values instead of fresh ones (replay builds on it)
    #[serde(default)]
    pub fixed_salt: Option<Vec<u8>>,
    /// 2022: padding length in the variable header
    #[serde(default)]
    pub padding: usize,
    /// VMess option mask (must contain ChunkStream) and security
    #[serde(default)]
    pub vmess_options: Option<u8>,
    /// 1 = tcp, 2 = udp (VMess) / 1 = connect, 3 = udp associate (Trojan)
    #[serde(default)]
    pub command: Option<u8>,
    /// largest chunk payload the sender produces
    #[serde(default)]
    pub max_chunk: Option<usize>,
}

impl Default for ClientOpts {
    fn default() -> Self {
        ClientOpts { ts_offset: 0, stream_type: 0, fixed_salt: None, padding: 0, vmess_options: None, command: None, max_chunk: None }
    }
}

pub enum ClientState {
    Legacy { enc: refimpl::ss::StreamEnc, resp: refimpl::ss::StreamParser, max: usize },
    S2022 { enc: refimpl::ss::StreamEnc, resp: refimpl::ss2022::ResponseParser, salt: Vec<u8> },
    Vmess { req: refimpl::vmess::Request, enc: refimpl::vmess::Body, dec: refimpl::vmess::Body, header_done: bool, buf: Vec<u8>, udp: bool },
    Trojan,
}

pub struct RefClient {
    pub state: ClientState,
    /// response payload decoded so far (for VMess UDP: concatenation; boundaries in `packets`)
    pub payload: Vec<u8>,
    pub packets: Vec<Vec<u8>>,
    pub salt: Vec<u8>,
}

impl RefClient {
    /// Build the first flight (handshake + first write). Further writes go through `write`.
    pub fn start(c: &Creds, g: &mut Gen, now: u64, addr: &Addr, first: &[u8], o: &ClientOpts) -> (RefClient, Vec<u8>) {
        match c.proto {
            Proto::Shadowsocks if is_2022(&c.cipher) => {
                let n = key_len(&c.cipher);
                let salt = o.fixed_salt.clone().unwrap_or_else(|| g.bytes(n));
                let opts = refimpl::ss2022::ReqOpts { stream_type: o.stream_type, timestamp: (now as i64 + o.ts_offset) as u64, padding: if first.is_empty() && o.padding == 0 { 17 } else { o.padding }, initial_payload: true };
                let (wire, mut enc) = refimpl::ss2022::request(&c.cipher, &c.client_keys, &salt, addr, first, &opts);
                if let Some(m) = o.max_chunk {
                    enc.max_chunk = m;
                }
                let key = c.client_keys.last().cloned().unwrap_or_default();
                let resp = refimpl::ss2022::ResponseParser::new(&c.cipher, &key, &salt, now);
                (RefClient { state: ClientState::S2022 { enc, resp, salt: salt.clone() }, payload: vec![], packets: vec![], salt }, wire)
            }
            Proto::Shadowsocks => {
                let aead = refimpl::ss::aead_of(&c.cipher).unwrap();
                let salt = o.fixed_salt.clone().unwrap_or_else(|| g.bytes(aead.key_len()));
                let master = refimpl::ss::evp_bytes_to_key(&c.password, aead.key_len());
                let mut enc = refimpl::ss::StreamEnc::new(aead, &master, &salt);
                if let Some(m) = o.max_chunk {
                    enc.max_chunk = m;
                }
                let mut wire = salt.clone();
                let mut p = addr.socks();
                p.extend_from_slice(first);
                wire.extend(enc.write(&p));
                let resp = refimpl::ss::StreamParser::new(&c.cipher, &c.password, false);
                (RefClient { state: ClientState::Legacy { enc, resp, max: o.max_chunk.unwrap_or(refimpl::ss::MAX_CHUNK) }, payload: vec![], packets: vec![], salt }, wire)
            }
            Proto::Vmess => {
                let mut iv = [0u8; 16];
                let mut key = [0u8; 16];
                let vals = o.fixed_salt.clone().unwrap_or_else(|| g.bytes(45));
                iv.copy_from_slice(&vals[..16]);
                key.copy_from_slice(&vals[16..32]);
                let security = if c.cipher.contains("chacha") { refimpl::vmess::SEC_CHACHA20 } else { refimpl::vmess::SEC_AES128GCM };
                let udp = o.command == Some(2);
                let req = refimpl::vmess::Request { body_iv: iv, body_key: key, resp_auth: vals[32], options: o.vmess_options.unwrap_or(1 | 4 | 8 | 16), security, command: if udp { 2 } else { 1 }, addr: addr.clone(), padding: (vals[33] % 16) as usize };
                let mut wire = refimpl::vmess::seal_header(&c.client_cmd_key, now as i64 + o.ts_offset, vals[34..38].try_into().unwrap(), vals[37..45].try_into().unwrap(), &refimpl::vmess::header_bytes(&req));
                let mut enc = refimpl::vmess::request_body(&req);
                let dec = refimpl::vmess::response_body(&req);
                if !first.is_empty() || udp {
                    wire.extend(if udp { enc.encode_chunk(first) } else { enc.write(first, o.max_chunk.unwrap_or(1900)) });
                }
                (RefClient { state: ClientState::Vmess { req, enc, dec, header_done: false, buf: vec![], udp }, payload: vec![], packets: vec![], salt: vals }, wire)
            }
            Proto::Trojan => {
                let wire = refimpl::trojan::request(&c.password, o.command.unwrap_or(1), addr, first);
                (RefClient { state: ClientState::Trojan, payload: vec![], packets: vec![], salt: vec![] }, wire)
            }
        }
    }

    pub fn write(&mut self, data: &[u8]) -> Vec<u8> {
        match &mut self.state {
            ClientState::Legacy { enc, .. } => enc.write(data),
            ClientState::S2022 { enc, .. } => enc.write(data),
            ClientState::Vmess { enc, udp, .. } => {
                if *udp {
                    enc.encode_chunk(data)
                } else {
                    enc.write(data, 1900)
                }
            }
            ClientState::Trojan => data.to_vec(),
        }
    }

    /// Strictly decode response bytes.
    pub fn feed(&mut self, data: &[u8]) -> Result<(), String> {
        match &mut self.state {
            ClientState::Legacy { resp, .. } => {
                resp.feed(data)?;
                self.payload = resp.plain.clone();
            }
            ClientState::S2022 { resp, .. } => {
                // a response is judged against the clock of the moment it is read
                resp.now = octo_squirrel::verif::clock::unix_now();
                resp.feed(data)?;
                if let Some(r) = &resp.resp {
                    self.payload = r.payload.clone();
                }
            }
            ClientState::Vmess { req, dec, header_done, buf, .. } => {
                let mut data = data.to_vec();
                if !*header_done {
                    buf.extend_from_slice(&data);
                    match refimpl::vmess::open_response_header(req, buf)? {
                        None => return Ok(()),
                        Some((_, _, used)) => {
                            *header_done = true;
                            data = buf.split_off(used);
                            buf.clear();
                        }
                    }
                }
                for c in dec.feed(&data)? {
                    self.payload.extend_from_slice(&c);
                    self.packets.push(c);
                }
            }
            ClientState::Trojan => self.payload.extend_from_slice(data),
        }
        Ok(())
    }

    pub fn sender_chunk_lens(&self) -> Vec<usize> {
        match &self.state {
            ClientState::Legacy { resp, .. } => resp.dec.as_ref().map(|d| d.chunk_lens.clone()).unwrap_or_default(),
            ClientState::S2022 { resp, .. } => resp.dec.as_ref().map(|d| d.chunk_lens.clone()).unwrap_or_default(),
            ClientState::Vmess { dec, .. } => dec.chunk_lens.clone(),
            ClientState::Trojan => vec![],
        }
    }

    pub fn used_nonces(&self) -> Vec<KeyNonce> {
        match &self.state {
            ClientState::Legacy { resp, .. } => resp.dec.as_ref().map(|d| d.used.clone()).unwrap_or_default(),
            ClientState::S2022 { resp, .. } => resp.dec.as_ref().map(|d| d.used.clone()).unwrap_or_default(),
            ClientState::Vmess { dec, .. } => dec.used.clone(),
            ClientState::Trojan => vec![],
        }
    }
}

// ---------------------------------------------------------------- reference server (strict receiver of what the real client emits)

pub enum ServerState {
    Legacy { req: refimpl::ss::StreamParser, enc: Option<refimpl::ss::StreamEnc> },
    S2022 { req: refimpl::ss2022::RequestParser, enc: Option<refimpl::ss::StreamEnc> },
    Vmess { buf: Vec<u8>, opened: Option<refimpl::vmess::OpenedHeader>, dec: Option<refimpl::vmess::Body>, enc: Option<refimpl::vmess::Body>, resp_header_sent: bool },
    Trojan { buf: Vec<u8>, header: Option<(u8, Addr)> },
}

#[derive(Clone, Debug, serde::Serialize, serde::Deserialize, PartialEq, Default)]
pub struct ServerOpts {
    #[serde(default)]
    pub ts_offset: i64,
    /// Shadowsocks 2022 stream type byte of the response (1 = response)
    #[serde(default)]
    pub stream_type: Option<u8>,
    /// echo this salt instead of the request's
    #[serde(default)]
    pub wrong_request_salt: bool,
    /// VMess: answer with this response authentication byte instead of the request's / derive response keys from other values
    #[serde(default)]
    pub vmess_wrong_auth: bool,
    #[serde(default)]
    pub vmess_wrong_keys: bool,
    #[serde(default)]
    pub max_chunk: Option<usize>,
    /// VMess: plaintext of the (well sealed) response header instead of `V opt 0 0` - empty, one byte, long
    #[serde(default)]
    pub vmess_resp_header_raw: Option<Vec<u8>>,
    /// VMess: after the data, a chunk whose size field is wrong inside (0 below the padding, 1 below padding + tag,
    /// 2 zero, 3 one, 4 equal to the padding, 5 beyond the stream)
    #[serde(default)]
    pub vmess_bad_chunk: Option<u8>,
}

pub struct RefServer {
    pub creds: Creds,
    pub state: ServerState,
    pub addr: Option<Addr>,
    pub payload: Vec<u8>,
    pub packets: Vec<Vec<u8>>,
    pub user_index: Option<usize>,
    pub command: u8,
    pub request_salt: Vec<u8>,
    pub now: u64,
}

impl RefServer {
    pub fn new(c: &Creds, now: u64) -> RefServer {
        let state = match c.proto {
            Proto::Shadowsocks if is_2022(&c.cipher) => ServerState::S2022 { req: refimpl::ss2022::RequestParser::new(&c.cipher, &c.psk, &c.user_keys, now), enc: None },
            Proto::Shadowsocks => ServerState::Legacy { req: refimpl::ss::StreamParser::new(&c.cipher, &c.password, true), enc: None },
            Proto::Vmess => ServerState::Vmess { buf: vec![], opened: None, dec: None, enc: None, resp_header_sent: false },
            Proto::Trojan => ServerState::Trojan { buf: vec![], header: None },
        };
        RefServer { creds: c.clone(), state, addr: None, payload: vec![], packets: vec![], user_index: None, command: 1, request_salt: vec![], now }
    }

    /// Strictly decode what the client sent.
    pub fn feed(&mut self, data: &[u8]) -> Result<(), String> {
        match &mut self.state {
            ServerState::Legacy { req, .. } => {
                req.feed(data)?;
                self.addr = req.addr.clone();
                self.payload = req.plain.clone();
                if let Some(s) = &req.salt {
                    self.request_salt = s.clone();
                }
            }
            ServerState::S2022 { req, .. } => {
                req.now = self.now;
                req.feed(data)?;
                if let Some(r) = &req.req {
                    self.addr = r.addr.clone();
                    self.payload = r.payload.clone();
                    self.user_index = r.user_index;
                    self.request_salt = r.salt.clone();
                }
            }
            ServerState::Vmess { buf, opened, dec, .. } => {
                let mut data = data.to_vec();
                if opened.is_none() {
                    buf.extend_from_slice(&data);
                    match refimpl::vmess::open_header(&self.creds.cmd_keys, self.now as i64, buf)? {
                        None => return Ok(()),
                        Some(o) => {
                            data = buf.split_off(o.used);
                            buf.clear();
                            if o.request.options & 1 == 0 {
                                return Err("request without the chunk-stream option".into());
                            }
                            self.addr = Some(o.request.addr.clone());
                            self.command = o.request.command;
                            self.user_index = Some(o.user_index);
                            *dec = Some(refimpl::vmess::request_body(&o.request));
                            *opened = Some(o);
                        }
                    }
                }
                for c in dec.as_mut().unwrap().feed(&data)? {
                    self.payload.extend_from_slice(&c);
                    self.packets.push(c);
                }
            }
            ServerState::Trojan { buf, header } => {
                if header.is_none() {
                    buf.extend_from_slice(data);
                    match refimpl::trojan::parse_request(&self.creds.password, buf)? {
                        None => return Ok(()),
                        Some((cmd, addr, used)) => {
                            self.addr = Some(addr.clone());
                            self.command = cmd;
                            *header = Some((cmd, addr));
                            let rest = buf.split_off(used);
                            buf.clear();
                            self.payload.extend_from_slice(&rest);
                        }
                    }
                } else {
                    self.payload.extend_from_slice(data);
                }
            }
        }
        Ok(())
    }

    /// Encode a response write (the first call emits the response handshake). None until the request has been parsed.
    pub fn write(&mut self, g: &mut Gen, data: &[u8], o: &ServerOpts) -> Option<Vec<u8>> {
        let c = self.creds.clone();
        match &mut self.state {
            ServerState::Legacy { req, enc } => {
                req.addr.as_ref()?;
                let mut out = Vec::new();
                if enc.is_none() {
                    let aead = refimpl::ss::aead_of(&c.cipher).unwrap();
                    let salt = g.bytes(aead.key_len());
                    let master = refimpl::ss::evp_bytes_to_key(&c.password, aead.key_len());
                    let mut e = refimpl::ss::StreamEnc::new(aead, &master, &salt);
                    if let Some(m) = o.max_chunk {
                        e.max_chunk = m;
                    }
                    out.extend(salt);
                    *enc = Some(e);
                }
                out.extend(enc.as_mut().unwrap().write(data));
                Some(out)
            }
            ServerState::S2022 { req, enc } => {
                let r = req.req.as_ref()?;
                if enc.is_none() {
                    let n = key_len(&c.cipher);
                    let key = match r.user_index {
                        Some(i) => c.user_keys[i].clone(),
                        None => c.psk.clone(),
                    };
                    let salt = g.bytes(n);
                    let echoed = if o.wrong_request_salt { g.bytes(n) } else { r.salt.clone() };
                    let (wire, mut e) = refimpl::ss2022::response(&c.cipher, &key, &salt, &echoed, data, o.stream_type.unwrap_or(1), (self.now as i64).wrapping_add(o.ts_offset) as u64);
                    if let Some(m) = o.max_chunk {
                        e.max_chunk = m;
                    }
                    let mut out = wire;
                    if data.len() > refimpl::ss2022::MAX_CHUNK {
                        out.extend(e.write(&data[refimpl::ss2022::MAX_CHUNK..]));
                    }
                    *enc = Some(e);
                    return Some(out);
                }
                Some(enc.as_mut().unwrap().write(data))
            }
            ServerState::Vmess { opened, enc, resp_header_sent, .. } => {
                let op = opened.as_ref()?;
                let mut out = Vec::new();
                if !*resp_header_sent {
                    let mut r = op.request.clone();
                    if o.vmess_wrong_keys {
                        r.body_key[0] ^= 1;
                    }
                    let auth = if o.vmess_wrong_auth { r.resp_auth.wrapping_add(1) } else { r.resp_auth };
                    match &o.vmess_resp_header_raw {
                        Some(raw) => out.extend(refimpl::vmess::response_header_raw(&r, raw)),
                        None => out.extend(refimpl::vmess::response_header(&r, auth, r.options)),
                    }
                    *enc = Some(refimpl::vmess::response_body(&r));
                    *resp_header_sent = true;
                }
                let e = enc.as_mut().unwrap();
                out.extend(if op.request.command == 2 { e.encode_chunk(data) } else { e.write(data, o.max_chunk.unwrap_or(1900)) });
                if let Some(v) = o.vmess_bad_chunk {
                    let junk = [0x5au8; 40];
                    out.extend(match v {
                        0 => e.encode_chunk_declared(|p| p.saturating_sub(1) as u16, &junk),
                        1 => e.encode_chunk_declared(|p| (p + 7) as u16, &junk),
                        2 => e.encode_chunk_declared(|_| 0, &junk),
                        3 => e.encode_chunk_declared(|_| 1, &junk),
                        4 => e.encode_chunk_declared(|p| p as u16, &junk),
                        _ => e.encode_chunk_declared(|_| 0xffff, &junk),
                    });
                }
                Some(out)
            }
            ServerState::Trojan { header, .. } => {
                header.as_ref()?;
                Some(data.to_vec())
            }
        }
    }

    pub fn sender_chunk_lens(&self) -> Vec<usize> {
        match &self.state {
            ServerState::Legacy { req, .. } => req.dec.as_ref().map(|d| d.chunk_lens.clone()).unwrap_or_default(),
            ServerState::S2022 { req, .. } => req.dec.as_ref().map(|d| d.chunk_lens.clone()).unwrap_or_default(),
            ServerState::Vmess { dec, .. } => dec.as_ref().map(|d| d.chunk_lens.clone()).unwrap_or_default(),
            ServerState::Trojan { .. } => vec![],
        }
    }

    pub fn used_nonces(&self) -> Vec<KeyNonce> {
        match &self.state {
            ServerState::Legacy { req, .. } => req.dec.as_ref().map(|d| d.used.clone()).unwrap_or_default(),
            ServerState::S2022 { req, .. } => req.dec.as_ref().map(|d| d.used.clone()).unwrap_or_default(),
            ServerState::Vmess { dec, .. } => dec.as_ref().map(|d| d.used.clone()).unwrap_or_default(),
            ServerState::Trojan { .. } => vec![],
        }
    }
}
