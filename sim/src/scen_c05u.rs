//! C05, datagram half – a tampered or reflected datagram is dropped entirely.
//!
//! One run = the real Shadowsocks client and server in a datagram mode; a local application exchanges a few datagrams
//! with an echoing target while every datagram on the client <-> server link is captured. An on-path attacker then
//! injects, with the original source address: a copy of every captured datagram with one bit flipped at every byte
//! position, every third truncation, a few multi-byte edits and appended bytes, and (Shadowsocks 2022) the datagram
//! reflected to its own sender. Oracle: the target receives nothing beyond the original datagrams, the application
//! receives nothing beyond the original replies; afterwards a fresh datagram is still served.

use std::collections::BTreeMap;
use std::net::IpAddr;
use std::net::Ipv4Addr;
use std::net::SocketAddr;
use std::sync::Arc;
use std::sync::Mutex;
use std::time::Duration;

use octo_squirrel::verif::net::inject_datagram;
use octo_squirrel::verif::world;

use crate::nodes::*;
use crate::plan::*;
use crate::report::Outcome;
use crate::report::Violation;
use crate::rnd::Gen;
use crate::rt;
use crate::scen_udp::*;

pub fn gen_c05u(seed: u64, _thorough: bool) -> Plan {
    let mut g = Gen::new(seed, 55);
    let cells: Vec<(&str, usize)> = SS_CIPHERS.iter().flat_map(|c| if supports_eih(c) { vec![(*c, 0usize), (*c, 2)] } else { vec![(*c, 0)] }).collect();
    let (cipher, n_users) = cells[seed as usize % cells.len()];
    let config = udp_config(&mut g, Proto::Shadowsocks, cipher, Transport::Tcp, n_users);
    let sizes: Vec<usize> = (0..g.range(2, 3)).map(|_| *g.pick(&[9usize, 10, 33, 120, 400])).collect();
    Plan {
        property: "C05".into(),
        scenario: "dgram-tamper".into(),
        seed,
        net_seed: g.next(),
        config,
        knobs: KnobsPlan::simple(),
        flows: vec![],
        extra: serde_json::json!({ "sizes": sizes, "by_name": g.chance(40), "sub_seed": g.next() }),
    }
}

#[derive(Clone, Debug, serde::Serialize, serde::Deserialize)]
struct Mutation {
    /// index into the captured datagrams of the direction
    dgram: usize,
    c2s: bool,
    /// (offset, mask) flips, truncation length, appended bytes
    flips: Vec<(usize, u8)>,
    truncate: Option<usize>,
    append: usize,
    reflect: bool,
}

pub fn execute_c05u(plan: &Plan) -> Outcome {
    let sizes: Vec<usize> = serde_json::from_value(plan.extra["sizes"].clone()).unwrap_or_else(|_| vec![9, 33]);
    let by_name = plan.extra["by_name"].as_bool().unwrap_or(false);
    let only: Option<Vec<Mutation>> = plan.extra.get("only_mutations").and_then(|v| serde_json::from_value(v.clone()).ok());
    let cell = format!("{}{}", plan.config.family(), if plan.config.users.len() > 1 { "+users" } else { "" });
    let legacy = !is_2022(&plan.config.cipher);
    let mut g = Gen::new(plan.extra["sub_seed"].as_u64().unwrap_or(9), 56);
    let out = rt::run_sim(plan.seed, plan.net_seed, plan.knobs.to_knobs(), || async {
        let mut findings: Vec<(String, String, Mutation)> = Vec::new();
        let mut evals = 0u64;
        let target = UdpTarget { ip: [127, 0, 5, 1], port: 5005, name: by_name.then(|| "tamper-target.c05u.test".to_owned()), replies: 1, reply_size: 48 };
        world::with(|w| {
            w.udp_capture = Some(Vec::new());
            if let Some(n) = &target.name {
                w.zone.insert(n.clone(), Some(IpAddr::V4(Ipv4Addr::from(target.ip))));
            }
        });
        let mains = match start_system(&plan.config, "127.0.0.1", SERVER_PORT).await {
            Ok(m) => m,
            Err(e) => return (Some(e), findings, evals),
        };
        if !settle(|| udp_bound(SERVER_PORT)).await {
            return (Some("server UDP socket is not bound".to_owned()), findings, evals);
        }
        let obs = Arc::new(Mutex::new(UdpObs { sent: vec![Vec::new()], app_recv: vec![Vec::new()], target_recv: vec![Vec::new()], app_send_err: vec![None] }));
        let _t = spawn_scoped(udp_target_pub(0, target.clone(), obs.clone()));
        tokio::task::yield_now().await;
        let ops: Vec<UdpOp> = sizes.iter().flat_map(|s| [UdpOp::Send { t: 0, size: *s }, UdpOp::Pause(30)]).collect();
        let _a = spawn_scoped(udp_app_pub(0, ops, vec![target.clone()], CLIENT_PORT, obs.clone()));
        tokio::time::sleep(Duration::from_millis(500)).await;
        let (t0, a0) = {
            let o = obs.lock().unwrap();
            (o.target_recv[0].len(), o.app_recv[0].len())
        };
        if t0 != sizes.len() || a0 != sizes.len() {
            return (Some(format!("baseline exchange incomplete: target received {t0} of {}, application received {a0}", sizes.len())), findings, evals);
        }
        // the link as the attacker saw it
        let srv = server_addr();
        let cap: Vec<(SocketAddr, SocketAddr, Vec<u8>)> = world::with(|w| w.udp_capture.clone().unwrap_or_default());
        let c2s: Vec<(SocketAddr, Vec<u8>)> = cap.iter().filter(|(_, to, _)| *to == srv).map(|(f, _, d)| (*f, d.clone())).collect();
        let s2c: Vec<(SocketAddr, Vec<u8>)> = cap.iter().filter(|(from, _, _)| *from == srv).map(|(_, t, d)| (*t, d.clone())).collect();
        let mut muts: Vec<Mutation> = Vec::new();
        if let Some(list) = &only {
            muts = list.clone();
        } else {
            for (c2s_dir, list) in [(true, &c2s), (false, &s2c)] {
                for (i, (_, d)) in list.iter().enumerate() {
                    for k in 0..d.len() {
                        muts.push(Mutation { dgram: i, c2s: c2s_dir, flips: vec![(k, 1 << g.below(8))], truncate: None, append: 0, reflect: false });
                    }
                    for k in (0..d.len()).step_by(3) {
                        muts.push(Mutation { dgram: i, c2s: c2s_dir, flips: vec![], truncate: Some(k), append: 0, reflect: false });
                    }
                    for _ in 0..6 {
                        let n = g.range(2, 5);
                        let flips = (0..n).map(|_| (g.below(d.len() as u64) as usize, 1u8 << g.below(8))).collect();
                        muts.push(Mutation { dgram: i, c2s: c2s_dir, flips, truncate: None, append: 0, reflect: false });
                    }
                    muts.push(Mutation { dgram: i, c2s: c2s_dir, flips: vec![], truncate: None, append: g.range(1, 20) as usize, reflect: false });
                    if !legacy {
                        // (legacy Shadowsocks has nothing that tells the two directions apart - a limit of the protocol)
                        muts.push(Mutation { dgram: i, c2s: c2s_dir, flips: vec![], truncate: None, append: 0, reflect: true });
                    }
                }
            }
        }
        for m in muts {
            let list = if m.c2s { &c2s } else { &s2c };
            let Some((peer, orig)) = list.get(m.dgram) else { continue };
            let mut d = orig.clone();
            for (k, mask) in &m.flips {
                if *k < d.len() {
                    d[*k] ^= mask;
                }
            }
            if let Some(t) = m.truncate {
                d.truncate(t);
            }
            d.extend(std::iter::repeat_n(0xA5u8, m.append));
            if d == *orig && !m.reflect {
                continue;
            }
            // c2s datagram: `peer` is the client's outbound socket, it goes to the server; s2c: `peer` is where the server sent it
            let (from, to) = match (m.c2s, m.reflect) {
                (true, false) => (*peer, srv),
                (true, true) => (srv, *peer),
                (false, false) => (srv, *peer),
                (false, true) => (*peer, srv),
            };
            let before = {
                let o = obs.lock().unwrap();
                (o.target_recv[0].len(), o.app_recv[0].len())
            };
            inject_datagram(from, to, &d);
            evals += 1;
            tokio::time::sleep(Duration::from_millis(15)).await;
            let after = {
                let o = obs.lock().unwrap();
                (o.target_recv[0].len(), o.app_recv[0].len())
            };
            if after != before {
                let what = if m.reflect { "reflected-accepted" } else { "tampered-accepted" };
                let dir = if m.c2s { "c2s" } else { "s2c" };
                let sig = format!("{what}/{dir}");
                if !findings.iter().any(|f| f.0 == sig) {
                    findings.push((sig, format!("{m:?} on a {}-byte datagram: datagrams at the target {} -> {}, at the application {} -> {}", orig.len(), before.0, after.0, before.1, after.1), m.clone()));
                }
            }
        }
        // the relay still works
        let fresh = Arc::new(Mutex::new(UdpObs { sent: vec![Vec::new()], app_recv: vec![Vec::new()], target_recv: vec![Vec::new()], app_send_err: vec![None] }));
        let before = obs.lock().unwrap().target_recv[0].len();
        let _b = spawn_scoped(udp_app_pub(0, vec![UdpOp::Send { t: 0, size: 21 }], vec![target.clone()], CLIENT_PORT, fresh.clone()));
        tokio::time::sleep(Duration::from_millis(500)).await;
        if obs.lock().unwrap().target_recv[0].len() != before + 1 || fresh.lock().unwrap().app_recv[0].len() != 1 {
            findings.push(("service-down-after-tampering".into(), "after the tampered datagrams a fresh application's datagram was not relayed and answered".into(), Mutation { dgram: 0, c2s: true, flips: vec![], truncate: None, append: 0, reflect: false }));
        }
        drop(mains);
        (None, findings, evals)
    });
    let (startup, findings, evals) = out.result.clone();
    let mut v = Vec::new();
    if let Some(e) = startup {
        v.push(Violation::new("C05", format!("C05/dgram-startup/{cell}"), e));
    }
    for (oracle, detail, m) in &findings {
        v.push(Violation::new("C05", format!("C05/dgram-{oracle}/{cell}"), detail.clone()).with_patch(serde_json::json!({ "only_mutations": [m] })));
    }
    for p in &out.panics {
        v.push(Violation::new("C05", format!("C05/panic/{cell}/udp/{}", p.frame), format!("panic in node {}: {} at {}", p.node, p.message, p.location)));
    }
    let mut probes = BTreeMap::new();
    probes.insert("datagram_mutations".to_owned(), evals);
    Outcome {
        violations: v,
        ev_hash: out.world.ev_hash,
        ev_count: out.world.ev_count,
        poll_hash: out.poll_hash,
        polls: out.polls,
        sim_ns: out.sim_ns,
        stats: crate::report::world_stats(&out.world),
        nontrivial: evals > 0,
        case_hash: out.poll_hash ^ plan.seed.wrapping_mul(0x9E3779B97F4A7C15),
        probes,
        panics: out.panics,
        extra_evaluations: evals,
        extra_cases: (0..evals).map(|i| plan.seed.wrapping_mul(1_000_211).wrapping_add(i)).collect(),
    }
}
