//! C11 (component half) – the real `PacketWindowFilter` against a set-based
//! reference model, over the arrival orders a network can produce: every
//! sequence of length <= 5 over a boundary alphabet (exhaustive) and seeded
//! long histories with sliding, jumps larger than the ring and wrap-around.
//! This half is a sequential comparison (no schedule in it); the histories are
//! what the simulated network's duplication and reordering generate, and the
//! system half of C11 runs them through the real client and server.

use std::collections::BTreeMap;
use std::collections::BTreeSet;

use octo_squirrel::manager::packet_window::PacketWindowFilter;

use crate::plan::*;
use crate::report::Outcome;
use crate::report::Violation;
use crate::rnd::Gen;

const WINDOW: u64 = 8128;

#[derive(Default)]
struct Model {
    max: u64,
    seen: BTreeSet<u64>,
}

impl Model {
    fn accept(&mut self, id: u64, limit: u64) -> bool {
        if id >= limit {
            return false;
        }
        if id > self.max {
            self.max = id;
            self.seen.insert(id);
            // forget what can never be asked again (keeps long histories cheap)
            let floor = self.max.saturating_sub(WINDOW);
            self.seen = self.seen.split_off(&floor);
            return true;
        }
        if self.max - id > WINDOW || self.seen.contains(&id) {
            return false;
        }
        self.seen.insert(id);
        true
    }
}

pub const ALPHABET: [u64; 14] = [0, 1, 63, 64, 65, 8127, 8128, 8129, 8191, 8192, 8193, 16384 + 5, u64::MAX - 1, u64::MAX];

thread_local! { static IDS_FED: std::cell::Cell<u64> = const { std::cell::Cell::new(0) }; }

fn compare(seq: &[u64], limit: u64) -> Option<(usize, bool, bool)> {
    IDS_FED.with(|c| c.set(c.get() + seq.len() as u64));
    let mut real = PacketWindowFilter::new();
    let mut model = Model::default();
    for (i, id) in seq.iter().enumerate() {
        // the filter runs on ids that came off the network: a panic is a refusal to give an answer at all (it is reported
        // as "the filter says the opposite of the model", the panic monitor has the message)
        let r = match std::panic::catch_unwind(std::panic::AssertUnwindSafe(|| real.validate_packet_id(*id, limit))) {
            Ok(r) => r,
            Err(_) => {
                let m = model.accept(*id, limit);
                return Some((i, !m, m));
            }
        };
        let m = model.accept(*id, limit);
        if r != m {
            return Some((i, r, m));
        }
    }
    None
}

pub fn gen_c11_model(seed: u64, thorough: bool) -> Plan {
    let mut g = Gen::new(seed, 11);
    // seeds 0..14^2: exhaustive blocks (first two symbols fixed by the seed, the remaining <= 3 enumerated); beyond: random long histories
    let exhaustive = seed < 14 * 14;
    Plan {
        property: "C11".into(),
        scenario: "pw-model".into(),
        seed,
        net_seed: g.next(),
        config: gen_config(&mut g, Proto::Shadowsocks, "2022-blake3-aes-128-gcm", Transport::Tcp, 0),
        knobs: KnobsPlan::simple(),
        flows: vec![],
        extra: serde_json::json!({ "exhaustive": exhaustive, "histories": if thorough { 400 } else { 60 }, "sub_seed": g.next() }),
    }
}

pub fn execute_pw(plan: &Plan) -> Outcome {
    let mut v = Vec::new();
    let mut evals = 0u64;
    let mut cases = Vec::new();
    let mut probes = BTreeMap::new();
    let limits = [u64::MAX, 8192, 65];
    let mut report = |seq: &[u64], limit: u64, d: (usize, bool, bool), v: &mut Vec<Violation>| {
        let kind = if d.1 && !d.2 { "accepted-twice-or-stale" } else { "refused-fresh" };
        if !v.iter().any(|x: &Violation| x.signature.ends_with(kind)) {
            v.push(
                Violation::new("C11", format!("C11/model-mismatch/{kind}"), format!("sequence {seq:?} with limit {limit}: at position {} the filter answered {} but the model {}", d.0, d.1, d.2))
                    .with_patch(serde_json::json!({ "only_seq": seq, "only_limit": limit })),
            );
        }
    };
    if let Some(seq) = plan.extra.get("only_seq").and_then(|s| serde_json::from_value::<Vec<u64>>(s.clone()).ok()) {
        let limit = plan.extra["only_limit"].as_u64().unwrap_or(u64::MAX);
        evals += 1;
        if let Some(d) = compare(&seq, limit) {
            report(&seq, limit, d, &mut v);
        }
    } else if plan.extra["exhaustive"].as_bool().unwrap_or(false) {
        let a = ALPHABET[(plan.seed / 14) as usize % 14];
        let b = ALPHABET[plan.seed as usize % 14];
        for limit in limits {
            for len in 0..=3usize {
                let total = 14usize.pow(len as u32);
                for code in 0..total {
                    let mut seq = vec![a, b];
                    let mut c = code;
                    for _ in 0..len {
                        seq.push(ALPHABET[c % 14]);
                        c /= 14;
                    }
                    evals += 1;
                    if let Some(d) = compare(&seq, limit) {
                        report(&seq, limit, d, &mut v);
                    }
                }
            }
        }
        cases.push(plan.seed.wrapping_mul(0x9E3779B97F4A7C15));
        probes.insert("exhaustive_blocks".to_owned(), 1);
    } else {
        let mut g = Gen::new(plan.extra["sub_seed"].as_u64().unwrap_or(1), 5);
        for h in 0..plan.extra["histories"].as_u64().unwrap_or(20) {
            let len = g.range(1, 3000) as usize;
            let mut seq = Vec::with_capacity(len);
            let mut cur: u64 = *g.pick(&[0u64, 1, 8000, 1 << 32, u64::MAX - 20_000]);
            for _ in 0..len {
                let id = match g.below(10) {
                    0..=3 => {
                        cur = cur.saturating_add(1);
                        cur
                    }
                    4 => cur.saturating_sub(g.range(0, 70)),
                    5 => cur.saturating_sub(g.range(8000, 8300)),
                    6 => {
                        cur = cur.saturating_add(g.range(1, 200));
                        cur
                    }
                    7 => {
                        cur = cur.saturating_add(g.range(8000, 20_000));
                        cur
                    }
                    8 => *g.pick(&ALPHABET),
                    _ => cur.saturating_sub(g.range(0, 9000)),
                };
                seq.push(id);
            }
            let limit = *g.pick(&[u64::MAX, u64::MAX, u64::MAX - 3, 1 << 40]);
            evals += 1;
            if let Some(d) = compare(&seq, limit) {
                // shrink: shortest failing prefix, then drop elements greedily
                let mut s = seq[..=d.0].to_vec();
                let mut i = 0;
                while i < s.len() {
                    let mut t = s.clone();
                    t.remove(i);
                    if compare(&t, limit).is_some() {
                        s = t;
                    } else {
                        i += 1;
                    }
                }
                let d2 = compare(&s, limit).unwrap();
                report(&s, limit, d2, &mut v);
            }
            cases.push(plan.seed.wrapping_mul(31).wrapping_add(h) ^ seq.iter().fold(0u64, |a, x| a.wrapping_mul(1099511628211) ^ x));
        }
        probes.insert("random_histories".to_owned(), plan.extra["histories"].as_u64().unwrap_or(0));
    }
    probes.insert("sequences_compared".to_owned(), evals);
    probes.insert("ids_fed".to_owned(), IDS_FED.with(|c| c.replace(0)));
    Outcome {
        violations: v,
        ev_hash: 0,
        ev_count: 0,
        poll_hash: 0,
        polls: 0,
        sim_ns: 0,
        stats: BTreeMap::new(),
        nontrivial: false,
        case_hash: 0,
        probes,
        panics: Vec::new(),
        extra_evaluations: evals.saturating_sub(1),
        extra_cases: cases,
    }
}
