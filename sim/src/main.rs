//! simcheck – worker binary of the deterministic simulation harness.
//!
//!   simcheck run <PROP> --start A --count N [--thorough] [--hashes] --out FILE
//!   simcheck exec <plan.json>         run one plan, print its violations as JSON (exit 0)
//!   simcheck plan <PROP> <seed> [--thorough]
//!
//! Exit codes: 0 = ran (violations are in the output), 2 = harness error.

mod clock;
mod fdseam;
mod entropy;
mod nodes;
mod plan;
mod report;
mod rnd;
mod rt;
mod proxy;
mod refpeer;
mod scen_adv;
mod scen_c05i;
mod scen_c05u;
mod scen_c08;
mod scen_hsrv;
mod scen_c08u;
mod scen_c10;
mod scen_c12;
mod scen_c14;
mod scen_c15;
mod scen_c16;
mod scen_link;
mod scen_local;
mod scen_pw;
mod scen_ref;
mod scen_tcp;
mod scen_udp;
mod scen_ustream;

use std::time::Instant;

use plan::Plan;
use report::Agg;
use report::Outcome;

fn generate(prop: &str, seed: u64, thorough: bool) -> Option<Plan> {
    match prop {
        "C01" => Some(scen_tcp::gen_c01(seed, thorough)),
        "C02" => Some(scen_udp::gen_c02(seed, thorough)),
        "C03" => Some(scen_ref::gen_c03(seed, thorough)),
        "C03ustream" => Some(scen_ref::gen_c03_ustream(seed, thorough)),
        "C03keys" => Some(scen_ref::gen_c03_keys(seed, thorough)),
        "C04" => Some(scen_link::gen_c04(seed, thorough)),
        "C05" => Some(scen_link::gen_c05(seed, thorough)),
        "C05udp" => Some(scen_c05u::gen_c05u(seed, thorough)),
        "C05udpin" => Some(scen_c05i::gen_c05i("C05", seed, thorough)),
        "C02v6" => Some(scen_udp::gen_c02_v6(seed, thorough)),
        "C02owner" => Some(scen_c05i::gen_c05i("C02", seed, thorough)),
        "C11roam" => Some(scen_c05i::gen_c05i("C11", seed, thorough)),
        "C12roam" => Some(scen_c05i::gen_c05i("C12", seed, thorough)),
        "C08reply" => Some(scen_c05i::gen_c05i("C08", seed, thorough)),
        "C06" => Some(scen_adv::gen_adv("C06", seed, thorough)),
        "C07" => Some(scen_adv::gen_adv("C07", seed, thorough)),
        "C08" => Some(scen_c08::gen_c08(seed, thorough)),
        "C04udp" => Some(scen_ustream::gen_ustream("C04", seed, thorough)),
        "C07srv" => Some(scen_hsrv::gen_hsrv(seed, thorough)),
        "C07udp" => Some(scen_ustream::gen_ustream("C07", seed, thorough)),
        "C05ustream" => Some(scen_ustream::gen_ustream("C05", seed, thorough)),
        "C08udp" => Some(scen_c08u::gen_c08u(seed, thorough)),
        "C09" => Some(scen_tcp::gen_c09(seed, thorough)),
        "C09hostile" => Some(scen_c08::gen_c09_hostile(seed, thorough)),
        "C09sid" => Some(scen_adv::gen_c09_sid(seed, thorough)),
        "C09udp" => Some(scen_udp::gen_c09_udp(seed, thorough)),
        "C10" => Some(scen_c10::gen_c10(seed, thorough)),
        "C11model" => Some(scen_pw::gen_c11_model(seed, thorough)),
        "C11" => Some(scen_udp::gen_c11_system(seed, thorough)),
        "C11srv" => Some(scen_hsrv::gen_c11_srv(seed, thorough)),
        "C11users" => Some(scen_adv::gen_c11_users(seed, thorough)),
        "C11late" => Some(scen_adv::gen_c11_late(seed, thorough)),
        "C12" => Some(scen_c12::gen_c12(seed, thorough)),
        "C12wrap" => Some(scen_c12::gen_c12_wrap(seed, thorough)),
        "C13" => Some(scen_local::gen_c13(seed, thorough)),
        "C14" => Some(scen_c14::gen_c14(seed, thorough)),
        "C14udp" => Some(scen_c14::gen_c14_udp(seed, thorough)),
        "C15" => Some(scen_c15::gen_c15(seed, thorough)),
        "C16" => Some(scen_c16::gen_c16(seed, thorough)),
        _ => None,
    }
}

fn execute(plan: &Plan) -> Outcome {
    match plan.scenario.as_str() {
        "tcp-system" => scen_tcp::execute_c01(plan),
        "independence" => scen_tcp::execute_c09(plan),
        "shared-session-id" => scen_adv::execute_c09_sid(plan),
        "late-copies" => scen_adv::execute_c11_late(plan),
        "independence-udp" => scen_udp::execute_c09_udp(plan),
        "link-seg" => scen_link::execute_c04(plan),
        "link-tamper" => scen_link::execute_c05(plan),
        "dgram-tamper" => scen_c05u::execute_c05u(plan),
        "dgram-inpath" => scen_c05i::execute_c05i(plan),
        "local-hs" => scen_local::execute_c13(plan),
        "teardown" => scen_c15::execute_c15(plan),
        "survival" => scen_c08::execute_c08(plan),
        "hostile-server" => scen_hsrv::execute_hsrv(plan),
        "client-window" => scen_hsrv::execute_c11_srv(plan),
        "dgram-in-stream" => scen_ustream::execute_ustream(plan),
        "survival-udp" => scen_c08u::execute_c08u(plan),
        "udp-system" => scen_udp::execute_udp(plan),
        "udp-ipv6-target" => scen_udp::execute_c02_v6(plan),
        "pw-model" => scen_pw::execute_pw(plan),
        "config-names" => scen_c16::execute_c16(plan),
        "addresses" => scen_c14::execute_c14(plan),
        "addresses-udp" => scen_c14::execute_c14_udp(plan),
        "interop" => scen_ref::execute_c03(plan),
        "interop-dgram-in-stream" => scen_ref::execute_c03_ustream(plan),
        "interop-key-chain" => scen_ref::execute_c03_keys(plan),
        "freshness" => scen_c10::execute_c10(plan),
        "nonces" => scen_c12::execute_c12(plan),
        "unauthenticated" => scen_adv::execute_c06(plan),
        "crash-inputs" => scen_adv::execute_c07(plan),
        other => {
            eprintln!("unknown scenario {other}");
            std::process::exit(2);
        }
    }
}

/// Runs the plan in a child process (`simcheck exec`) and reads its outcome back.
fn execute_in_child(plan: &Plan) -> Outcome {
    let dir = if std::path::Path::new("/dev/shm").is_dir() { "/dev/shm" } else { "/tmp" };
    let path = format!("{dir}/simcheck-plan-{}-{}.json", std::process::id(), plan.seed);
    let mut child_plan = plan.clone();
    if let Some(o) = child_plan.extra.as_object_mut() {
        o.remove("fresh_process");
    }
    std::fs::write(&path, serde_json::to_string(&child_plan).unwrap()).expect("plan file");
    let out = std::process::Command::new(std::env::current_exe().expect("own path")).arg("exec").arg(&path).output();
    let _ = std::fs::remove_file(&path);
    let hex = |v: &serde_json::Value| v.as_str().and_then(|s| u64::from_str_radix(s, 16).ok()).unwrap_or(0);
    let parsed: Option<serde_json::Value> = out.ok().and_then(|o| String::from_utf8(o.stdout).ok()).and_then(|s| s.lines().last().and_then(|l| serde_json::from_str(l).ok()));
    let Some(v) = parsed else {
        eprintln!("child process for seed {} gave no result", plan.seed);
        std::process::exit(2);
    };
    Outcome {
        violations: serde_json::from_value(v["violations"].clone()).unwrap_or_default(),
        ev_hash: hex(&v["ev_hash"]),
        ev_count: v["ev_count"].as_u64().unwrap_or(0),
        poll_hash: hex(&v["poll_hash"]),
        polls: v["polls"].as_u64().unwrap_or(0),
        sim_ns: v["sim_ns"].as_u64().unwrap_or(0),
        stats: serde_json::from_value(v["stats"].clone()).unwrap_or_default(),
        nontrivial: v["nontrivial"].as_bool().unwrap_or(false),
        case_hash: hex(&v["case_hash"]),
        probes: serde_json::from_value(v["probes"].clone()).unwrap_or_default(),
        panics: Vec::new(),
        extra_evaluations: v["extra_evaluations"].as_u64().unwrap_or(0),
        extra_cases: v["extra_cases"].as_array().map(|a| a.iter().map(hex).collect()).unwrap_or_default(),
    }
}

fn cell_of(plan: &Plan) -> String {
    format!("{}{}", plan.config.label(), if plan.config.users.len() > 1 && plan.config.proto == plan::Proto::Shadowsocks { "+users" } else { "" })
}

fn sample_of(plan: &Plan) -> serde_json::Value {
    serde_json::json!({
        "seed": plan.seed,
        "scenario": plan.scenario,
        "config": plan.config.label(),
        "knobs": plan.knobs,
        "flows": plan.flows,
        "extra": plan.extra,
    })
}

/// the plan whose execution is in progress (for the livelock watchdog)
static CURRENT: std::sync::Mutex<Option<Plan>> = std::sync::Mutex::new(None);

fn livelock_violation(plan: &Plan, what: &str, secs: u64) -> report::ViolationRec {
    report::ViolationRec {
        property: plan.property.clone(),
        signature: format!("{}/livelock/{}", plan.property, cell_of(plan)),
        detail: format!(
            "{what} for {secs} s of wall time while executing this plan: a task of the simulated system is spinning without yielding \
             (or tasks keep waking each other while no simulated time can pass); the run never gives control back to the simulator"
        ),
        count: 1,
        plan: plan.clone(),
        ev_hash: 0,
    }
}

fn main() {
    rt::init_tracing();
    let args: Vec<String> = std::env::args().collect();
    if args.len() < 2 {
        eprintln!("usage: simcheck run|exec|plan ...");
        std::process::exit(2);
    }
    let flag = |name: &str| args.iter().any(|a| a == name);
    let opt = |name: &str| args.iter().position(|a| a == name).and_then(|i| args.get(i + 1)).cloned();
    match args[1].as_str() {
        "run" => {
            let prop = args[2].clone();
            let start: u64 = opt("--start").and_then(|s| s.parse().ok()).unwrap_or(0);
            let count: u64 = opt("--count").and_then(|s| s.parse().ok()).unwrap_or(1);
            let thorough = flag("--thorough");
            let out = opt("--out");
            let deadline_s: f64 = opt("--deadline").and_then(|s| s.parse().ok()).unwrap_or(f64::MAX);
            let t0 = Instant::now();
            let agg = std::sync::Arc::new(std::sync::Mutex::new(Agg { property: prop.clone(), ..Default::default() }));
            {
                // a livelocked run ends the worker: everything aggregated so far plus the livelock violation is written out
                let (agg, out) = (agg.clone(), out.clone());
                rt::start_watchdog(move |what, secs| {
                    let plan = CURRENT.lock().unwrap().clone();
                    let mut a = agg.lock().unwrap();
                    if what == "slow-world" {
                        // not a livelock: the world kept moving but did not finish within the hard limit; the rest of this
                        // worker's seeds are given up and that is said in the evidence
                        *a.probes.entry("worlds_abandoned_as_too_slow".to_owned()).or_insert(0) += 1;
                    } else if let Some(plan) = plan {
                        a.violations.push(livelock_violation(&plan, what, secs));
                        a.evaluations += 1;
                    }
                    a.wall_s = t0.elapsed().as_secs_f64();
                    let json = serde_json::to_string(&*a).unwrap();
                    match &out {
                        Some(p) => std::fs::write(p, json).unwrap(),
                        None => println!("{json}"),
                    }
                    std::process::exit(0);
                });
            }
            for seed in start..start + count {
                if t0.elapsed().as_secs_f64() > deadline_s {
                    break;
                }
                let Some(plan) = generate(&prop, seed, thorough) else {
                    eprintln!("no generator for {prop}");
                    std::process::exit(2);
                };
                *CURRENT.lock().unwrap() = Some(plan.clone());
                // a plan may ask for a process of its own: whatever /repo keeps in process-wide statics (caches that are filled by
                // the first flow a process sees) is then in the state a freshly started client and server have, not in the state
                // the previous plans of this worker left behind
                let o = if plan.extra.get("fresh_process").and_then(|v| v.as_bool()) == Some(true) { execute_in_child(&plan) } else { execute(&plan) };
                *CURRENT.lock().unwrap() = None;
                let mut agg = agg.lock().unwrap();
                if agg.samples.len() < 2 {
                    agg.samples.push(sample_of(&plan));
                }
                agg.add(&plan, &cell_of(&plan), o, flag("--hashes"));
            }
            let mut agg = agg.lock().unwrap();
            agg.wall_s = t0.elapsed().as_secs_f64();
            let json = serde_json::to_string(&*agg).unwrap();
            match out {
                Some(p) => std::fs::write(p, json).unwrap(),
                None => println!("{json}"),
            }
        }
        "exec" => {
            let text = std::fs::read_to_string(&args[2]).unwrap_or_else(|e| {
                eprintln!("cannot read {}: {e}", args[2]);
                std::process::exit(2);
            });
            let v: serde_json::Value = serde_json::from_str(&text).unwrap();
            let plan_v = if v.get("plan").is_some() { v["plan"].clone() } else { v };
            let plan: Plan = serde_json::from_value(plan_v).unwrap_or_else(|e| {
                eprintln!("bad plan: {e}");
                std::process::exit(2);
            });
            {
                let plan = plan.clone();
                rt::start_watchdog(move |what, secs| {
                    let v = livelock_violation(&plan, what, secs);
                    let res = serde_json::json!({
                        "violations": [{"property": v.property, "signature": v.signature, "detail": v.detail}],
                        "ev_hash": "livelock", "poll_hash": "livelock", "sim_s": 0.0, "stats": {}, "probes": {},
                    });
                    println!("{}", serde_json::to_string(&res).unwrap());
                    std::process::exit(0);
                });
            }
            let o = execute(&plan);
            let res = serde_json::json!({
                "violations": o.violations,
                "ev_hash": format!("{:016x}", o.ev_hash),
                "poll_hash": format!("{:016x}", o.poll_hash),
                "sim_s": o.sim_ns as f64 / 1e9,
                "stats": o.stats,
                "probes": o.probes,
                "ev_count": o.ev_count, "polls": o.polls, "sim_ns": o.sim_ns, "nontrivial": o.nontrivial,
                "case_hash": format!("{:016x}", o.case_hash), "extra_evaluations": o.extra_evaluations,
                "extra_cases": o.extra_cases.iter().map(|c| format!("{c:016x}")).collect::<Vec<_>>(),
            });
            println!("{}", serde_json::to_string(&res).unwrap());
        }
        "plan" => {
            let seed: u64 = args[3].parse().unwrap();
            let plan = generate(&args[2], seed, flag("--thorough")).unwrap();
            println!("{}", serde_json::to_string_pretty(&plan).unwrap());
        }
        _ => {
            eprintln!("unknown command");
            std::process::exit(2);
        }
    }
}
